#!/usr/bin/env python3
"""Regenerates /verif/MANIFEST.json from the table below."""
import json, subprocess

HOOK_COMMITS = ["59391db"]

CHECKS = {
 "C01": dict(tech="model-based stateful property testing (proptest): BDD operation histories vs. truth-table oracle",
   text="Generated search: random builder configurations (order permutation, both ITE cache kinds incl. 1..16-slot lossy caches, tiny and default unique tables) x <=60-operation histories; every returned diagram is read back node by node into a 256-bit truth table and compared with the oracle value of the operation's definition; the whole pool is re-read at checkpoints and at the end. Histories include compile_cnf / compile_logical_expr / compile_plan / compile_cnf_with_assignments and operand lists of up to 80 entries and dense functions drawn as whole truth tables (three histories in ten start from one or two of them: results above 64 nodes and cofactor-style operations on such operands occur a few hundred times per quick run; the evidence carries the size buckets); in a fifth of the cases the <=8 oracle variables are embedded at random positions of a builder with 9..200 variables (labels, levels and models beyond 64 and 128). Falsification only: no proof of absence; functions depend on <=8 variables.",
   note="Trusted: the harness's truth-table oracle and BddPtr walker (unit-tested against brute force); proptest RNG. Functions of <= 8 variables (in builders of up to 200), <= 60 ops.", ref="5/C01"),
 "C02": dict(tech="model-based property testing: canonicity map keyed by the truth table read off each diagram (both directions of the iff) + unique table driven against a key->address model with colliding hashes at small and mid sizes + default-capacity growth run",
   text="Generated search in five layers: builder histories with 1..64-slot unique tables (pointer identity keyed by the walked truth table, inequality against every diagram of another function, shape walk, re-request of every node after growth; a fifth of the builders have 9..200 variables), the table itself against a key->address model under colliding hashes and repeated growth (<=40 keys), the table at 200..4000 keys with capacities 1..1024, default-capacity builders pushed past the 131072-slot growth thresholds, and builders over 9..20 variables holding diagrams of hundreds of nodes on which ten identities (commutativity, De Morgan, xor / ite by and/or, exists, compose, conditioning, Shannon, and_lst, iff) built by two routes must give one pointer and a reduced ordered shape. Falsification only.",
   note="Trusted: oracle truth tables, walker, hook capacity override (feature verif-hooks) which only changes the initial table size.", ref="5/C02"),
 "C06": dict(tech="property-based differential testing: top-down compiler (both node stores) vs. brute-force CNF truth table, plus metamorphic conditioning of results and their negations",
   text="Generated search: random CNFs (edge cases, repeated gadgets, contradiction cores that unit propagation alone does not refute) x random decision orders x both node stores; false constant iff unsatisfiable, walked truth table equals the CNF's, no path repeats a variable, conditioning of the result and of its negation equals the cofactor for every (variable, value), chained conditioning, further CNFs compiled in the same builders; a further sub-check compiles CNFs over 20..34 variables (thousands of cached components) and holds the result to the uniform measure of the bottom-up compilation of the same CNF and to evaluation on assignments. Falsification only; truth-table part n <= 7.",
   note="Trusted: harness CNF evaluator/truth tables, BddPtr walker. Semantic store checked over the 64-bit prime only.", ref="5/C06"),
 "C08": dict(tech="property-based testing against brute-force weighted sums with exact integer / finite-field weights and a path-shape walker",
   text="Generated search: BDDs from random histories under random orders (level-skipping at top/middle/bottom measured), every admissible n_s, arbitrary non-normalised integer weights and boundary residues: same truth table, every path tests exactly the order prefix, counts equal brute force exactly; smoothed results are smoothed again (same and longer prefixes). Falsification only; n <= 8.",
   note="Trusted: truth-table oracle, path walker, harness mulmod. Inputs respect smooth()'s documented precondition.", ref="5/C08"),
 "C09": dict(tech="model-based stateful property testing of the SAT solver: decide/pop histories vs. brute-force entailment, recorded-state model and fresh-solver differential",
   text="Generated search: random CNFs x decide/pop histories; after every step soundness (entailment by brute force), conflict soundness, fixpoint (no falsified clause, no clause with exactly one unassigned literal), satisfied flag, exact undo of model/hash/flag/difference, hash=>residual, and agreement with a fresh solver replaying the surviving decisions; a further sub-check builds implication chains of up to 1000 variables (binary and ternary links, side clauses, closing clauses) and compares the solver after each decision with a naive fixpoint computation (one decision implying hundreds of literals); a third walks decide / pop histories on random CNFs over 12..80 variables against the same fixpoint oracle, with hash => residual over all states of a walk. Falsification only; truth-table part n <= 6, <= 40 steps.",
   note="Trusted: harness clause semantics and truth tables; model reconstructed from difference_iter. Hash clause asserted for all CNF sizes (a wrapped 128-bit product colliding is treated as a violation, probability ~2^-127 per pair). The solver's input is the Cnf object as read back through clauses().", ref="5/C09"),
 "C13": dict(tech="exhaustive enumeration of small carriers + property-based testing of algebraic laws against arbitrary-precision-safe reference arithmetic",
   text="Complete enumeration of all triples of GF(2..13) and of the 8^3 boundary residues of every exported prime (the list is generated from the library's src/constants.rs when the harness is built), plus generated triples (random 128-bit residues for all 7 primes; exact integers/dyadics for real, complex, expected utility; all Boolean triples; naturals for rational; polynomials of 0..32 coefficients over reals and three finite fields; real and complex triples also scaled by 2^-60 / 2^40 and with independently scaled components; expected utilities and reals with 30- and 44-bit operands at mixed scales): every semiring law, reference modular arithmetic, ring subtraction, lattice laws. Exhaustive on the small carriers, falsification only elsewhere.",
   note="Trusted: harness mulmod/addmod/submod and truncated convolution; f64 exactness of the chosen value sets.", ref="5/C13"),
 "C14": dict(tech="property-based testing of derived structures against definitions recomputed from the CNF / tree shape",
   text="Generated search: random CNFs x four elimination orders for order/dtree/derived-vtree well-formedness (permutation, inverse maps, leaf clauses, vars, internal cutsets, vtree leaves; leaf cutsets and cutwidth recorded only); random vtrees (<=12 leaves, all shape families, non-contiguous labels) for in-order indices, subtree lookup, lca of all node pairs, prime relation from the shape (indices, labels, literals, decision nodes), variable count; LeastCommonAncestor on random binary trees for all index pairs; about 1 % of the cases use 17..150-leaf trees and 20..130-variable CNFs, and a sub-check of its own uses formulas over 130..1300 variables (sizes around 256 and 1024; min-fill up to 420 variables; a vtree manager on the derived vtree, depth beyond 255 and 1023). Falsification only.",
   note="Trusted: harness set computations and in-order numbering. CNFs without clauses (dtree, FORCE) and with an empty clause (FORCE) excluded by construction and counted.", ref="5/C14"),
 "C15": dict(tech="property-based + model-based stateful testing of CNF utilities, partial models, variable sets and the residual hasher against set-theoretic models",
   text="Generated search: clause lists incl. all edge cases for construction/eval/is_sat_partial/condition/exact brute-force counting (n = 0 included); stateful histories on PartialModel/VarSet vs Vec/BTreeSet models; push/decide/pop/hash histories of CnfHasher with residual-signature oracle in both directions (the converse for every pair of states whose prime products fit in 128 bits; there the hash value must factor into one distinct prime per residual literal occurrence); a sub-check of its own hashes formulas with 600..6000 literal occurrences in states whose open clauses lie 64..4096 occurrences apart, incl. clauses of 5..24 literals left open on up to 12 of them (a single clause's product beyond 2^64). Falsification only.",
   note="Trusted: harness evaluator and set models. hash compared only for assignments that falsify no clause and contain the decisions in effect.", ref="5/C15"),
 "C03": dict(tech="model-based stateful property testing (proptest): SDD operation histories vs. truth-table oracle over random vtrees",
   text="Generated search: random vtrees (all shape families, random leaf orders) x compression on/off x tiny/default unique tables x <=40-operation histories; every returned SDD is read element by element into a truth table and compared with the oracle; pool re-read at checkpoints and at the end; the four vtree relations of apply operands are measured from the shape. Histories include dense functions given by a whole random truth table (decision nodes with more than 20 elements occur); in one case of six the <=8 variables sit at random leaves of a vtree with 9..120 leaves (vtree indices beyond 64 and 128). Falsification only; functions of <= 8 variables (<= 4 without compression, where diagrams blow up).",
   note="Trusted: truth-table oracle and SddPtr walker. Uncompressed mode bounded to small inputs because the library's structural node comparison is exponential there (time is never a verdict).", ref="5/C03"),
 "C04": dict(tech="property-based testing of structural invariants with a vtree-shape oracle and a canonicity map keyed by truth table",
   text="Generated search on the compressing builder (with a Rebuild-by-cubes op as an independent construction route and tiny unique tables): every reachable node is checked for non-false, disjoint, exhaustive primes, variable scoping against the harness's own in-order numbering of the vtree, distinct subs, trimming, and equal functions => pointer equality (results, rebuilds, negations); the first decision-node results are also conditioned on every literal and the cofactors held to the same checks; dense random truth tables give nodes with more than 20 elements; in one case of six the variables are embedded in a vtree with 9..120 leaves. A second sub-check needs no truth table: on vtrees over 9..26 variables (incl. a long chain left of the root, terms sharing a cube over it) identities built by two routes must be one pointer. Falsification only; node-level checks on functions of <= 8 variables.",
   note="Trusted: ShapeInfo (harness vtree numbering), walker, truth tables. Library predicates is_canonical etc. are only recorded.", ref="5/C04"),
 "C05": dict(tech="property-based differential testing: every bottom-up compilation route vs. the harness's own CNF / expression / plan evaluators",
   text="Generated search: CNFs (all edge cases) through BDD compile (random order, both caches), SDD compile (random and dtree-derived vtrees), dtree plans on both builders, compile-under-assignment vs compile-then-condition (pointer-equal + iterated cofactor); random expressions (7 constructors) and plans (8 constructors) on both builders. A further sub-check compiles CNFs over up to 200 variables (labels crossing 32/64/128) and reads the diagrams on sampled and clause-falsifying assignments. Falsification only; truth-table part <= 7 variables.",
   note="Trusted: harness evaluators and walkers. CNFs without clauses are not sent through DTree::from_cnf; FORCE not used with empty clauses.", ref="5/C05"),
 "C07": dict(tech="property-based differential testing of weighted counts across representations against exact brute-force semiring sums",
   text="Generated search: a function (random truth table or CNF) as BDDs under 3 orders, SDDs under 2 vtrees (one uncompressed), regular and negated, an SDD from the hash-identified builder, plus both top-down stores (regular and negated); seven semirings with exactly representable normalised weights (all 7 exported primes with boundary residues, two larger Mersenne primes, polynomials truncated at 32 coefficients), each representation counted against the function read off the diagram: every count equals the brute-force sum over models; evaluate() equals the truth table on all assignments; arbitrary weights on canonical BDDs equal the order-aware Shannon sum. A second sub-check counts conjunctions / disjunctions of 3..8 small blocks scattered over 20..150 labels (BDD and SDD, regular and negated) against the product form of the blocks' brute-force counts, over three fields and the reals, and compares evaluate() with the harness's own walk. Falsification only; truth-table part n <= 7.",
   note="Trusted: harness brute force / order-aware count / mulmod / polynomial convolution; exactness of dyadic and small-integer f64 arithmetic.", ref="5/C07"),
 "C10": dict(tech="model-based stateful property testing: query histories vs. the same single query on a freshly built copy, with a scratch-slot invariant after every call",
   text="Generated search: pools of diagrams sharing nodes (BDD builder; SDD builder and top-down d-DNNF) under histories of up to 26 queries of 19 (BDD) / 21 (SDD, top-down) kinds with forced repetitions, diagrams produced by smooth / condition / exists joining the pool; top-down diagrams and their negations are conditioned through the store that owns them (standard and hash-identified); each answer must equal the answer of that single query on a freshly built copy in a new builder, and every reachable node must report an empty scratch slot after every public call (debug assertions compiled in); a further sub-check issues 66 000..140 000 queries on one builder against single queries on fresh copies. Falsification only.",
   note="Trusted: determinism of the library given identical construction histories; walker for diagram-valued answers.", ref="5/C10"),
 "C11": dict(tech="property-based testing of the semantic hash against its defining sum (own modular arithmetic) across representations, plus model-based histories of the hash-identified SDD builder",
   text="Generated search: every representation of a function (BDD orders, vtrees, uncompressed SDD, top-down stores, hash-identified builders over the 64-bit field; several CNFs compiled and conditioned in one hash-identified top-down store, every earlier result re-read after each; all diagrams that store hands out are compared with each other: one function, one pointer, negation = complemented pointer) hashes to the defining sum over models for three primes; negation = 1 - h; cached = recomputed (twice, after further operations, every internal node). Semantic SDD builder histories over the 64-bit field (three compression settings, stats() calls in between): results denote the oracle function, equal truth tables => eq for all pool pairs, cached hash of every entry = defining sum. Falsification only.",
   note="Trusted: harness mulmod/brute force. A 2^-64 collision is treated as impossible; hash-identified builders are asserted over the 64-bit prime only (collisions are expected by design over the 20/29-bit primes).", ref="5/C11"),
 "C12": dict(tech="property-based testing of optimisation queries against exhaustive maximisation with exact dyadic arithmetic",
   text="Generated search: functions over <= 6 variables under random orders; all query/decision subsets and orderings (empty, all, outside the support); marginal_map and bb<Real> vs. exhaustive maximum of the restricted weighted count; meu and bb<ExpectedUtility> vs. exhaustive maximum of the order-aware unsmoothed expected utility, in the stated weight domain built by construction; returned assignments must be complete and attain the optimum, and the returned pair must be the count under the returned assignment; num_vars = n..n+3; a fifth of the cases embed the function in a builder with up to 200 variables (query variables and models beyond 64 and 128); a third use weights down to 2^-15; marginal_map / bb are also asked on the smoothed BDD and on the top-down compilation of the CNF source. Falsification only.",
   note="Trusted: harness brute force; exact dyadic f64. Ties accept any maximiser.", ref="5/C12"),
 "C16": dict(tech="model-based testing of the lossy cache against a last-write map, differential testing of builders across cache kinds/sizes, warm/cold differential for SDD caches",
   text="Generated search: Lru driven with colliding hashes at 1..16 slots, and at 2^10..2^13 slots filled to 0.8..2.2 times their size with re-insertions and colliding keys, vs 'last value per key' (hits counted); identical histories on cache-everything and lossy-cache BDD builders (1..16 slots) must give isomorphic canonical diagrams and the same equality relation; SDD operations re-issued warm must return the same pointer and results recomputed cold from their dependency cone in a fresh builder must be isomorphic; the hash-identified SDD builder's apply cache likewise (same function, judged equal). Falsification only.",
   note="Trusted: structural isomorphism walkers; hook counters for overwrites/growth (evidence only).", ref="5/C16"),
 "C17": dict(tech="grammar-based generation of DIMACS / s-expression text and round-trip / differential checks with an independent JSON reader",
   text="Generated search: DIMACS text with arbitrary layout/comments/wrong header counts/empty clauses/missing final 0 parsed by both parsers and round-tripped through to_dimacs (labels up to 250, compared on assignments); s-expression text with random whitespace and names vs. AST evaluated by name under the lexicographic numbering; BDD/SDD/vtree JSON read by the harness's own reader vs. the truth table read off the in-memory object. Falsification only.",
   note="Trusted: harness text generators and JSON reader. Inputs restricted to what the third-party dimacs / serde_sexpr crates accept (probed empirically).", ref="5/C17"),
 "C18": dict(tech="model-based stateful differential testing of the C ABI (linked extern \"C\" symbols) in lock step with the native builder and the truth-table oracle",
   text="Generated search: histories of <=40 C-API calls on one manager (three ways of constructing it) interleaved with eq/count/model-count/real/complex/polynomial counts/JSON, plus the one-shot wrappers (cnf_new, cnf_from_dimacs, min-fill order, dtree, vtree, compile, sdd, ddnnf); results are read through the C accessors only (texts handed out earlier are re-read before every later call; sdd_wmc under three weight tables in turn, unnormalised ones included, on vtrees wider than the CNF) and compared with the native results of the same calls (differences between native results and the oracle are recorded, not reported: other properties own them). Falsification only.",
   note="Trusted: extern declarations mirror src/ffi signatures; rlib linking of #[no_mangle] symbols.", ref="5/C18"),
 "C19": dict(tech="property-based black-box testing of the command-line tools as subprocesses on generated files",
   text="Generated search: formula/weights/config files for weighted_model_count (non-normalised dyadic weights, weight-only names sorting before, between and after the formula's names, missing weights, configured orders, in a quarter of the cases one weight with 26 significant bits) compared exactly with brute-force counts; DIMACS and s-expression inputs for both converters, whose JSON output is read by the harness's reader. Falsification only; Every case runs against the dev-profile and the release-profile build of the tools; ~25 ms per process bounds the case count.",
   note="Trusted: stdout line format, f64 Display round trip, harness brute force and JSON reader. Tools rebuilt from /repo by run_check.sh.", ref="5/C19"),
}

NOT_YET = {
}

def main():
    props = [json.loads(l) for l in open('/verif/properties.jsonl')]
    checks = []
    na = []
    for p in props:
        pid = p['id']
        if pid in CHECKS:
            c = CHECKS[pid]
            checks.append({
                "property_id": pid,
                "quick_cmd": f"./run_check.sh {pid} quick",
                "thorough_cmd": f"./run_check.sh {pid} thorough",
                "evidence_file": f"/verif/evidence/{pid}.json",
                "replay_cmd_template": "/verif/harness/target/debug/vp replay {path}",
                "engine": "vp-proptest",
                "level_claimed": {"category": "exploration", "text": c['text'], "design_ref": c['ref']},
                "level_note": c['note'],
                "technique": c['tech'],
            })
        else:
            na.append({"property_id": pid, "reason": NOT_YET.get(pid, "check not built yet (work in progress; property-based check planned in DESIGN.md section 5)")})
    m = {
        "version": 1,
        "setup_cmd": "./setup.sh",
        "hooks": {
            "guard": "cargo feature verif-hooks",
            "enable": "the harness depends on rsdd with features [ffi, verif-hooks] (path dependency on /repo, rebuilt by every check)",
            "baseline_off_cmd": "cd /repo && cargo test --workspace --no-fail-fast --offline",
            "source_commits": HOOK_COMMITS,
            "add_only": True,
        },
        "engines": [
            {"name": "vp-proptest", "path": "/verif/harness", "serves_properties": sorted(CHECKS.keys()),
             "kind_free_text": "proptest 1.11 driven from a binary (fixed seeds, child-process workers, shrinking, JSON replay files) against truth-table / brute-force oracles"},
        ],
        "checks": checks,
        "not_applicable": na,
        "notes": "Every check: ./run_check.sh <ID> <tier> rebuilds the harness against /repo's working tree, replays /verif/replays/<ID>/*.json, then runs the generated search. Exit 0 held / 1 VIOLATION / 2 inconclusive. New failing inputs are written to /verif/work/failures/<ID>/ and named on the VIOLATION line.",
    }
    json.dump(m, open('/verif/MANIFEST.json', 'w'), indent=1)
    print("checks:", len(checks), "not_applicable:", len(na))

if __name__ == '__main__':
    main()
