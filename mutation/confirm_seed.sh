#!/bin/bash
# usage: confirm_seed.sh <ID> <dir with patch.diff and seeded_demo.rs>
# Independently re-verifies a seeded change in a fresh scratch worktree of /repo:
#   demo passes on the clean tree, patch applies, demo fails with the patch, existing suite passes with the patch.
ID="$1"; SRC="$2"
WT=/tmp/confirm-$ID
export CARGO_NET_OFFLINE=true
export CARGO_TARGET_DIR="${CONFIRM_TARGET:-/tmp/confirm-target}"
git -C /repo worktree remove --force $WT 2>/dev/null
git -C /repo worktree add -q --detach $WT HEAD || exit 2
cd $WT || exit 2
cp "$SRC/seeded_demo.rs" tests/seeded_demo.rs
echo "== demo on clean tree"
if cargo test --offline $SEED_FEATURES --test seeded_demo >/tmp/confirm-$ID.clean.log 2>&1; then CLEAN=pass; else CLEAN=fail; fi
echo "   $CLEAN"
echo "== apply patch"
if git apply "$SRC/patch.diff"; then APPLY=ok; else APPLY=fail; fi
echo "   $APPLY"
echo "== demo with patch"
if cargo test --offline $SEED_FEATURES --test seeded_demo >/tmp/confirm-$ID.patched.log 2>&1; then PATCHED=pass; else PATCHED=fail; fi
echo "   $PATCHED"
echo "== existing suite with patch (demo moved aside)"
mv tests/seeded_demo.rs /tmp/confirm-$ID.demo.rs
if cargo test --workspace --no-fail-fast --offline >/tmp/confirm-$ID.suite.log 2>&1; then SUITE=pass; else SUITE=fail; fi
grep -E "^test result" /tmp/confirm-$ID.suite.log | tr '\n' ' '
echo "   $SUITE"
cd /
git -C /repo worktree remove --force $WT
echo "CONFIRM $ID clean_demo=$CLEAN apply=$APPLY patched_demo=$PATCHED suite=$SUITE"
if [ "$CLEAN" = pass ] && [ "$APPLY" = ok ] && [ "$PATCHED" = fail ] && [ "$SUITE" = pass ]; then exit 0; else exit 1; fi
