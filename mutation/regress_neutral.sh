#!/bin/bash
# usage: regress_neutral.sh [pattern] [IDs]
# Runs every kept behaviour-preserving change (/verif/neutral/*/patch.diff) against the quick tier of every check
# (or the comma-separated IDs given) in a scratch copy; every line must say SURVIVED (= the check stayed silent),
# except for the IDs listed in a change's expected_alarms.txt (there the property named is really violated).
PAT="${1:-}"
IDS="${2:-C01,C02,C03,C04,C05,C06,C07,C08,C09,C10,C11,C12,C13,C14,C15,C16,C17,C18,C19}"
ARGS=()
for d in /verif/neutral/*/; do
  case "$(basename "$d")" in *"$PAT"*) ARGS+=("${d%/}:$IDS") ;; esac
done
REG=/tmp/vp-neutral exec /verif/mutation/try_seeds.sh "${ARGS[@]}"
