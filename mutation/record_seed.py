#!/usr/bin/env python3
"""record_seed.py <src-dir> <seed-id> <caught-by csv> <missed-by csv> [note]
Copies a confirmed seeded change into /verif/seeded/<seed-id>/ and extends its meta.json with what was run here."""
import json, shutil, sys, os
src, sid, caught, missed = sys.argv[1:5]
note = sys.argv[5] if len(sys.argv) > 5 else ""
dst = f"/verif/seeded/{sid}"
os.makedirs(dst, exist_ok=True)
for f in ("patch.diff", "seeded_demo.rs"):
    shutil.copy(os.path.join(src, f), os.path.join(dst, f))
meta = json.load(open(os.path.join(src, "meta.json")))
meta["breaks_property"] = meta.get("property")
meta["independently_confirmed"] = {
    "how": "/verif/mutation/confirm_seed.sh in a fresh scratch worktree of /repo: demo passes on the clean tree, patch applies, demo fails with the patch, `cargo test --workspace --no-fail-fast --offline` passes with the patch (demo moved aside)",
    "result": "clean_demo=pass apply=ok patched_demo=fail suite=pass",
}
meta["checks_run_against_it"] = {
    "how": "/verif/mutation/run_mutant.sh <patch> <IDs>: git -C /repo apply, ./run_check.sh <ID> quick, git -C /repo checkout -- .",
    "caught_by_quick": [c for c in caught.split(",") if c],
    "missed_by_quick": [c for c in missed.split(",") if c],
    "note": note,
}
json.dump(meta, open(os.path.join(dst, "meta.json"), "w"), indent=1)
print("recorded", dst)
