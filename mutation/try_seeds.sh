#!/bin/bash
# usage: try_seeds.sh <seed-dir>:<ID>[,<ID>...] ...
# Like regress_seeds.sh, for seeds that are not recorded yet: each <seed-dir>/patch.diff is applied to a scratch
# worktree of /repo and the quick tiers of the listed checks are run from a scratch copy of /verif.
REG="${REG:-/tmp/vp-try}"
git -C /repo worktree remove --force "$REG/repo" 2>/dev/null
rm -rf "$REG"; mkdir -p "$REG"
git -C /repo worktree add -f --detach "$REG/repo" HEAD >/dev/null 2>&1 || { echo "cannot create worktree"; exit 2; }
rsync -a --exclude target --exclude work --exclude fuzz --exclude .git /verif/ "$REG/verif/"
sed -i "s#\"/repo\"#\"$REG/repo\"#g" "$REG/verif/harness/Cargo.toml"
sed -i "s#/repo/Cargo.toml#$REG/repo/Cargo.toml#g" "$REG/verif/run_check.sh"
cleanup() { git -C /repo worktree remove --force "$REG/repo" 2>/dev/null; git -C /repo worktree prune; rm -rf "$REG"; }
trap cleanup EXIT
for spec in "$@"; do
  dir="${spec%%:*}"; ids="${spec#*:}"
  name=$(basename "$dir")
  if ! git -C "$REG/repo" apply "$dir/patch.diff" 2>/dev/null; then echo "NOAPPLY  $name"; continue; fi
  for id in ${ids//,/ }; do
    out=$("$REG/verif/run_check.sh" "$id" quick 2>&1); code=$?
    sig=$(echo "$out" | grep -m3 "signature:" | tr -s ' ' | tr '\n' ';')
    case $code in
      1) echo "KILLED   $name by $id: $sig" ;;
      0) echo "SURVIVED $name vs $id: $(echo "$out" | tail -1)" ;;
      *) echo "INCONCLUSIVE $name vs $id exit $code: $(echo "$out" | tail -2 | tr '\n' ' ')" ;;
    esac
  done
  git -C "$REG/repo" checkout -- . ; git -C "$REG/repo" clean -fdq
done
