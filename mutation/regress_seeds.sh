#!/bin/bash
# usage: regress_seeds.sh [pattern]   (pattern: substring of the seed directory names to run; default all)
# Runs every kept seeded change (and every reverted fix) against the quick tier of the property it targets,
# in a scratch copy of /verif and a scratch worktree of /repo, so that /repo and /verif/harness/target stay
# untouched and usable meanwhile. Prints KILLED / SURVIVED / INCONCLUSIVE per change. Not a registered check.
PAT="${1:-}"
REG="${REG:-/tmp/vp-regress}"
git -C /repo worktree remove --force "$REG/repo" 2>/dev/null
rm -rf "$REG"; mkdir -p "$REG"
git -C /repo worktree add -f --detach "$REG/repo" HEAD >/dev/null 2>&1 || { echo "cannot create worktree"; exit 2; }
rsync -a --exclude target --exclude work --exclude fuzz --exclude .git /verif/ "$REG/verif/"
sed -i "s#\"/repo\"#\"$REG/repo\"#g" "$REG/verif/harness/Cargo.toml"
sed -i "s#/repo/Cargo.toml#$REG/repo/Cargo.toml#g" "$REG/verif/run_check.sh"
cleanup() { git -C /repo worktree remove --force "$REG/repo" 2>/dev/null; git -C /repo worktree prune; rm -rf "$REG"; }
trap cleanup EXIT
run_one() { # name patch id reverse
  local name="$1" patch="$2" id="$3" rev="$4"
  if ! git -C "$REG/repo" apply $rev "$patch" 2>/dev/null; then echo "NOAPPLY  $name"; return; fi
  local out code sig
  out=$("$REG/verif/run_check.sh" "$id" quick 2>&1); code=$?
  git -C "$REG/repo" checkout -- . ; git -C "$REG/repo" clean -fdq
  sig=$(echo "$out" | grep -m2 "signature:" | tr -s ' ' | tr '\n' ';')
  case $code in
    1) echo "KILLED   $name by $id: $sig" ;;
    0) echo "SURVIVED $name vs $id: $(echo "$out" | tail -1)" ;;
    *) echo "INCONCLUSIVE $name vs $id exit $code: $(echo "$out" | tail -2 | tr '\n' ' ')" ;;
  esac
}
for d in /verif/seeded/*/; do
  name=$(basename "$d")
  case "$name" in *"$PAT"*) ;; *) continue ;; esac
  id=$(python3 -c "import json,sys;print(json.load(open('$d/meta.json'))['breaks_property'])")
  run_one "$name" "$d/patch.diff" "$id" ""
done
for p in /verif/mutation/reverts/*.diff; do
  name=$(basename "$p" .diff)
  case "revert-$name" in *"$PAT"*) ;; *) continue ;; esac
  case "$name" in
    D1-*) id=C02 ;; D2-*) id=C06 ;; D3-*) id=C08 ;; D4-*) id=C09 ;; D5-*) id=C13 ;; D6-*) id=C13 ;;
    D7-*) id=C14 ;; D8-*) id=C15 ;; D9-*) id=C06 ;; D10-*) id=C14 ;; *) id="" ;;
  esac
  [ -n "$id" ] && run_one "revert-$name" "$p" "$id" "-R"
done
