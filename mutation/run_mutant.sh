#!/bin/bash
# usage: run_mutant.sh [-R] <patch-file> <ID> [<ID>...]
# Applies the patch to /repo's working tree (reverse with -R), runs the quick tier of each check,
# prints KILLED/SURVIVED per check, and always restores /repo afterwards. Not part of any registered check.
REV=""
if [ "$1" = "-R" ]; then REV="-R"; shift; fi
PATCH="$1"; shift
cd /repo || exit 2
if [ -n "$(git status --porcelain --untracked-files=no)" ]; then echo "/repo is dirty; refusing"; exit 2; fi
restore() { git -C /repo checkout -- . ; }
trap restore EXIT
if ! git apply $REV "$PATCH"; then echo "patch does not apply: $PATCH"; exit 2; fi
TIER="${MUT_TIER:-quick}"
for ID in "$@"; do
  OUT=$(cd /verif && ./run_check.sh "$ID" "$TIER" 2>&1)
  CODE=$?
  SIG=$(echo "$OUT" | grep -m3 "signature:" | tr -s ' ' | tr '\n' ';')
  case $CODE in
    1) echo "KILLED   $(basename $PATCH) by $ID ($TIER): $SIG" ;;
    0) echo "SURVIVED $(basename $PATCH) vs $ID ($TIER): $(echo "$OUT" | tail -1)" ;;
    *) echo "INCONCLUSIVE $(basename $PATCH) vs $ID ($TIER) exit $CODE: $(echo "$OUT" | tail -2 | tr '\n' ' ')" ;;
  esac
done
