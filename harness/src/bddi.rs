//! BDD operation histories: case types, proptest strategies, and an interpreter that
//! applies each operation to a real `RobddBuilder` and, in lock step, to the truth-table oracle.
use crate::engine::pick;
use crate::tt::{Tt, NV};
use proptest::prelude::*;
use rsdd::builder::bdd::{BddBuilder, RobddBuilder};
use rsdd::builder::cache::IteTable;
use rsdd::builder::BottomUpBuilder;
use rsdd::repr::{BddPtr, PartialModel, VarLabel, VarOrder};
use serde::{Deserialize, Serialize};

#[derive(Clone, Debug, Serialize, Deserialize, PartialEq)]
pub enum BOp {
    Lit(u8, bool),
    Const(bool),
    Not(u16),
    And(u16, u16),
    Or(u16, u16),
    Xor(u16, u16),
    Iff(u16, u16),
    Ite(u16, u16, u16),
    Cond(u16, u8, bool),
    CondModel(u16, Vec<Option<bool>>),
    Exists(u16, u8),
    Compose(u16, u8, u16),
    AndLst(Vec<u16>),
    OrLst(Vec<u16>),
    NewVar(bool),
    /// compile_cnf of a small clause list over the builder's current variables (raw variable bytes are scaled
    /// to the current variable count): a diagram that enters the builder by another route than ite
    Cnf(Vec<Vec<(u8, bool)>>),
    /// compile_logical_expr / compile_plan of a small expression over the current variables, and
    /// compile_cnf_with_assignments: further routes by which diagrams enter a builder (variable indices are taken
    /// modulo the current variable count)
    Expr(crate::exprgen::Ex),
    Plan(crate::exprgen::Pl),
    CnfAssign(Vec<Vec<(u8, bool)>>, Vec<Option<bool>>),
}

impl BOp {
    pub fn kind(&self) -> &'static str {
        match self {
            BOp::Lit(..) => "lit",
            BOp::Const(..) => "const",
            BOp::Not(..) => "not",
            BOp::And(..) => "and",
            BOp::Or(..) => "or",
            BOp::Xor(..) => "xor",
            BOp::Iff(..) => "iff",
            BOp::Ite(..) => "ite",
            BOp::Cond(..) => "cond",
            BOp::CondModel(..) => "cond_model",
            BOp::Exists(..) => "exists",
            BOp::Compose(..) => "compose",
            BOp::AndLst(..) => "and_lst",
            BOp::OrLst(..) => "or_lst",
            BOp::NewVar(..) => "new_var",
            BOp::Cnf(..) => "compile_cnf",
            BOp::Expr(..) => "compile_logical_expr",
            BOp::Plan(..) => "compile_plan",
            BOp::CnfAssign(..) => "compile_cnf_with_assignments",
        }
    }
}

/// 0 = AllIteTable, 1 = LruIteTable (default capacity), 2+e = LruIteTable with hook capacity 2^e
#[derive(Clone, Debug, Serialize, Deserialize, PartialEq)]
pub struct BddCfg {
    pub n0: u8,
    pub order_keys: Vec<u16>,
    pub cache: u8,
    pub table_cap: Option<u16>,
}

impl BddCfg {
    /// level -> label
    pub fn order(&self) -> Vec<usize> {
        perm_from_keys(&self.order_keys, self.n0 as usize)
    }
    pub fn var_order(&self) -> VarOrder {
        let o: Vec<VarLabel> = self.order().into_iter().map(VarLabel::new_usize).collect();
        VarOrder::new(&o)
    }
    pub fn is_linear(&self) -> bool {
        self.order().iter().enumerate().all(|(i, v)| i == *v)
    }
    pub fn lru_exp(&self) -> Option<usize> {
        if self.cache >= 2 {
            Some((self.cache - 2) as usize)
        } else {
            None
        }
    }
}

/// stable argsort of the first n keys: a permutation of 0..n that shrinks towards the identity
pub fn perm_from_keys(keys: &[u16], n: usize) -> Vec<usize> {
    let mut idx: Vec<usize> = (0..n).collect();
    idx.sort_by_key(|&i| keys.get(i).copied().unwrap_or(0));
    idx
}

pub fn idx_strategy() -> impl Strategy<Value = u16> {
    prop_oneof![
        3 => any::<u16>(),
        2 => 0xB000u16..=0xFFFF,
    ]
}

pub fn order_keys_strategy() -> impl Strategy<Value = Vec<u16>> {
    prop_oneof![
        2 => Just(vec![0u16; NV]),
        1 => Just((0..NV as u16).rev().collect::<Vec<u16>>()),
        7 => proptest::collection::vec(any::<u16>(), NV),
    ]
}

/// operand lists for and_lst / or_lst: mostly short, sometimes long, and often of a length next to a power of two or
/// a multiple of 16 (block-wise implementations have their boundaries there)
pub fn lst_strategy() -> impl Strategy<Value = Vec<u16>> {
    prop_oneof![
        6 => proptest::collection::vec(idx_strategy(), 0..5),
        2 => proptest::collection::vec(idx_strategy(), 5..13),
        1 => proptest::collection::vec(idx_strategy(), 13..80),
        1 => prop_oneof![Just(15usize), Just(16), Just(17), Just(31), Just(32), Just(33), Just(47), Just(48), Just(49), Just(63), Just(64), Just(65)]
            .prop_flat_map(|n| proptest::collection::vec(idx_strategy(), n)),
    ]
}

pub fn bop_strategy() -> impl Strategy<Value = BOp> {
    prop_oneof![
        4 => (any::<u8>(), any::<bool>()).prop_map(|(v, p)| BOp::Lit(v, p)),
        1 => any::<bool>().prop_map(BOp::Const),
        2 => idx_strategy().prop_map(BOp::Not),
        6 => (idx_strategy(), idx_strategy()).prop_map(|(a, b)| BOp::And(a, b)),
        5 => (idx_strategy(), idx_strategy()).prop_map(|(a, b)| BOp::Or(a, b)),
        3 => (idx_strategy(), idx_strategy()).prop_map(|(a, b)| BOp::Xor(a, b)),
        3 => (idx_strategy(), idx_strategy()).prop_map(|(a, b)| BOp::Iff(a, b)),
        5 => (idx_strategy(), idx_strategy(), idx_strategy()).prop_map(|(a, b, c)| BOp::Ite(a, b, c)),
        3 => (idx_strategy(), any::<u8>(), any::<bool>()).prop_map(|(a, v, b)| BOp::Cond(a, v, b)),
        2 => (idx_strategy(), proptest::collection::vec(proptest::option::weighted(0.4, any::<bool>()), NV))
            .prop_map(|(a, m)| BOp::CondModel(a, m)),
        3 => (idx_strategy(), any::<u8>()).prop_map(|(a, v)| BOp::Exists(a, v)),
        3 => (idx_strategy(), any::<u8>(), idx_strategy()).prop_map(|(a, v, g)| BOp::Compose(a, v, g)),
        1 => lst_strategy().prop_map(BOp::AndLst),
        1 => lst_strategy().prop_map(BOp::OrLst),
        1 => any::<bool>().prop_map(BOp::NewVar),
        1 => proptest::collection::vec(proptest::collection::vec((any::<u8>(), any::<bool>()), 1..=3), 1..=4).prop_map(BOp::Cnf),
        1 => crate::exprgen::ex_strategy(8, 3).prop_map(BOp::Expr),
        1 => crate::exprgen::pl_strategy(8, 3).prop_map(BOp::Plan),
        1 => (
            proptest::collection::vec(proptest::collection::vec((any::<u8>(), any::<bool>()), 1..=3), 1..=4),
            proptest::collection::vec(proptest::option::weighted(0.3, any::<bool>()), NV),
        )
            .prop_map(|(c, m)| BOp::CnfAssign(c, m)),
    ]
}

pub fn cfg_strategy(max_n0: u8) -> impl Strategy<Value = BddCfg> {
    (
        1u8..=max_n0,
        order_keys_strategy(),
        prop_oneof![3 => Just(0u8), 2 => Just(1u8), 5 => 2u8..=6],
        prop_oneof![2 => Just(None), 8 => (1u16..=64).prop_map(Some)],
    )
        .prop_map(|(n0, order_keys, cache, table_cap)| BddCfg {
            n0,
            order_keys,
            cache,
            table_cap,
        })
}

pub fn ops_strategy(max_len: usize) -> impl Strategy<Value = Vec<BOp>> {
    proptest::collection::vec(bop_strategy(), 0..=max_len)
}

/// information about one applied operation
pub struct StepOut {
    pub idx: usize,
    pub kind: &'static str,
    pub args: Vec<usize>,
}

pub struct BddRun<'a, T: IteTable<'a, BddPtr<'a>> + Default> {
    pub b: &'a RobddBuilder<'a, T>,
    /// (diagram, expected truth table, produced-by-op?)
    pub pool: Vec<(BddPtr<'a>, Tt)>,
    pub n: usize,
    pub new_vars: usize,
    pub max_new_vars: usize,
    /// set when a variable added at run time did not get a fresh label at the end of the order
    pub label_fault: Option<String>,
}

impl<'a, T: IteTable<'a, BddPtr<'a>> + Default> BddRun<'a, T> {
    pub fn new(b: &'a RobddBuilder<'a, T>, n0: usize) -> Self {
        let mut pool = vec![(BddPtr::PtrTrue, Tt::TRUE), (BddPtr::PtrFalse, Tt::FALSE)];
        for v in 0..n0 {
            pool.push((b.var(VarLabel::new_usize(v), true), Tt::var(v)));
        }
        BddRun {
            b,
            pool,
            n: n0,
            new_vars: 0,
            max_new_vars: NV,
            label_fault: None,
        }
    }

    fn at(&self, i: u16) -> usize {
        pick(i, self.pool.len())
    }

    fn v(&self, raw: u8) -> usize {
        ((raw as usize) * self.n) >> 8
    }

    /// apply one operation; `None` when the op is not applicable in the current state (counted by caller)
    pub fn step(&mut self, op: &BOp) -> Option<StepOut> {
        let b = self.b;
        let (ptr, tt, args): (BddPtr<'a>, Tt, Vec<usize>) = match op {
            BOp::Lit(..) | BOp::Cond(..) | BOp::Exists(..) | BOp::Compose(..) | BOp::Cnf(..) | BOp::Expr(..) | BOp::Plan(..) | BOp::CnfAssign(..) if self.n == 0 => return None,
            BOp::Expr(e) => {
                let n = self.n;
                let e2 = crate::textgen::rename(e, &|v| v % n);
                (b.compile_logical_expr(&e2.to_logical()), e2.tt(), vec![])
            }
            BOp::Plan(pl) => {
                let pl2 = rename_plan(pl, self.n);
                (b.compile_plan(&pl2.to_plan()), pl2.tt(), vec![])
            }
            BOp::CnfAssign(cl, m) => {
                let mapped: Vec<Vec<(usize, bool)>> = cl.iter().map(|c| c.iter().map(|(v, p)| (self.v(*v), *p)).collect()).collect();
                let lits: Vec<Vec<rsdd::repr::Literal>> =
                    mapped.iter().map(|c| c.iter().map(|(v, p)| rsdd::repr::Literal::new(VarLabel::new_usize(*v), *p)).collect()).collect();
                let cnf = rsdd::repr::Cnf::new(&lits);
                let mut t = mapped.iter().fold(Tt::TRUE, |acc, c| acc.and(c.iter().fold(Tt::FALSE, |a, (v, p)| a.or(Tt::lit(*v, *p)))));
                let mv: Vec<Option<bool>> = (0..self.n).map(|i| m.get(i).copied().flatten()).collect();
                for (v, x) in mv.iter().enumerate() {
                    if let Some(val) = x {
                        t = t.cofactor(v, *val);
                    }
                }
                (b.compile_cnf_with_assignments(&cnf, &PartialModel::from_assignments(&mv)), t, vec![])
            }
            BOp::Cnf(cl) => {
                let mapped: Vec<Vec<(usize, bool)>> = cl.iter().map(|c| c.iter().map(|(v, p)| (self.v(*v), *p)).collect()).collect();
                let lits: Vec<Vec<rsdd::repr::Literal>> =
                    mapped.iter().map(|c| c.iter().map(|(v, p)| rsdd::repr::Literal::new(VarLabel::new_usize(*v), *p)).collect()).collect();
                let cnf = rsdd::repr::Cnf::new(&lits);
                let t = mapped.iter().fold(Tt::TRUE, |acc, c| acc.and(c.iter().fold(Tt::FALSE, |a, (v, p)| a.or(Tt::lit(*v, *p)))));
                (b.compile_cnf(&cnf), t, vec![])
            }
            BOp::Lit(v, p) => {
                let v = self.v(*v);
                (b.var(VarLabel::new_usize(v), *p), Tt::lit(v, *p), vec![])
            }
            BOp::Const(c) => (
                if *c { b.true_ptr() } else { b.false_ptr() },
                Tt::constant(*c),
                vec![],
            ),
            BOp::Not(a) => {
                let a = self.at(*a);
                (b.negate(self.pool[a].0), self.pool[a].1.not(), vec![a])
            }
            BOp::And(x, y) => {
                let (x, y) = (self.at(*x), self.at(*y));
                (
                    b.and(self.pool[x].0, self.pool[y].0),
                    self.pool[x].1.and(self.pool[y].1),
                    vec![x, y],
                )
            }
            BOp::Or(x, y) => {
                let (x, y) = (self.at(*x), self.at(*y));
                (
                    b.or(self.pool[x].0, self.pool[y].0),
                    self.pool[x].1.or(self.pool[y].1),
                    vec![x, y],
                )
            }
            BOp::Xor(x, y) => {
                let (x, y) = (self.at(*x), self.at(*y));
                (
                    b.xor(self.pool[x].0, self.pool[y].0),
                    self.pool[x].1.xor(self.pool[y].1),
                    vec![x, y],
                )
            }
            BOp::Iff(x, y) => {
                let (x, y) = (self.at(*x), self.at(*y));
                (
                    b.iff(self.pool[x].0, self.pool[y].0),
                    self.pool[x].1.iff(self.pool[y].1),
                    vec![x, y],
                )
            }
            BOp::Ite(f, g, h) => {
                let (f, g, h) = (self.at(*f), self.at(*g), self.at(*h));
                (
                    b.ite(self.pool[f].0, self.pool[g].0, self.pool[h].0),
                    self.pool[f].1.ite(self.pool[g].1, self.pool[h].1),
                    vec![f, g, h],
                )
            }
            BOp::Cond(a, v, val) => {
                let a = self.at(*a);
                let v = self.v(*v);
                (
                    b.condition(self.pool[a].0, VarLabel::new_usize(v), *val),
                    self.pool[a].1.cofactor(v, *val),
                    vec![a],
                )
            }
            BOp::CondModel(a, m) => {
                let a = self.at(*a);
                let m: Vec<Option<bool>> = (0..self.n).map(|i| m.get(i).copied().flatten()).collect();
                let pm = PartialModel::from_assignments(&m);
                let mut t = self.pool[a].1;
                for (v, x) in m.iter().enumerate() {
                    if let Some(val) = x {
                        t = t.cofactor(v, *val);
                    }
                }
                (b.condition_model(self.pool[a].0, &pm), t, vec![a])
            }
            BOp::Exists(a, v) => {
                let a = self.at(*a);
                let v = self.v(*v);
                (
                    b.exists(self.pool[a].0, VarLabel::new_usize(v)),
                    self.pool[a].1.exists(v),
                    vec![a],
                )
            }
            BOp::Compose(f, v, g) => {
                let (f, g) = (self.at(*f), self.at(*g));
                let v = self.v(*v);
                (
                    b.compose(self.pool[f].0, VarLabel::new_usize(v), self.pool[g].0),
                    self.pool[f].1.compose(v, self.pool[g].1),
                    vec![f, g],
                )
            }
            BOp::AndLst(l) => {
                let idx: Vec<usize> = l.iter().map(|i| self.at(*i)).collect();
                let ptrs: Vec<BddPtr<'a>> = idx.iter().map(|i| self.pool[*i].0).collect();
                let t = idx.iter().fold(Tt::TRUE, |acc, i| acc.and(self.pool[*i].1));
                (b.and_lst(&ptrs), t, idx)
            }
            BOp::OrLst(l) => {
                let idx: Vec<usize> = l.iter().map(|i| self.at(*i)).collect();
                let ptrs: Vec<BddPtr<'a>> = idx.iter().map(|i| self.pool[*i].0).collect();
                let t = idx.iter().fold(Tt::FALSE, |acc, i| acc.or(self.pool[*i].1));
                (b.or_lst(&ptrs), t, idx)
            }
            BOp::NewVar(p) => {
                if self.n >= NV || self.new_vars >= self.max_new_vars {
                    return None;
                }
                let (lbl, ptr) = b.new_var(*p);
                let seq: Vec<usize> = b.order().in_order_iter().map(|x| x.value_usize()).collect();
                let mut sorted = seq.clone();
                sorted.sort_unstable();
                if lbl.value_usize() != self.n || sorted != (0..=self.n).collect::<Vec<_>>() {
                    // a variable added at run time must be a new one: the next unused label (VarOrder::new_last's
                    // doc test), with the order still listing every variable once. Where it sits in the order is
                    // not this property's concern (C14 checks the extension of the order).
                    self.label_fault = Some(format!(
                        "new_var on a builder with {} variables returned label {} and the order is now {:?} (expected the fresh label {} and an order listing 0..={} once each)",
                        self.n,
                        lbl.value(),
                        seq,
                        self.n,
                        self.n
                    ));
                }
                let v = lbl.value_usize();
                self.n += 1;
                self.new_vars += 1;
                (ptr, if v < NV { Tt::lit(v, *p) } else { Tt::FALSE }, vec![])
            }
        };
        self.pool.push((ptr, tt));
        Some(StepOut {
            idx: self.pool.len() - 1,
            kind: op.kind(),
            args,
        })
    }
}

pub fn is_literal_or_const(p: BddPtr) -> bool {
    match p {
        BddPtr::PtrTrue | BddPtr::PtrFalse => true,
        BddPtr::Reg(n) | BddPtr::Compl(n) => n.low.is_const() && n.high.is_const(),
    }
}

/// Instantiate a builder according to `cfg` and run `$go::<T>(&builder, ...)`.
/// `$go` must be a generic function `fn go<'a, T: IteTable<'a, BddPtr<'a>> + Default>(b: &'a RobddBuilder<'a, T>, ...)`.
#[macro_export]
macro_rules! with_bdd_builder {
    ($cfg:expr, $go:ident ( $($arg:expr),* )) => {{
        use rsdd::builder::bdd::RobddBuilder;
        use rsdd::builder::cache::{AllIteTable, LruIteTable};
        use rsdd::repr::BddPtr;
        let cfg: &$crate::bddi::BddCfg = $cfg;
        rsdd::verif_hooks::set_unique_table_capacity(cfg.table_cap.map(|c| c as usize));
        rsdd::verif_hooks::set_lru_ite_capacity(cfg.lru_exp());
        let order = cfg.var_order();
        if cfg.cache == 0 {
            let b = RobddBuilder::<AllIteTable<BddPtr>>::new(order);
            rsdd::verif_hooks::set_unique_table_capacity(None);
            rsdd::verif_hooks::set_lru_ite_capacity(None);
            $go(&b, $($arg),*)
        } else {
            let b = RobddBuilder::<LruIteTable<BddPtr>>::new(order);
            rsdd::verif_hooks::set_unique_table_capacity(None);
            rsdd::verif_hooks::set_lru_ite_capacity(None);
            $go(&b, $($arg),*)
        }
    }};
}

fn rename_plan(p: &crate::exprgen::Pl, n: usize) -> crate::exprgen::Pl {
    use crate::exprgen::Pl;
    let r = |x: &Pl| Box::new(rename_plan(x, n));
    match p {
        Pl::Lit(v, pol) => Pl::Lit((*v as usize % n) as u8, *pol),
        Pl::True => Pl::True,
        Pl::False => Pl::False,
        Pl::Not(a) => Pl::Not(r(a)),
        Pl::And(a, b) => Pl::And(r(a), r(b)),
        Pl::Or(a, b) => Pl::Or(r(a), r(b)),
        Pl::Iff(a, b) => Pl::Iff(r(a), r(b)),
        Pl::Ite(a, b, c) => Pl::Ite(r(a), r(b), r(c)),
    }
}
