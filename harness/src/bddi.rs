//! BDD operation histories: case types, proptest strategies, and an interpreter that
//! applies each operation to a real `RobddBuilder` and, in lock step, to the truth-table oracle.
use crate::engine::pick;
use crate::tt::{Tt, NV};
use proptest::prelude::*;
use rsdd::builder::bdd::{BddBuilder, RobddBuilder};
use rsdd::builder::cache::IteTable;
use rsdd::builder::BottomUpBuilder;
use rsdd::repr::{BddPtr, PartialModel, VarLabel, VarOrder};
use serde::{Deserialize, Serialize};

#[derive(Clone, Debug, Serialize, Deserialize, PartialEq)]
pub enum BOp {
    Lit(u8, bool),
    Const(bool),
    Not(u16),
    And(u16, u16),
    Or(u16, u16),
    Xor(u16, u16),
    Iff(u16, u16),
    Ite(u16, u16, u16),
    Cond(u16, u8, bool),
    CondModel(u16, Vec<Option<bool>>),
    Exists(u16, u8),
    Compose(u16, u8, u16),
    AndLst(Vec<u16>),
    OrLst(Vec<u16>),
    NewVar(bool),
    /// compile_cnf of a small clause list over the builder's current variables (raw variable bytes are scaled
    /// to the current variable count): a diagram that enters the builder by another route than ite
    Cnf(Vec<Vec<(u8, bool)>>),
    /// compile_logical_expr / compile_plan of a small expression over the current variables, and
    /// compile_cnf_with_assignments: further routes by which diagrams enter a builder (variable indices are taken
    /// modulo the current variable count)
    Expr(crate::exprgen::Ex),
    Plan(crate::exprgen::Pl),
    CnfAssign(Vec<Vec<(u8, bool)>>, Vec<Option<bool>>),
    /// the function with this truth table over the current variables, built by Shannon expansion with ite: diagrams
    /// of several dozen nodes (a random function of 8 variables has about 70), on which the later operations of the
    /// history then work
    Dense([u64; 4]),
    /// the operations that share operands with one another, all on the same (f, v, g) and in a scrambled order:
    /// condition(f, v, true / false), exists(f, v), compose(f, v, g), ite(f, x_v, g), ite(x_v, f, g), iff(f, x_v),
    /// xor(f, x_v), and(f, x_v), or(f, !x_v). Caches that key different operations alike, or one operation's
    /// result under another's key, show only when such siblings meet in one builder. All results but the last join
    /// the pool as well (and are re-read with it).
    Siblings(u16, u8, u16, u16),
}

impl BOp {
    pub fn kind(&self) -> &'static str {
        match self {
            BOp::Lit(..) => "lit",
            BOp::Const(..) => "const",
            BOp::Not(..) => "not",
            BOp::And(..) => "and",
            BOp::Or(..) => "or",
            BOp::Xor(..) => "xor",
            BOp::Iff(..) => "iff",
            BOp::Ite(..) => "ite",
            BOp::Cond(..) => "cond",
            BOp::CondModel(..) => "cond_model",
            BOp::Exists(..) => "exists",
            BOp::Compose(..) => "compose",
            BOp::AndLst(..) => "and_lst",
            BOp::OrLst(..) => "or_lst",
            BOp::NewVar(..) => "new_var",
            BOp::Cnf(..) => "compile_cnf",
            BOp::Dense(..) => "dense",
            BOp::Siblings(..) => "siblings",
            BOp::Expr(..) => "compile_logical_expr",
            BOp::Plan(..) => "compile_plan",
            BOp::CnfAssign(..) => "compile_cnf_with_assignments",
        }
    }
}

/// 0 = AllIteTable, 1 = LruIteTable (default capacity), 2+e = LruIteTable with hook capacity 2^e
#[derive(Clone, Debug, Serialize, Deserialize, PartialEq)]
pub struct BddCfg {
    pub n0: u8,
    pub order_keys: Vec<u16>,
    pub cache: u8,
    pub table_cap: Option<u16>,
    /// Some((total, seed)): the builder has `total` variables (up to 200) in a pseudo-random order, and the n0
    /// variables the history works with are scattered among them (labels from the seed), so that labels and levels
    /// cross 32 / 64 / 128 while the truth-table oracle still has at most 8 variables
    #[serde(default)]
    pub embed: Option<(u8, u64)>,
}

impl BddCfg {
    /// level -> label
    pub fn order(&self) -> Vec<usize> {
        match self.embed {
            Some((total, seed)) => crate::big::permutation(seed, (total as usize).max(self.n0 as usize)),
            None => perm_from_keys(&self.order_keys, self.n0 as usize),
        }
    }
    /// builder label of oracle variable i (i < n0)
    pub fn labels(&self) -> Vec<usize> {
        match self.embed {
            Some((total, seed)) => {
                let t = (total as usize).max(self.n0 as usize);
                let mut l = crate::big::permutation(seed ^ 0x5EED_1ABE, t);
                l.truncate(self.n0 as usize);
                l
            }
            None => (0..self.n0 as usize).collect(),
        }
    }
    pub fn var_order(&self) -> VarOrder {
        let o: Vec<VarLabel> = self.order().into_iter().map(VarLabel::new_usize).collect();
        VarOrder::new(&o)
    }
    pub fn is_linear(&self) -> bool {
        self.order().iter().enumerate().all(|(i, v)| i == *v)
    }
    pub fn lru_exp(&self) -> Option<usize> {
        if self.cache >= 2 {
            Some((self.cache - 2) as usize)
        } else {
            None
        }
    }
}

/// stable argsort of the first n keys: a permutation of 0..n that shrinks towards the identity
pub fn perm_from_keys(keys: &[u16], n: usize) -> Vec<usize> {
    let mut idx: Vec<usize> = (0..n).collect();
    idx.sort_by_key(|&i| keys.get(i).copied().unwrap_or(0));
    idx
}

pub fn idx_strategy() -> impl Strategy<Value = u16> {
    prop_oneof![
        3 => any::<u16>(),
        2 => 0xB000u16..=0xFFFF,
    ]
}

pub fn order_keys_strategy() -> impl Strategy<Value = Vec<u16>> {
    prop_oneof![
        2 => Just(vec![0u16; NV]),
        1 => Just((0..NV as u16).rev().collect::<Vec<u16>>()),
        7 => proptest::collection::vec(any::<u16>(), NV),
    ]
}

/// operand lists for and_lst / or_lst: mostly short, sometimes long, and often of a length next to a power of two or
/// a multiple of 16 (block-wise implementations have their boundaries there)
pub fn lst_strategy() -> impl Strategy<Value = Vec<u16>> {
    prop_oneof![
        6 => proptest::collection::vec(idx_strategy(), 0..5),
        2 => proptest::collection::vec(idx_strategy(), 5..13),
        1 => proptest::collection::vec(idx_strategy(), 13..80),
        1 => prop_oneof![Just(15usize), Just(16), Just(17), Just(31), Just(32), Just(33), Just(47), Just(48), Just(49), Just(63), Just(64), Just(65)]
            .prop_flat_map(|n| proptest::collection::vec(idx_strategy(), n)),
    ]
}

pub fn bop_strategy() -> impl Strategy<Value = BOp> {
    prop_oneof![
        4 => (any::<u8>(), any::<bool>()).prop_map(|(v, p)| BOp::Lit(v, p)),
        1 => any::<bool>().prop_map(BOp::Const),
        2 => idx_strategy().prop_map(BOp::Not),
        6 => (idx_strategy(), idx_strategy()).prop_map(|(a, b)| BOp::And(a, b)),
        5 => (idx_strategy(), idx_strategy()).prop_map(|(a, b)| BOp::Or(a, b)),
        3 => (idx_strategy(), idx_strategy()).prop_map(|(a, b)| BOp::Xor(a, b)),
        3 => (idx_strategy(), idx_strategy()).prop_map(|(a, b)| BOp::Iff(a, b)),
        5 => (idx_strategy(), idx_strategy(), idx_strategy()).prop_map(|(a, b, c)| BOp::Ite(a, b, c)),
        3 => (idx_strategy(), any::<u8>(), any::<bool>()).prop_map(|(a, v, b)| BOp::Cond(a, v, b)),
        2 => (idx_strategy(), proptest::collection::vec(proptest::option::weighted(0.4, any::<bool>()), NV))
            .prop_map(|(a, m)| BOp::CondModel(a, m)),
        3 => (idx_strategy(), any::<u8>()).prop_map(|(a, v)| BOp::Exists(a, v)),
        3 => (idx_strategy(), any::<u8>(), idx_strategy()).prop_map(|(a, v, g)| BOp::Compose(a, v, g)),
        1 => lst_strategy().prop_map(BOp::AndLst),
        1 => lst_strategy().prop_map(BOp::OrLst),
        1 => any::<bool>().prop_map(BOp::NewVar),
        1 => proptest::collection::vec(proptest::collection::vec((any::<u8>(), any::<bool>()), 1..=3), 1..=4).prop_map(BOp::Cnf),
        1 => crate::exprgen::ex_strategy(8, 3).prop_map(BOp::Expr),
        1 => crate::exprgen::pl_strategy(8, 3).prop_map(BOp::Plan),
        1 => (
            proptest::collection::vec(proptest::collection::vec((any::<u8>(), any::<bool>()), 1..=3), 1..=4),
            proptest::collection::vec(proptest::option::weighted(0.3, any::<bool>()), NV),
        )
            .prop_map(|(c, m)| BOp::CnfAssign(c, m)),
        1 => any::<[u64; 4]>().prop_map(BOp::Dense),
        2 => (idx_strategy(), any::<u8>(), idx_strategy(), any::<u16>()).prop_map(|(f, v, g, s)| BOp::Siblings(f, v, g, s)),
    ]
}

pub fn cfg_strategy(max_n0: u8) -> impl Strategy<Value = BddCfg> {
    (
        1u8..=max_n0,
        order_keys_strategy(),
        prop_oneof![3 => Just(0u8), 2 => Just(1u8), 5 => 2u8..=6],
        prop_oneof![2 => Just(None), 8 => (1u16..=64).prop_map(Some)],
    )
        .prop_map(|(n0, order_keys, cache, table_cap)| BddCfg {
            n0,
            order_keys,
            cache,
            table_cap,
            embed: None,
        })
}

/// histories; three in ten start from one or two dense random functions (several dozen nodes each), so that the
/// operations that follow work on diagrams of some size, not only on the few-node diagrams that random apply
/// sequences over literals reach
pub fn ops_strategy(max_len: usize) -> impl Strategy<Value = Vec<BOp>> {
    (
        proptest::collection::vec(bop_strategy(), 0..=max_len),
        prop_oneof![7 => Just(0u8), 2 => Just(1u8), 1 => Just(2u8)],
        any::<[u64; 4]>(),
        any::<[u64; 4]>(),
        any::<u16>(),
    )
        .prop_map(move |(mut ops, dense, b1, b2, at)| {
            if dense >= 1 {
                ops.insert(0, BOp::Dense(b1));
            }
            if dense >= 2 {
                let p = 1 + pick(at, ops.len());
                ops.insert(p.min(ops.len()), BOp::Dense(b2));
            }
            ops.truncate(max_len.max(1));
            ops
        })
}

/// information about one applied operation
pub struct StepOut {
    pub idx: usize,
    pub kind: &'static str,
    pub args: Vec<usize>,
}

pub struct BddRun<'a, T: IteTable<'a, BddPtr<'a>> + Default> {
    pub b: &'a RobddBuilder<'a, T>,
    /// (diagram, expected truth table, produced-by-op?)
    pub pool: Vec<(BddPtr<'a>, Tt)>,
    pub n: usize,
    pub new_vars: usize,
    pub max_new_vars: usize,
    /// builder label of oracle variable i (identity unless the configuration embeds the history in a larger builder)
    pub labels: Vec<usize>,
    /// set when a variable added at run time did not get a fresh label at the end of the order
    pub label_fault: Option<String>,
    /// set when a result of a Siblings operation (other than the one that joins the pool) does not denote its oracle
    /// function: (operation, detail). Function correctness belongs to C01; other checks ignore it.
    pub sibling_fault: Option<(String, String)>,
    /// all results of the last Siblings operation, in the order they were computed (the last one joined the pool)
    pub last_siblings: Vec<(&'static str, BddPtr<'a>, Tt)>,
    /// when set, a Siblings operation computes only the k-th operation of its list (a cold computation of that result)
    pub siblings_only: Option<usize>,
}

impl<'a, T: IteTable<'a, BddPtr<'a>> + Default> BddRun<'a, T> {
    pub fn new(b: &'a RobddBuilder<'a, T>, n0: usize) -> Self {
        Self::new_embedded(b, (0..n0).collect())
    }

    /// `labels[i]` is the builder label that plays oracle variable i; the walker's label map is set accordingly
    /// (and cleared for the identity embedding)
    pub fn new_embedded(b: &'a RobddBuilder<'a, T>, labels: Vec<usize>) -> Self {
        let n0 = labels.len();
        let identity = labels.iter().enumerate().all(|(i, l)| i == *l) && b.num_vars() == n0;
        if identity {
            crate::walk::set_label_map(None);
        } else {
            let mut m: Vec<Option<usize>> = vec![None; b.num_vars().max(labels.iter().copied().max().map(|x| x + 1).unwrap_or(0))];
            for (i, l) in labels.iter().enumerate() {
                m[*l] = Some(i);
            }
            crate::walk::set_label_map(Some(m));
        }
        let mut pool = vec![(BddPtr::PtrTrue, Tt::TRUE), (BddPtr::PtrFalse, Tt::FALSE)];
        for (v, l) in labels.iter().enumerate() {
            pool.push((b.var(VarLabel::new_usize(*l), true), Tt::var(v)));
        }
        BddRun {
            b,
            pool,
            n: n0,
            new_vars: 0,
            max_new_vars: NV,
            labels,
            label_fault: None,
            sibling_fault: None,
            last_siblings: Vec::new(),
            siblings_only: None,
        }
    }

    /// builder label of oracle variable v
    fn lbl(&self, v: usize) -> VarLabel {
        VarLabel::new_usize(self.labels[v])
    }

    /// a partial model over ALL builder variables: oracle variable i gets m[i]; in an embedded history the other
    /// builder variables (which no operand mentions) get values too, from the raw op data, and must not matter
    fn partial_model(&self, m: &[Option<bool>], raw: &[Option<bool>]) -> PartialModel {
        let total = self.b.num_vars();
        let mut all: Vec<Option<bool>> = vec![None; total];
        if total > self.n {
            for (l, slot) in all.iter_mut().enumerate() {
                *slot = raw.get((l * 7 + 3) % raw.len().max(1)).copied().flatten();
            }
        }
        for (i, l) in self.labels.iter().enumerate() {
            all[*l] = m.get(i).copied().flatten();
        }
        PartialModel::from_assignments(&all)
    }

    fn at(&self, i: u16) -> usize {
        pick(i, self.pool.len())
    }

    fn v(&self, raw: u8) -> usize {
        ((raw as usize) * self.n) >> 8
    }

    /// apply one operation; `None` when the op is not applicable in the current state (counted by caller)
    pub fn step(&mut self, op: &BOp) -> Option<StepOut> {
        let b = self.b;
        let (ptr, tt, args): (BddPtr<'a>, Tt, Vec<usize>) = match op {
            BOp::Lit(..) | BOp::Cond(..) | BOp::Exists(..) | BOp::Compose(..) | BOp::Siblings(..) | BOp::Cnf(..) | BOp::Expr(..) | BOp::Plan(..) | BOp::CnfAssign(..) if self.n == 0 => return None,
            BOp::Expr(e) => {
                let n = self.n;
                let e2 = crate::textgen::rename(e, &|v| v % n);
                let labels = self.labels.clone();
                let e3 = crate::textgen::rename(&e2, &|v| labels[v]);
                (b.compile_logical_expr(&e3.to_logical()), e2.tt(), vec![])
            }
            BOp::Plan(pl) => {
                let pl2 = rename_plan(pl, self.n);
                let pl3 = relabel_plan(&pl2, &self.labels);
                (b.compile_plan(&pl3.to_plan()), pl2.tt(), vec![])
            }
            BOp::CnfAssign(cl, m) => {
                let mapped: Vec<Vec<(usize, bool)>> = cl.iter().map(|c| c.iter().map(|(v, p)| (self.v(*v), *p)).collect()).collect();
                let lits: Vec<Vec<rsdd::repr::Literal>> =
                    mapped.iter().map(|c| c.iter().map(|(v, p)| rsdd::repr::Literal::new(self.lbl(*v), *p)).collect()).collect();
                let cnf = rsdd::repr::Cnf::new(&lits);
                let mut t = mapped.iter().fold(Tt::TRUE, |acc, c| acc.and(c.iter().fold(Tt::FALSE, |a, (v, p)| a.or(Tt::lit(*v, *p)))));
                let mv: Vec<Option<bool>> = (0..self.n).map(|i| m.get(i).copied().flatten()).collect();
                for (v, x) in mv.iter().enumerate() {
                    if let Some(val) = x {
                        t = t.cofactor(v, *val);
                    }
                }
                (b.compile_cnf_with_assignments(&cnf, &self.partial_model(&mv, m)), t, vec![])
            }
            BOp::Dense(bits) => {
                let mut t = Tt(*bits);
                for v in self.n..crate::tt::NV {
                    t = t.cofactor(v, false);
                }
                let labels: Vec<usize> = self.labels[..self.n].to_vec();
                (crate::semi::bdd_from_tt_labels(b, t, &labels), t, vec![])
            }
            BOp::Cnf(cl) => {
                let mapped: Vec<Vec<(usize, bool)>> = cl.iter().map(|c| c.iter().map(|(v, p)| (self.v(*v), *p)).collect()).collect();
                let lits: Vec<Vec<rsdd::repr::Literal>> =
                    mapped.iter().map(|c| c.iter().map(|(v, p)| rsdd::repr::Literal::new(self.lbl(*v), *p)).collect()).collect();
                let cnf = rsdd::repr::Cnf::new(&lits);
                let t = mapped.iter().fold(Tt::TRUE, |acc, c| acc.and(c.iter().fold(Tt::FALSE, |a, (v, p)| a.or(Tt::lit(*v, *p)))));
                (b.compile_cnf(&cnf), t, vec![])
            }
            BOp::Lit(v, p) => {
                let v = self.v(*v);
                (b.var(self.lbl(v), *p), Tt::lit(v, *p), vec![])
            }
            BOp::Const(c) => (
                if *c { b.true_ptr() } else { b.false_ptr() },
                Tt::constant(*c),
                vec![],
            ),
            BOp::Not(a) => {
                let a = self.at(*a);
                (b.negate(self.pool[a].0), self.pool[a].1.not(), vec![a])
            }
            BOp::And(x, y) => {
                let (x, y) = (self.at(*x), self.at(*y));
                (
                    b.and(self.pool[x].0, self.pool[y].0),
                    self.pool[x].1.and(self.pool[y].1),
                    vec![x, y],
                )
            }
            BOp::Or(x, y) => {
                let (x, y) = (self.at(*x), self.at(*y));
                (
                    b.or(self.pool[x].0, self.pool[y].0),
                    self.pool[x].1.or(self.pool[y].1),
                    vec![x, y],
                )
            }
            BOp::Xor(x, y) => {
                let (x, y) = (self.at(*x), self.at(*y));
                (
                    b.xor(self.pool[x].0, self.pool[y].0),
                    self.pool[x].1.xor(self.pool[y].1),
                    vec![x, y],
                )
            }
            BOp::Iff(x, y) => {
                let (x, y) = (self.at(*x), self.at(*y));
                (
                    b.iff(self.pool[x].0, self.pool[y].0),
                    self.pool[x].1.iff(self.pool[y].1),
                    vec![x, y],
                )
            }
            BOp::Ite(f, g, h) => {
                let (f, g, h) = (self.at(*f), self.at(*g), self.at(*h));
                (
                    b.ite(self.pool[f].0, self.pool[g].0, self.pool[h].0),
                    self.pool[f].1.ite(self.pool[g].1, self.pool[h].1),
                    vec![f, g, h],
                )
            }
            BOp::Cond(a, v, val) => {
                let a = self.at(*a);
                let v = self.v(*v);
                (
                    b.condition(self.pool[a].0, self.lbl(v), *val),
                    self.pool[a].1.cofactor(v, *val),
                    vec![a],
                )
            }
            BOp::CondModel(a, m) => {
                let a = self.at(*a);
                let raw = m;
                let m: Vec<Option<bool>> = (0..self.n).map(|i| m.get(i).copied().flatten()).collect();
                let pm = self.partial_model(&m, raw);
                let mut t = self.pool[a].1;
                for (v, x) in m.iter().enumerate() {
                    if let Some(val) = x {
                        t = t.cofactor(v, *val);
                    }
                }
                (b.condition_model(self.pool[a].0, &pm), t, vec![a])
            }
            BOp::Exists(a, v) => {
                let a = self.at(*a);
                let v = self.v(*v);
                (
                    b.exists(self.pool[a].0, self.lbl(v)),
                    self.pool[a].1.exists(v),
                    vec![a],
                )
            }
            BOp::Siblings(f, v, g, seed) => {
                let (f, g) = (self.at(*f), self.at(*g));
                let v = self.v(*v);
                let (pf, tf) = self.pool[f];
                let (pg, tg) = self.pool[g];
                let l = self.lbl(v);
                let x = b.var(l, true);
                let tx = Tt::var(v);
                let mut order: Vec<usize> = (0..10).collect();
                order.sort_by_key(|k| crate::engine::splitmix((*seed as u64) << 8 | *k as u64));
                let list: Vec<usize> = order.into_iter().take(4 + (*seed as usize % 7)).collect();
                let list: Vec<usize> = match self.siblings_only {
                    Some(j) => vec![list[j.min(list.len() - 1)]],
                    None => list,
                };
                let mut out: Vec<(&'static str, BddPtr<'a>, Tt)> = Vec::new();
                for k in list {
                    out.push(match k {
                        0 => ("condition(f, v, true)", b.condition(pf, l, true), tf.cofactor(v, true)),
                        1 => ("condition(f, v, false)", b.condition(pf, l, false), tf.cofactor(v, false)),
                        2 => ("exists(f, v)", b.exists(pf, l), tf.exists(v)),
                        3 => ("compose(f, v, g)", b.compose(pf, l, pg), tf.compose(v, tg)),
                        4 => ("ite(f, x_v, g)", b.ite(pf, x, pg), tf.ite(tx, tg)),
                        5 => ("ite(x_v, f, g)", b.ite(x, pf, pg), tx.ite(tf, tg)),
                        6 => ("iff(f, x_v)", b.iff(pf, x), tf.iff(tx)),
                        7 => ("xor(f, x_v)", b.xor(pf, x), tf.xor(tx)),
                        8 => ("and(f, x_v)", b.and(pf, x), tf.and(tx)),
                        _ => ("or(f, !x_v)", b.or(pf, b.negate(x)), tf.or(tx.not())),
                    });
                }
                for (i, (what, p, t)) in out.iter().enumerate() {
                    let got = crate::walk::bdd_tt(*p);
                    if got != *t && self.sibling_fault.is_none() {
                        self.sibling_fault = Some((
                            what.to_string(),
                            format!("{} as call {} of {:?} on one (f, v, g) = (entry {}, variable {}, entry {}) denotes {:?}, expected {:?}", what, i + 1, out.iter().map(|x| x.0).collect::<Vec<_>>(), f, v, g, got, t),
                        ));
                    }
                }
                let last = *out.last().unwrap();
                self.last_siblings = out;
                (last.1, last.2, vec![f, g])
            }
            BOp::Compose(f, v, g) => {
                let (f, g) = (self.at(*f), self.at(*g));
                let v = self.v(*v);
                (
                    b.compose(self.pool[f].0, self.lbl(v), self.pool[g].0),
                    self.pool[f].1.compose(v, self.pool[g].1),
                    vec![f, g],
                )
            }
            BOp::AndLst(l) => {
                let idx: Vec<usize> = l.iter().map(|i| self.at(*i)).collect();
                let ptrs: Vec<BddPtr<'a>> = idx.iter().map(|i| self.pool[*i].0).collect();
                let t = idx.iter().fold(Tt::TRUE, |acc, i| acc.and(self.pool[*i].1));
                (b.and_lst(&ptrs), t, idx)
            }
            BOp::OrLst(l) => {
                let idx: Vec<usize> = l.iter().map(|i| self.at(*i)).collect();
                let ptrs: Vec<BddPtr<'a>> = idx.iter().map(|i| self.pool[*i].0).collect();
                let t = idx.iter().fold(Tt::FALSE, |acc, i| acc.or(self.pool[*i].1));
                (b.or_lst(&ptrs), t, idx)
            }
            BOp::NewVar(p) => {
                if self.n >= NV || self.new_vars >= self.max_new_vars {
                    return None;
                }
                let before = b.num_vars();
                let (lbl, ptr) = b.new_var(*p);
                let seq: Vec<usize> = b.order().in_order_iter().map(|x| x.value_usize()).collect();
                let mut sorted = seq.clone();
                sorted.sort_unstable();
                if lbl.value_usize() != before || sorted != (0..=before).collect::<Vec<_>>() {
                    // a variable added at run time must be a new one: the next unused label (VarOrder::new_last's
                    // doc test), with the order still listing every variable once. Where it sits in the order is
                    // not this property's concern (C14 checks the extension of the order).
                    self.label_fault = Some(format!(
                        "new_var on a builder with {} variables returned label {} and the order is now {:?} (expected the fresh label {} and an order listing 0..={} once each)",
                        before,
                        lbl.value(),
                        seq,
                        before,
                        before
                    ));
                }
                // the new builder variable plays the next oracle variable
                let v = self.n;
                self.labels.push(lbl.value_usize());
                crate::walk::extend_label_map(lbl.value_usize(), v);
                self.n += 1;
                self.new_vars += 1;
                (ptr, Tt::lit(v, *p), vec![])
            }
        };
        self.pool.push((ptr, tt));
        Some(StepOut {
            idx: self.pool.len() - 1,
            kind: op.kind(),
            args,
        })
    }
}

pub fn is_literal_or_const(p: BddPtr) -> bool {
    match p {
        BddPtr::PtrTrue | BddPtr::PtrFalse => true,
        BddPtr::Reg(n) | BddPtr::Compl(n) => n.low.is_const() && n.high.is_const(),
    }
}

/// Instantiate a builder according to `cfg` and run `$go::<T>(&builder, ...)`.
/// `$go` must be a generic function `fn go<'a, T: IteTable<'a, BddPtr<'a>> + Default>(b: &'a RobddBuilder<'a, T>, ...)`.
#[macro_export]
macro_rules! with_bdd_builder {
    ($cfg:expr, $go:ident ( $($arg:expr),* )) => {{
        use rsdd::builder::bdd::RobddBuilder;
        use rsdd::builder::cache::{AllIteTable, LruIteTable};
        use rsdd::repr::BddPtr;
        let cfg: &$crate::bddi::BddCfg = $cfg;
        rsdd::verif_hooks::set_unique_table_capacity(cfg.table_cap.map(|c| c as usize));
        rsdd::verif_hooks::set_lru_ite_capacity(cfg.lru_exp());
        let order = cfg.var_order();
        if cfg.cache == 0 {
            let b = RobddBuilder::<AllIteTable<BddPtr>>::new(order);
            rsdd::verif_hooks::set_unique_table_capacity(None);
            rsdd::verif_hooks::set_lru_ite_capacity(None);
            $go(&b, $($arg),*)
        } else {
            let b = RobddBuilder::<LruIteTable<BddPtr>>::new(order);
            rsdd::verif_hooks::set_unique_table_capacity(None);
            rsdd::verif_hooks::set_lru_ite_capacity(None);
            $go(&b, $($arg),*)
        }
    }};
}

fn rename_plan(p: &crate::exprgen::Pl, n: usize) -> crate::exprgen::Pl {
    use crate::exprgen::Pl;
    let r = |x: &Pl| Box::new(rename_plan(x, n));
    match p {
        Pl::Lit(v, pol) => Pl::Lit((*v as usize % n) as u8, *pol),
        Pl::True => Pl::True,
        Pl::False => Pl::False,
        Pl::Not(a) => Pl::Not(r(a)),
        Pl::And(a, b) => Pl::And(r(a), r(b)),
        Pl::Or(a, b) => Pl::Or(r(a), r(b)),
        Pl::Iff(a, b) => Pl::Iff(r(a), r(b)),
        Pl::Ite(a, b, c) => Pl::Ite(r(a), r(b), r(c)),
    }
}

fn relabel_plan(p: &crate::exprgen::Pl, labels: &[usize]) -> crate::exprgen::Pl {
    use crate::exprgen::Pl;
    let r = |x: &Pl| Box::new(relabel_plan(x, labels));
    match p {
        Pl::Lit(v, pol) => Pl::Lit(labels[*v as usize] as u8, *pol),
        Pl::True => Pl::True,
        Pl::False => Pl::False,
        Pl::Not(a) => Pl::Not(r(a)),
        Pl::And(a, b) => Pl::And(r(a), r(b)),
        Pl::Or(a, b) => Pl::Or(r(a), r(b)),
        Pl::Iff(a, b) => Pl::Iff(r(a), r(b)),
        Pl::Ite(a, b, c) => Pl::Ite(r(a), r(b), r(c)),
    }
}
