//! Truth tables over a fixed universe of NV = 8 Boolean variables.
//!
//! Independent oracle: nothing in here touches rsdd. Bit `a` of the table is
//! the value of the function on the assignment in which variable `i` has the
//! value `(a >> i) & 1`. Functions that do not mention the higher variables
//! simply do not depend on them, so one universe serves builders with any
//! number of variables <= 8 (and variables added at run time).
use serde::{Deserialize, Serialize};

pub const NV: usize = 8;
pub const NBITS: usize = 1 << NV;

#[derive(Clone, Copy, PartialEq, Eq, Hash, PartialOrd, Ord, Serialize, Deserialize)]
pub struct Tt(pub [u64; 4]);

const VAR_MASKS: [u64; 6] = [
    0xAAAA_AAAA_AAAA_AAAA,
    0xCCCC_CCCC_CCCC_CCCC,
    0xF0F0_F0F0_F0F0_F0F0,
    0xFF00_FF00_FF00_FF00,
    0xFFFF_0000_FFFF_0000,
    0xFFFF_FFFF_0000_0000,
];

impl std::fmt::Debug for Tt {
    fn fmt(&self, f: &mut std::fmt::Formatter<'_>) -> std::fmt::Result {
        write!(
            f,
            "Tt({:016x}{:016x}{:016x}{:016x})",
            self.0[3], self.0[2], self.0[1], self.0[0]
        )
    }
}

impl Tt {
    pub const FALSE: Tt = Tt([0; 4]);
    pub const TRUE: Tt = Tt([u64::MAX; 4]);

    pub fn constant(b: bool) -> Tt {
        if b {
            Tt::TRUE
        } else {
            Tt::FALSE
        }
    }

    pub fn var(i: usize) -> Tt {
        assert!(i < NV);
        if i < 6 {
            Tt([VAR_MASKS[i]; 4])
        } else {
            let mut w = [0u64; 4];
            for (k, x) in w.iter_mut().enumerate() {
                if (k >> (i - 6)) & 1 == 1 {
                    *x = u64::MAX;
                }
            }
            Tt(w)
        }
    }

    pub fn lit(i: usize, pol: bool) -> Tt {
        if pol {
            Tt::var(i)
        } else {
            Tt::var(i).not()
        }
    }

    pub fn not(self) -> Tt {
        Tt([!self.0[0], !self.0[1], !self.0[2], !self.0[3]])
    }
    pub fn and(self, o: Tt) -> Tt {
        Tt([
            self.0[0] & o.0[0],
            self.0[1] & o.0[1],
            self.0[2] & o.0[2],
            self.0[3] & o.0[3],
        ])
    }
    pub fn or(self, o: Tt) -> Tt {
        Tt([
            self.0[0] | o.0[0],
            self.0[1] | o.0[1],
            self.0[2] | o.0[2],
            self.0[3] | o.0[3],
        ])
    }
    pub fn xor(self, o: Tt) -> Tt {
        Tt([
            self.0[0] ^ o.0[0],
            self.0[1] ^ o.0[1],
            self.0[2] ^ o.0[2],
            self.0[3] ^ o.0[3],
        ])
    }
    pub fn iff(self, o: Tt) -> Tt {
        self.xor(o).not()
    }
    pub fn ite(self, g: Tt, h: Tt) -> Tt {
        self.and(g).or(self.not().and(h))
    }
    pub fn is_false(self) -> bool {
        self == Tt::FALSE
    }
    pub fn is_true(self) -> bool {
        self == Tt::TRUE
    }
    pub fn is_const(self) -> bool {
        self.is_false() || self.is_true()
    }

    pub fn get(self, a: usize) -> bool {
        (self.0[a >> 6] >> (a & 63)) & 1 == 1
    }

    pub fn set(&mut self, a: usize, b: bool) {
        if b {
            self.0[a >> 6] |= 1u64 << (a & 63);
        } else {
            self.0[a >> 6] &= !(1u64 << (a & 63));
        }
    }

    /// f restricted to v = b (still a function over all NV variables, no longer depending on v)
    pub fn cofactor(self, v: usize, b: bool) -> Tt {
        let m = Tt::var(v);
        // keep the half where v = b, and copy it onto the other half
        if v < 6 {
            let sh = 1u32 << v;
            let mut w = [0u64; 4];
            for k in 0..4 {
                let x = self.0[k];
                if b {
                    let hi = x & m.0[k];
                    w[k] = hi | (hi >> sh);
                } else {
                    let lo = x & !m.0[k];
                    w[k] = lo | (lo << sh);
                }
            }
            Tt(w)
        } else {
            let step = 1usize << (v - 6);
            let mut w = [0u64; 4];
            for k in 0..4 {
                let src = if b { k | step } else { k & !step };
                w[k] = self.0[src];
            }
            Tt(w)
        }
    }

    pub fn exists(self, v: usize) -> Tt {
        self.cofactor(v, false).or(self.cofactor(v, true))
    }

    pub fn forall(self, v: usize) -> Tt {
        self.cofactor(v, false).and(self.cofactor(v, true))
    }

    pub fn depends(self, v: usize) -> bool {
        self.cofactor(v, false) != self.cofactor(v, true)
    }

    pub fn support(self) -> Vec<usize> {
        (0..NV).filter(|&v| self.depends(v)).collect()
    }

    pub fn support_size(self) -> usize {
        (0..NV).filter(|&v| self.depends(v)).count()
    }

    /// number of satisfying assignments over all NV variables
    pub fn count_all(self) -> u64 {
        self.0.iter().map(|w| w.count_ones() as u64).sum()
    }

    /// number of satisfying assignments over the first n variables; the function must not
    /// depend on variables >= n
    pub fn count_n(self, n: usize) -> u64 {
        debug_assert!((n..NV).all(|v| !self.depends(v)));
        self.count_all() >> (NV - n)
    }

    /// compose as documented on the BottomUpBuilder trait: exists v. ((v <=> g) /\ f)
    pub fn compose(self, v: usize, g: Tt) -> Tt {
        Tt::var(v).iff(g).and(self).exists(v)
    }

    /// iterate over the assignments (as integers over the first n variables) that satisfy self
    pub fn models_n(self, n: usize) -> impl Iterator<Item = usize> {
        (0..(1usize << n)).filter(move |&a| self.get(a))
    }

    pub fn hex(self) -> String {
        format!("{:?}", self)
    }

    /// function depends only on variables < n
    pub fn within(self, n: usize) -> bool {
        (n..NV).all(|v| !self.depends(v))
    }
}

#[cfg(test)]
mod tests {
    use super::*;

    fn brute_var(i: usize) -> Tt {
        let mut t = Tt::FALSE;
        for a in 0..NBITS {
            t.set(a, (a >> i) & 1 == 1);
        }
        t
    }

    #[test]
    fn var_masks() {
        for i in 0..NV {
            assert_eq!(Tt::var(i), brute_var(i), "var {i}");
        }
    }

    #[test]
    fn cofactor_brute() {
        // pseudo-random tables from a fixed LCG
        let mut s = 0x1234_5678_9abc_def0u64;
        let mut next = || {
            s = s.wrapping_mul(6364136223846793005).wrapping_add(1442695040888963407);
            s
        };
        for _ in 0..200 {
            let t = Tt([next(), next(), next(), next()]);
            for v in 0..NV {
                for b in [false, true] {
                    let c = t.cofactor(v, b);
                    for a in 0..NBITS {
                        let a2 = if b { a | (1 << v) } else { a & !(1 << v) };
                        assert_eq!(c.get(a), t.get(a2));
                    }
                    assert!(!c.depends(v));
                }
            }
        }
    }

    #[test]
    fn counts() {
        assert_eq!(Tt::var(0).count_n(1), 1);
        assert_eq!(Tt::var(0).or(Tt::var(1)).count_n(2), 3);
        assert_eq!(Tt::TRUE.count_n(0), 1);
        assert_eq!(Tt::FALSE.count_n(5), 0);
    }
}
