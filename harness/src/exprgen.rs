//! Logical-expression and plan case types, strategies, evaluators and converters.
use crate::tt::Tt;
use proptest::prelude::*;
use rsdd::plan::BottomUpPlan;
use rsdd::repr::{LogicalExpr, VarLabel};
use serde::{Deserialize, Serialize};

#[derive(Clone, Debug, Serialize, Deserialize, PartialEq)]
pub enum Ex {
    Lit(u8, bool),
    Not(Box<Ex>),
    And(Box<Ex>, Box<Ex>),
    Or(Box<Ex>, Box<Ex>),
    Iff(Box<Ex>, Box<Ex>),
    Xor(Box<Ex>, Box<Ex>),
    Ite(Box<Ex>, Box<Ex>, Box<Ex>),
}

impl Ex {
    pub fn tt(&self) -> Tt {
        match self {
            Ex::Lit(v, p) => Tt::lit(*v as usize, *p),
            Ex::Not(a) => a.tt().not(),
            Ex::And(a, b) => a.tt().and(b.tt()),
            Ex::Or(a, b) => a.tt().or(b.tt()),
            Ex::Iff(a, b) => a.tt().iff(b.tt()),
            Ex::Xor(a, b) => a.tt().xor(b.tt()),
            Ex::Ite(g, t, e) => g.tt().ite(t.tt(), e.tt()),
        }
    }
    pub fn to_logical(&self) -> LogicalExpr {
        match self {
            Ex::Lit(v, p) => LogicalExpr::Literal(*v as usize, *p),
            Ex::Not(a) => LogicalExpr::Not(Box::new(a.to_logical())),
            Ex::And(a, b) => LogicalExpr::And(Box::new(a.to_logical()), Box::new(b.to_logical())),
            Ex::Or(a, b) => LogicalExpr::Or(Box::new(a.to_logical()), Box::new(b.to_logical())),
            Ex::Iff(a, b) => LogicalExpr::Iff(Box::new(a.to_logical()), Box::new(b.to_logical())),
            Ex::Xor(a, b) => LogicalExpr::Xor(Box::new(a.to_logical()), Box::new(b.to_logical())),
            Ex::Ite(g, t, e) => LogicalExpr::Ite {
                guard: Box::new(g.to_logical()),
                thn: Box::new(t.to_logical()),
                els: Box::new(e.to_logical()),
            },
        }
    }
    pub fn max_var(&self) -> usize {
        match self {
            Ex::Lit(v, _) => *v as usize,
            Ex::Not(a) => a.max_var(),
            Ex::And(a, b) | Ex::Or(a, b) | Ex::Iff(a, b) | Ex::Xor(a, b) => a.max_var().max(b.max_var()),
            Ex::Ite(a, b, c) => a.max_var().max(b.max_var()).max(c.max_var()),
        }
    }
    pub fn vars(&self, out: &mut std::collections::BTreeSet<usize>) {
        match self {
            Ex::Lit(v, _) => {
                out.insert(*v as usize);
            }
            Ex::Not(a) => a.vars(out),
            Ex::And(a, b) | Ex::Or(a, b) | Ex::Iff(a, b) | Ex::Xor(a, b) => {
                a.vars(out);
                b.vars(out);
            }
            Ex::Ite(a, b, c) => {
                a.vars(out);
                b.vars(out);
                c.vars(out);
            }
        }
    }
    pub fn connectives(&self) -> usize {
        match self {
            Ex::Lit(..) => 0,
            Ex::Not(a) => 1 + a.connectives(),
            Ex::And(a, b) | Ex::Or(a, b) | Ex::Iff(a, b) | Ex::Xor(a, b) => 1 + a.connectives() + b.connectives(),
            Ex::Ite(a, b, c) => 1 + a.connectives() + b.connectives() + c.connectives(),
        }
    }
}

pub fn ex_strategy(nv: u8, depth: u32) -> BoxedStrategy<Ex> {
    let leaf = (0..nv, any::<bool>()).prop_map(|(v, p)| Ex::Lit(v, p));
    leaf.prop_recursive(depth, 48, 3, |inner| {
        prop_oneof![
            2 => inner.clone().prop_map(|a| Ex::Not(Box::new(a))),
            3 => (inner.clone(), inner.clone()).prop_map(|(a, b)| Ex::And(Box::new(a), Box::new(b))),
            3 => (inner.clone(), inner.clone()).prop_map(|(a, b)| Ex::Or(Box::new(a), Box::new(b))),
            2 => (inner.clone(), inner.clone()).prop_map(|(a, b)| Ex::Iff(Box::new(a), Box::new(b))),
            2 => (inner.clone(), inner.clone()).prop_map(|(a, b)| Ex::Xor(Box::new(a), Box::new(b))),
            2 => (inner.clone(), inner.clone(), inner).prop_map(|(a, b, c)| Ex::Ite(Box::new(a), Box::new(b), Box::new(c))),
        ]
    })
    .boxed()
}

#[derive(Clone, Debug, Serialize, Deserialize, PartialEq)]
pub enum Pl {
    Lit(u8, bool),
    True,
    False,
    Not(Box<Pl>),
    And(Box<Pl>, Box<Pl>),
    Or(Box<Pl>, Box<Pl>),
    Iff(Box<Pl>, Box<Pl>),
    Ite(Box<Pl>, Box<Pl>, Box<Pl>),
}

impl Pl {
    pub fn tt(&self) -> Tt {
        match self {
            Pl::Lit(v, p) => Tt::lit(*v as usize, *p),
            Pl::True => Tt::TRUE,
            Pl::False => Tt::FALSE,
            Pl::Not(a) => a.tt().not(),
            Pl::And(a, b) => a.tt().and(b.tt()),
            Pl::Or(a, b) => a.tt().or(b.tt()),
            Pl::Iff(a, b) => a.tt().iff(b.tt()),
            Pl::Ite(g, t, e) => g.tt().ite(t.tt(), e.tt()),
        }
    }
    pub fn to_plan(&self) -> BottomUpPlan {
        match self {
            Pl::Lit(v, p) => BottomUpPlan::literal(VarLabel::new(*v as u64), *p),
            Pl::True => BottomUpPlan::ConstTrue,
            Pl::False => BottomUpPlan::ConstFalse,
            Pl::Not(a) => BottomUpPlan::not(a.to_plan()),
            Pl::And(a, b) => BottomUpPlan::and(a.to_plan(), b.to_plan()),
            Pl::Or(a, b) => BottomUpPlan::or(a.to_plan(), b.to_plan()),
            Pl::Iff(a, b) => BottomUpPlan::iff(a.to_plan(), b.to_plan()),
            Pl::Ite(g, t, e) => BottomUpPlan::ite(g.to_plan(), t.to_plan(), e.to_plan()),
        }
    }
}

pub fn pl_strategy(nv: u8, depth: u32) -> BoxedStrategy<Pl> {
    let leaf = prop_oneof![
        8 => (0..nv, any::<bool>()).prop_map(|(v, p)| Pl::Lit(v, p)),
        1 => Just(Pl::True),
        1 => Just(Pl::False),
    ];
    leaf.prop_recursive(depth, 48, 3, |inner| {
        prop_oneof![
            2 => inner.clone().prop_map(|a| Pl::Not(Box::new(a))),
            3 => (inner.clone(), inner.clone()).prop_map(|(a, b)| Pl::And(Box::new(a), Box::new(b))),
            3 => (inner.clone(), inner.clone()).prop_map(|(a, b)| Pl::Or(Box::new(a), Box::new(b))),
            2 => (inner.clone(), inner.clone()).prop_map(|(a, b)| Pl::Iff(Box::new(a), Box::new(b))),
            2 => (inner.clone(), inner.clone(), inner).prop_map(|(a, b, c)| Pl::Ite(Box::new(a), Box::new(b), Box::new(c))),
        ]
    })
    .boxed()
}

/// truth table of a library BottomUpPlan, by the harness's own evaluator over the public enum
pub fn plan_tt(p: &BottomUpPlan) -> Tt {
    match p {
        BottomUpPlan::Literal(v, pol) => Tt::lit(v.value_usize(), *pol),
        BottomUpPlan::ConstTrue => Tt::TRUE,
        BottomUpPlan::ConstFalse => Tt::FALSE,
        BottomUpPlan::Not(a) => plan_tt(a).not(),
        BottomUpPlan::And(a, b) => plan_tt(a).and(plan_tt(b)),
        BottomUpPlan::Or(a, b) => plan_tt(a).or(plan_tt(b)),
        BottomUpPlan::Iff(a, b) => plan_tt(a).iff(plan_tt(b)),
        BottomUpPlan::Ite(g, t, e) => plan_tt(g).ite(plan_tt(t), plan_tt(e)),
    }
}

/// truth table of a library LogicalExpr, by the harness's own evaluator; `shift` is subtracted from labels
pub fn logical_tt(e: &LogicalExpr, shift: usize) -> Tt {
    match e {
        LogicalExpr::Literal(v, p) => Tt::lit(*v - shift, *p),
        LogicalExpr::Not(a) => logical_tt(a, shift).not(),
        LogicalExpr::And(a, b) => logical_tt(a, shift).and(logical_tt(b, shift)),
        LogicalExpr::Or(a, b) => logical_tt(a, shift).or(logical_tt(b, shift)),
        LogicalExpr::Iff(a, b) => logical_tt(a, shift).iff(logical_tt(b, shift)),
        LogicalExpr::Xor(a, b) => logical_tt(a, shift).xor(logical_tt(b, shift)),
        LogicalExpr::Ite { guard, thn, els } => logical_tt(guard, shift).ite(logical_tt(thn, shift), logical_tt(els, shift)),
    }
}
