//! Runtime shared by the libFuzzer targets: run one decoded case, tolerate known findings, and on a
//! violation write the replay file (same JSON format as the proptest engine) before aborting, so that the
//! saved fuzzer input has a semantic replay next to it.
use crate::engine::*;
use serde::Serialize;

pub fn fuzz_one<S: SubCheckT>(prop: &str, case: &S::Case)
where
    S::Case: Serialize,
{
    static INIT: std::sync::Once = std::sync::Once::new();
    INIT.call_once(install_quiet_panic_hook);
    let mut st = Stats::default();
    if let Err(f) = run_guarded::<S>(case, &mut st) {
        if f.signature == "harness/abort" {
            return;
        }
        let cj = serde_json::to_value(case).unwrap_or(serde_json::Value::Null);
        let rep = FailureReport {
            signature: f.signature.clone(),
            detail: f.detail.clone(),
            case: cj,
        };
        let path = write_failure_file(prop, S::NAME, &rep);
        eprintln!("FUZZ-VIOLATION property={} replay={} signature={}", prop, path.display(), f.signature);
        std::process::abort();
    }
}
