//! Operation histories over more variables than the truth-table oracle holds (10..18): every pool entry is paired
//! with a node of an expression DAG that records how it was made, and the oracle is the harness's own evaluation
//! of that DAG on sampled assignments (the diagram is read by the harness's own walk on the same assignments).
use crate::engine::*;
use proptest::prelude::*;
use serde::{Deserialize, Serialize};

#[derive(Clone, Debug)]
pub enum Node {
    Lit(usize, bool),
    Not(usize),
    And(usize, usize),
    Or(usize, usize),
    Xor(usize, usize),
    Iff(usize, usize),
    Ite(usize, usize, usize),
    /// f | v = value
    Cond(usize, usize, bool),
    /// exists v. f
    Exists(usize, usize),
    /// exists v. (v <=> g) & f  (the library's documented compose)
    Compose(usize, usize, usize),
}

#[derive(Default)]
pub struct Dag {
    pub nodes: Vec<Node>,
}

impl Dag {
    pub fn push(&mut self, n: Node) -> usize {
        self.nodes.push(n);
        self.nodes.len() - 1
    }

    /// value of node `i` under `asg`; None when the work budget runs out (nested quantifications multiply)
    pub fn eval(&self, i: usize, asg: &mut Vec<bool>, budget: &mut u64) -> Option<bool> {
        let mut memo: Vec<Option<bool>> = vec![None; i + 1];
        self.eval_m(i, asg, &mut memo, budget)
    }

    fn eval_m(&self, i: usize, asg: &mut Vec<bool>, memo: &mut Vec<Option<bool>>, budget: &mut u64) -> Option<bool> {
        if let Some(v) = memo[i] {
            return Some(v);
        }
        if *budget == 0 {
            return None;
        }
        *budget -= 1;
        let r = match &self.nodes[i] {
            Node::Lit(v, p) => asg[*v] == *p,
            Node::Not(a) => !self.eval_m(*a, asg, memo, budget)?,
            Node::And(a, b) => self.eval_m(*a, asg, memo, budget)? & self.eval_m(*b, asg, memo, budget)?,
            Node::Or(a, b) => self.eval_m(*a, asg, memo, budget)? | self.eval_m(*b, asg, memo, budget)?,
            Node::Xor(a, b) => self.eval_m(*a, asg, memo, budget)? ^ self.eval_m(*b, asg, memo, budget)?,
            Node::Iff(a, b) => self.eval_m(*a, asg, memo, budget)? == self.eval_m(*b, asg, memo, budget)?,
            Node::Ite(a, b, c) => {
                if self.eval_m(*a, asg, memo, budget)? {
                    self.eval_m(*b, asg, memo, budget)?
                } else {
                    self.eval_m(*c, asg, memo, budget)?
                }
            }
            Node::Cond(a, v, val) => {
                let old = asg[*v];
                asg[*v] = *val;
                let r = self.eval(*a, asg, budget);
                asg[*v] = old;
                r?
            }
            Node::Exists(a, v) => {
                let old = asg[*v];
                asg[*v] = false;
                let r0 = self.eval(*a, asg, budget);
                asg[*v] = true;
                let r1 = self.eval(*a, asg, budget);
                asg[*v] = old;
                r0? | r1?
            }
            Node::Compose(a, v, g) => {
                let old = asg[*v];
                let mut any = Some(false);
                for val in [false, true] {
                    asg[*v] = val;
                    let gv = self.eval(*g, asg, budget);
                    let fv = self.eval(*a, asg, budget);
                    any = match (any, gv, fv) {
                        (Some(x), Some(gv), Some(fv)) => Some(x | ((gv == val) & fv)),
                        _ => None,
                    };
                }
                asg[*v] = old;
                any?
            }
        };
        memo[i] = Some(r);
        Some(r)
    }
}

#[derive(Clone, Debug, Serialize, Deserialize)]
pub struct BigHistCase {
    pub nv: u8,
    pub seed: u64,
    pub table_cap: Option<u16>,
    /// SDD histories: 0 random splits, 1 balanced, 2 right-linear vtree; BDD histories: 0 cache everything, else lossy cache
    pub shape: u8,
    /// (operation, three operand picks, variable byte, value)
    pub steps: Vec<(u8, u16, u16, u16, u8, bool)>,
}

pub fn big_hist_strategy(max_nv: u8, max_steps: usize) -> BoxedStrategy<BigHistCase> {
    (
        10u8..=max_nv,
        any::<u64>(),
        prop_oneof![2 => Just(None), 3 => (1u16..=64).prop_map(Some)],
        0u8..3,
        proptest::collection::vec(
            (any::<u8>(), crate::bddi::idx_strategy(), crate::bddi::idx_strategy(), crate::bddi::idx_strategy(), any::<u8>(), any::<bool>()),
            8..=max_steps,
        ),
    )
        .prop_map(|(nv, seed, table_cap, shape, steps)| BigHistCase { nv, seed, table_cap, shape, steps })
        .boxed()
}

/// the operations a history can apply, by builder
pub trait BigOps<P: Copy> {
    fn lit(&self, v: usize, p: bool) -> P;
    fn not(&self, a: P) -> P;
    fn and(&self, a: P, b: P) -> P;
    fn or(&self, a: P, b: P) -> P;
    fn xor(&self, a: P, b: P) -> P;
    fn iff(&self, a: P, b: P) -> P;
    fn ite(&self, a: P, b: P, c: P) -> P;
    fn cond(&self, a: P, v: usize, val: bool) -> P;
    fn exists(&self, a: P, v: usize) -> P;
    fn compose(&self, a: P, v: usize, g: P) -> P;
    fn eval(&self, a: P, asg: &[bool]) -> bool;
    fn size(&self, a: P) -> usize;
}

/// runs the history; `prefix` is the signature prefix ("C01" / "C03")
pub fn run_big_hist<P: Copy, B: BigOps<P>>(b: &B, case: &BigHistCase, n: usize, prefix: &str, quantifier_ops: bool, st: &mut Stats) -> CaseResult {
    let mut dag = Dag::default();
    let mut pool: Vec<(P, usize)> = Vec::new();
    for v in 0..n {
        let p = splitmix(case.seed ^ v as u64) & 1 == 1;
        pool.push((b.lit(v, p), dag.push(Node::Lit(v, p))));
    }
    // parity-like seeds: something of size for the later operations to work on
    let (mut x, mut xi) = pool[0];
    for v in 1..n {
        let (y, yi) = pool[v];
        if splitmix(case.seed ^ 0xAA ^ v as u64) % 3 == 0 {
            x = b.and(x, y);
            xi = dag.push(Node::And(xi, yi));
        } else {
            x = b.xor(x, y);
            xi = dag.push(Node::Xor(xi, yi));
        }
        if v % 3 == 2 {
            pool.push((x, xi));
        }
    }
    let mut quantified = 0usize;
    let mut largest = 0usize;
    let mut undecided = 0u64;
    let check = |p: P, i: usize, what: &str, dag: &Dag, undecided: &mut u64| -> CaseResult {
        for k in 0..20u64 {
            let mut a = crate::big::assignment(case.seed ^ (i as u64) << 8, k, n);
            let mut budget = 200_000u64;
            let Some(want) = dag.eval(i, &mut a, &mut budget) else {
                *undecided += 1;
                continue;
            };
            let got = b.eval(p, &a);
            ensure!(
                got == want,
                format!("{}/wrong-function:{}", prefix, what),
                "history over {} variables: the result of step '{}' (a diagram of {} nodes) is {} under the assignment {:?}, the operations that made it give {}",
                n,
                what,
                b.size(p),
                got,
                a.iter().map(|x| if *x { '1' } else { '0' }).collect::<String>(),
                want
            );
        }
        Ok(())
    };
    for (op, a, bb, c, vb, val) in case.steps.iter() {
        let at = |i: u16| pool[pick(i, pool.len())];
        let ((p, pi), (q, qi), (r, ri)) = (at(*a), at(*bb), at(*c));
        let v = ((*vb as usize) * n) >> 8;
        let kinds = if quantifier_ops && quantified < 5 { 11 } else { 8 };
        let (name, res, node): (&str, P, Node) = match op % kinds {
            0 => ("and", b.and(p, q), Node::And(pi, qi)),
            1 => ("or", b.or(p, q), Node::Or(pi, qi)),
            2 => ("xor", b.xor(p, q), Node::Xor(pi, qi)),
            3 => ("iff", b.iff(p, q), Node::Iff(pi, qi)),
            4 | 5 => ("ite", b.ite(p, q, r), Node::Ite(pi, qi, ri)),
            6 => ("not", b.not(p), Node::Not(pi)),
            7 => ("cond", b.cond(p, v, *val), Node::Cond(pi, v, *val)),
            8 => {
                quantified += 1;
                ("exists", b.exists(p, v), Node::Exists(pi, v))
            }
            9 => {
                quantified += 1;
                ("compose", b.compose(p, v, q), Node::Compose(pi, v, qi))
            }
            _ => ("cond", b.cond(p, v, !*val), Node::Cond(pi, v, !*val)),
        };
        let ni = dag.push(node);
        largest = largest.max(b.size(res)).max(b.size(p));
        st.bump(&format!("bighist.op.{}", name));
        if matches!(name, "exists" | "compose" | "cond") {
            st.bump(match b.size(p) {
                0..=16 => "bighist.cofactor_style_operand.upto_16_nodes",
                17..=64 => "bighist.cofactor_style_operand.17_64_nodes",
                _ => "bighist.cofactor_style_operand.above_64_nodes",
            });
        }
        check(res, ni, name, &dag, &mut undecided)?;
        pool.push((res, ni));
    }
    // the whole pool once more at the end (nothing an operation did may have changed an earlier result)
    for (p, i) in pool.iter() {
        check(*p, *i, "recheck at the end", &dag, &mut undecided)?;
    }
    st.add("bighist.assignments_undecided_within_budget", undecided);
    st.bump(match largest {
        0..=16 => "bighist.largest_diagram.upto_16",
        17..=64 => "bighist.largest_diagram.17_64",
        65..=256 => "bighist.largest_diagram.65_256",
        _ => "bighist.largest_diagram.above_256",
    });
    if largest > 64 {
        st.mark_nontrivial();
    }
    Ok(())
}
