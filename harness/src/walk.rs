//! Independent readers of rsdd's in-memory diagrams. Results are observed only
//! through public fields / accessors (`var`, `low`, `high`, `iter()`), never
//! through the library's own evaluation or counting code.
use crate::tt::Tt;
use rsdd::repr::{BddNode, BddPtr, SddPtr, VarOrder};
use std::collections::{BTreeSet, HashMap, HashSet};

pub type BddMemo<'a> = HashMap<*const BddNode<'a>, Tt>;

thread_local! {
    /// Embedding of the truth-table oracle's variables into a builder with many more variables: when set,
    /// builder label `l` stands for oracle variable `map[l]`. A node on a label without an entry makes the
    /// walked function depend on a variable none of the operands mentions; that is recorded in FOREIGN_LABEL_SEEN
    /// (the table then treats the node as testing oracle variable 7, so the result is wrong in any case).
    static LABEL_MAP: std::cell::RefCell<Option<Vec<Option<usize>>>> = const { std::cell::RefCell::new(None) };
    static FOREIGN_LABEL_SEEN: std::cell::Cell<Option<usize>> = const { std::cell::Cell::new(None) };
}

pub fn set_label_map(m: Option<Vec<Option<usize>>>) {
    LABEL_MAP.with(|x| *x.borrow_mut() = m);
    FOREIGN_LABEL_SEEN.with(|x| x.set(None));
}

pub fn extend_label_map(label: usize, oracle_var: usize) {
    LABEL_MAP.with(|x| {
        if let Some(m) = x.borrow_mut().as_mut() {
            if m.len() <= label {
                m.resize(label + 1, None);
            }
            m[label] = Some(oracle_var);
        }
    });
}

/// a builder label outside the embedding that some walked diagram tested (and reset)
pub fn take_foreign_label() -> Option<usize> {
    FOREIGN_LABEL_SEEN.with(|x| x.take())
}

fn oracle_var_of(label: usize) -> usize {
    LABEL_MAP.with(|x| match x.borrow().as_ref() {
        None => label,
        Some(m) => match m.get(label).copied().flatten() {
            Some(v) => v,
            None => {
                FOREIGN_LABEL_SEEN.with(|f| f.set(Some(label)));
                crate::tt::NV - 1
            }
        },
    })
}

/// truth table of the *regular* function stored at `node`
pub fn bdd_node_tt<'a>(node: &'a BddNode<'a>, memo: &mut BddMemo<'a>) -> Tt {
    let key = node as *const BddNode<'a>;
    if let Some(t) = memo.get(&key) {
        return *t;
    }
    let lo = bdd_tt_m(node.low, memo);
    let hi = bdd_tt_m(node.high, memo);
    let v = oracle_var_of(node.var.value_usize());
    let t = Tt::var(v).ite(hi, lo);
    memo.insert(key, t);
    t
}

pub fn bdd_tt_m<'a>(p: BddPtr<'a>, memo: &mut BddMemo<'a>) -> Tt {
    match p {
        BddPtr::PtrTrue => Tt::TRUE,
        BddPtr::PtrFalse => Tt::FALSE,
        BddPtr::Reg(n) => bdd_node_tt(n, memo),
        BddPtr::Compl(n) => bdd_node_tt(n, memo).not(),
    }
}

pub fn bdd_tt<'a>(p: BddPtr<'a>) -> Tt {
    let mut m = HashMap::new();
    bdd_tt_m(p, &mut m)
}

/// max variable label mentioned anywhere in the diagram (None for constants)
pub fn bdd_max_label(p: BddPtr) -> Option<usize> {
    bdd_nodes(p).iter().map(|n| n.var.value_usize()).max()
}

pub fn bdd_node_of<'a>(p: BddPtr<'a>) -> Option<&'a BddNode<'a>> {
    match p {
        BddPtr::Reg(n) | BddPtr::Compl(n) => Some(n),
        _ => None,
    }
}

pub fn bdd_is_compl(p: BddPtr) -> bool {
    matches!(p, BddPtr::Compl(_))
}

/// all nodes reachable from p (by address)
pub fn bdd_nodes<'a>(p: BddPtr<'a>) -> Vec<&'a BddNode<'a>> {
    let mut seen: HashSet<*const BddNode<'a>> = HashSet::new();
    let mut out = Vec::new();
    let mut stack = vec![p];
    while let Some(q) = stack.pop() {
        if let Some(n) = bdd_node_of(q) {
            if seen.insert(n as *const _) {
                out.push(n);
                stack.push(n.low);
                stack.push(n.high);
            }
        }
    }
    out
}

/// number of distinct nodes with >= 2 parents (edges) inside the diagram rooted at p
pub fn bdd_shared_nodes(p: BddPtr) -> usize {
    let mut parents: HashMap<*const BddNode, usize> = HashMap::new();
    for n in bdd_nodes(p) {
        for c in [n.low, n.high] {
            if let Some(cn) = bdd_node_of(c) {
                *parents.entry(cn as *const _).or_insert(0) += 1;
            }
        }
    }
    parents.values().filter(|&&c| c >= 2).count()
}

pub fn bdd_compl_edges(p: BddPtr) -> usize {
    let mut c = if bdd_is_compl(p) { 1 } else { 0 };
    for n in bdd_nodes(p) {
        if bdd_is_compl(n.low) {
            c += 1;
        }
        if bdd_is_compl(n.high) {
            c += 1;
        }
    }
    c
}

/// ROBDD shape requirements of C02. `level(v)` gives the position of label v in the builder's order.
pub fn bdd_shape_violation(p: BddPtr, level: &dyn Fn(usize) -> usize) -> Option<String> {
    for n in bdd_nodes(p) {
        let lv = level(n.var.value_usize());
        if n.low == n.high {
            return Some(format!("node on var {} has identical children", n.var.value()));
        }
        match n.high {
            BddPtr::Compl(_) => {
                return Some(format!("node on var {} has a complemented high edge", n.var.value()))
            }
            BddPtr::PtrFalse => {
                return Some(format!("node on var {} has a constant-false high edge", n.var.value()))
            }
            _ => {}
        }
        for c in [n.low, n.high] {
            if let Some(cn) = bdd_node_of(c) {
                let lc = level(cn.var.value_usize());
                if lc <= lv {
                    return Some(format!(
                        "edge from var {} (level {}) to var {} (level {}) violates the order",
                        n.var.value(),
                        lv,
                        cn.var.value(),
                        lc
                    ));
                }
            }
        }
    }
    None
}

/// enumerate all root-to-terminal paths as the sequence of variable labels tested; capped.
pub fn bdd_paths(p: BddPtr, cap: usize) -> Option<Vec<Vec<usize>>> {
    fn go(p: BddPtr, cur: &mut Vec<usize>, out: &mut Vec<Vec<usize>>, cap: usize) -> bool {
        match p {
            BddPtr::PtrTrue | BddPtr::PtrFalse => {
                if out.len() >= cap {
                    return false;
                }
                out.push(cur.clone());
                true
            }
            BddPtr::Reg(n) | BddPtr::Compl(n) => {
                cur.push(n.var.value_usize());
                let ok = go(n.low, cur, out, cap) && go(n.high, cur, out, cap);
                cur.pop();
                ok
            }
        }
    }
    let mut out = Vec::new();
    let mut cur = Vec::new();
    if go(p, &mut cur, &mut out, cap) {
        Some(out)
    } else {
        None
    }
}

pub fn order_levels(o: &VarOrder) -> Vec<usize> {
    // position of each label, computed from the public iteration order only
    let mut lv = vec![usize::MAX; o.num_vars()];
    for (i, v) in o.in_order_iter().enumerate() {
        lv[v.value_usize()] = i;
    }
    lv
}

/// structural isomorphism of two BDDs living in different builders (both under the same order)
pub fn bdd_iso<'a, 'b>(a: BddPtr<'a>, b: BddPtr<'b>) -> bool {
    fn go<'a, 'b>(
        a: BddPtr<'a>,
        b: BddPtr<'b>,
        m: &mut HashMap<*const BddNode<'a>, *const BddNode<'b>>,
        r: &mut HashMap<*const BddNode<'b>, *const BddNode<'a>>,
    ) -> bool {
        match (a, b) {
            (BddPtr::PtrTrue, BddPtr::PtrTrue) | (BddPtr::PtrFalse, BddPtr::PtrFalse) => true,
            (BddPtr::Reg(x), BddPtr::Reg(y)) | (BddPtr::Compl(x), BddPtr::Compl(y)) => {
                let xp = x as *const BddNode<'a>;
                let yp = y as *const BddNode<'b>;
                match (m.get(&xp), r.get(&yp)) {
                    (Some(&y2), Some(&x2)) => y2 == yp && x2 == xp,
                    (None, None) => {
                        if x.var != y.var {
                            return false;
                        }
                        m.insert(xp, yp);
                        r.insert(yp, xp);
                        go(x.low, y.low, m, r) && go(x.high, y.high, m, r)
                    }
                    _ => false,
                }
            }
            _ => false,
        }
    }
    go(a, b, &mut HashMap::new(), &mut HashMap::new())
}

// ---------------------------------------------------------------------------
// SDD
// ---------------------------------------------------------------------------

#[derive(Clone, Copy, PartialEq, Eq, Hash, PartialOrd, Ord, Debug)]
pub enum SddKey {
    Bdd(usize),
    Or(usize),
}

pub fn sdd_key(p: SddPtr) -> Option<SddKey> {
    match p {
        SddPtr::BDD(b) | SddPtr::ComplBDD(b) => Some(SddKey::Bdd(b as *const _ as usize)),
        SddPtr::Reg(o) | SddPtr::Compl(o) => Some(SddKey::Or(o as *const _ as usize)),
        _ => None,
    }
}

pub fn sdd_is_compl(p: SddPtr) -> bool {
    matches!(p, SddPtr::ComplBDD(_) | SddPtr::Compl(_))
}

/// elements (prime, sub) of the *regular* node behind p, read from public accessors
pub fn sdd_elements<'a>(p: SddPtr<'a>) -> Vec<(SddPtr<'a>, SddPtr<'a>)> {
    match p {
        SddPtr::BDD(b) | SddPtr::ComplBDD(b) => vec![
            (SddPtr::Var(b.label(), true), b.high()),
            (SddPtr::Var(b.label(), false), b.low()),
        ],
        SddPtr::Reg(o) | SddPtr::Compl(o) => {
            let mut v = Vec::new();
            for a in o.iter() {
                v.push((a.prime, a.sub));
            }
            v
        }
        _ => vec![],
    }
}

pub type SddMemo = HashMap<SddKey, Tt>;

pub fn sdd_tt_m(p: SddPtr, memo: &mut SddMemo) -> Tt {
    match p {
        SddPtr::PtrTrue => Tt::TRUE,
        SddPtr::PtrFalse => Tt::FALSE,
        SddPtr::Var(l, pol) => Tt::lit(oracle_var_of(l.value_usize()), pol),
        _ => {
            let key = sdd_key(p).unwrap();
            let reg = if let Some(t) = memo.get(&key) {
                *t
            } else {
                let mut t = Tt::FALSE;
                for (pr, su) in sdd_elements(p) {
                    let a = sdd_tt_m(pr, memo);
                    let b = sdd_tt_m(su, memo);
                    t = t.or(a.and(b));
                }
                memo.insert(key, t);
                t
            };
            if sdd_is_compl(p) {
                reg.not()
            } else {
                reg
            }
        }
    }
}

pub fn sdd_tt(p: SddPtr) -> Tt {
    sdd_tt_m(p, &mut HashMap::new())
}

/// all internal nodes reachable from p (regular representative pointers)
pub fn sdd_nodes<'a>(p: SddPtr<'a>) -> Vec<SddPtr<'a>> {
    let mut seen: HashSet<SddKey> = HashSet::new();
    let mut out = Vec::new();
    let mut stack = vec![p];
    while let Some(q) = stack.pop() {
        if let Some(k) = sdd_key(q) {
            if seen.insert(k) {
                let reg = match q {
                    SddPtr::ComplBDD(b) => SddPtr::BDD(b),
                    SddPtr::Compl(o) => SddPtr::Reg(o),
                    x => x,
                };
                out.push(reg);
                for (pr, su) in sdd_elements(q) {
                    stack.push(pr);
                    stack.push(su);
                }
            }
        }
    }
    out
}

/// variables syntactically mentioned below p
pub fn sdd_syntactic_vars(p: SddPtr) -> BTreeSet<usize> {
    let mut s = BTreeSet::new();
    if let SddPtr::Var(l, _) = p {
        s.insert(l.value_usize());
    }
    for n in sdd_nodes(p) {
        for (pr, su) in sdd_elements(n) {
            for q in [pr, su] {
                if let SddPtr::Var(l, _) = q {
                    s.insert(l.value_usize());
                }
            }
        }
        if let SddPtr::BDD(b) = n {
            s.insert(b.label().value_usize());
        }
    }
    s
}

/// structural isomorphism of two SDDs from different builders over the same vtree
pub fn sdd_iso(a: SddPtr, b: SddPtr) -> bool {
    // Equivalence of two SDDs that may live in different builders over the same vtree: same function, decision
    // nodes at the same vtree positions with the same number of elements, elements matched by the function of
    // their primes, recursively. The ORDER in which a node stores its elements and WHICH of a node and its
    // negation is the stored one (complement bit on the pointer vs negated subs) are representation choices
    // that no property promises across builders, so neither is compared.
    fn effective<'x>(p: SddPtr<'x>) -> Vec<(SddPtr<'x>, SddPtr<'x>, bool)> {
        // (prime, sub, sub is to be read negated)
        let neg = sdd_is_compl(p);
        sdd_elements(p).into_iter().map(|(pr, su)| (pr, su, neg)).collect()
    }
    fn tt_neg(p: SddPtr, neg: bool, memo: &mut SddMemo) -> Tt {
        let t = sdd_tt_m(p, memo);
        if neg {
            t.not()
        } else {
            t
        }
    }
    #[allow(clippy::too_many_arguments)]
    fn go(a: SddPtr, na: bool, b: SddPtr, nb: bool, memo: &mut SddMemo, seen: &mut HashMap<(SddKey, bool, SddKey, bool), bool>) -> bool {
        if tt_neg(a, na, memo) != tt_neg(b, nb, memo) {
            return false;
        }
        let (ia, ib) = (sdd_key(a).is_some(), sdd_key(b).is_some());
        if ia != ib {
            // a decision node on one side, a literal or constant of the same function on the other
            return false;
        }
        if !ia {
            return true;
        }
        let k = (sdd_key(a).unwrap(), na, sdd_key(b).unwrap(), nb);
        if let Some(r) = seen.get(&k) {
            return *r;
        }
        seen.insert(k, true);
        let ok = (|| {
            if a.vtree().value() != b.vtree().value() {
                return false;
            }
            let (ea, eb) = (effective(a), effective(b));
            if ea.len() != eb.len() {
                return false;
            }
            for (p1, s1, n1) in ea.iter() {
                let t1 = sdd_tt_m(*p1, memo);
                let Some((p2, s2, n2)) = eb.iter().find(|(p2, _, _)| sdd_tt_m(*p2, memo) == t1) else {
                    return false;
                };
                if !go(*p1, false, *p2, false, memo, seen) || !go(*s1, *n1 ^ na, *s2, *n2 ^ nb, memo, seen) {
                    return false;
                }
            }
            true
        })();
        seen.insert(k, ok);
        ok
    }
    go(a, false, b, false, &mut HashMap::new(), &mut HashMap::new())
}
