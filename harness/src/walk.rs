//! Independent readers of rsdd's in-memory diagrams. Results are observed only
//! through public fields / accessors (`var`, `low`, `high`, `iter()`), never
//! through the library's own evaluation or counting code.
use crate::tt::Tt;
use rsdd::repr::{BddNode, BddPtr, SddPtr, VarOrder};
use std::collections::{BTreeSet, HashMap, HashSet};

pub type BddMemo<'a> = HashMap<*const BddNode<'a>, Tt>;

/// truth table of the *regular* function stored at `node`
pub fn bdd_node_tt<'a>(node: &'a BddNode<'a>, memo: &mut BddMemo<'a>) -> Tt {
    let key = node as *const BddNode<'a>;
    if let Some(t) = memo.get(&key) {
        return *t;
    }
    let lo = bdd_tt_m(node.low, memo);
    let hi = bdd_tt_m(node.high, memo);
    let v = node.var.value_usize();
    let t = Tt::var(v).ite(hi, lo);
    memo.insert(key, t);
    t
}

pub fn bdd_tt_m<'a>(p: BddPtr<'a>, memo: &mut BddMemo<'a>) -> Tt {
    match p {
        BddPtr::PtrTrue => Tt::TRUE,
        BddPtr::PtrFalse => Tt::FALSE,
        BddPtr::Reg(n) => bdd_node_tt(n, memo),
        BddPtr::Compl(n) => bdd_node_tt(n, memo).not(),
    }
}

pub fn bdd_tt<'a>(p: BddPtr<'a>) -> Tt {
    let mut m = HashMap::new();
    bdd_tt_m(p, &mut m)
}

/// max variable label mentioned anywhere in the diagram (None for constants)
pub fn bdd_max_label(p: BddPtr) -> Option<usize> {
    bdd_nodes(p).iter().map(|n| n.var.value_usize()).max()
}

pub fn bdd_node_of<'a>(p: BddPtr<'a>) -> Option<&'a BddNode<'a>> {
    match p {
        BddPtr::Reg(n) | BddPtr::Compl(n) => Some(n),
        _ => None,
    }
}

pub fn bdd_is_compl(p: BddPtr) -> bool {
    matches!(p, BddPtr::Compl(_))
}

/// all nodes reachable from p (by address)
pub fn bdd_nodes<'a>(p: BddPtr<'a>) -> Vec<&'a BddNode<'a>> {
    let mut seen: HashSet<*const BddNode<'a>> = HashSet::new();
    let mut out = Vec::new();
    let mut stack = vec![p];
    while let Some(q) = stack.pop() {
        if let Some(n) = bdd_node_of(q) {
            if seen.insert(n as *const _) {
                out.push(n);
                stack.push(n.low);
                stack.push(n.high);
            }
        }
    }
    out
}

/// number of distinct nodes with >= 2 parents (edges) inside the diagram rooted at p
pub fn bdd_shared_nodes(p: BddPtr) -> usize {
    let mut parents: HashMap<*const BddNode, usize> = HashMap::new();
    for n in bdd_nodes(p) {
        for c in [n.low, n.high] {
            if let Some(cn) = bdd_node_of(c) {
                *parents.entry(cn as *const _).or_insert(0) += 1;
            }
        }
    }
    parents.values().filter(|&&c| c >= 2).count()
}

pub fn bdd_compl_edges(p: BddPtr) -> usize {
    let mut c = if bdd_is_compl(p) { 1 } else { 0 };
    for n in bdd_nodes(p) {
        if bdd_is_compl(n.low) {
            c += 1;
        }
        if bdd_is_compl(n.high) {
            c += 1;
        }
    }
    c
}

/// ROBDD shape requirements of C02. `level(v)` gives the position of label v in the builder's order.
pub fn bdd_shape_violation(p: BddPtr, level: &dyn Fn(usize) -> usize) -> Option<String> {
    for n in bdd_nodes(p) {
        let lv = level(n.var.value_usize());
        if n.low == n.high {
            return Some(format!("node on var {} has identical children", n.var.value()));
        }
        match n.high {
            BddPtr::Compl(_) => {
                return Some(format!("node on var {} has a complemented high edge", n.var.value()))
            }
            BddPtr::PtrFalse => {
                return Some(format!("node on var {} has a constant-false high edge", n.var.value()))
            }
            _ => {}
        }
        for c in [n.low, n.high] {
            if let Some(cn) = bdd_node_of(c) {
                let lc = level(cn.var.value_usize());
                if lc <= lv {
                    return Some(format!(
                        "edge from var {} (level {}) to var {} (level {}) violates the order",
                        n.var.value(),
                        lv,
                        cn.var.value(),
                        lc
                    ));
                }
            }
        }
    }
    None
}

/// enumerate all root-to-terminal paths as the sequence of variable labels tested; capped.
pub fn bdd_paths(p: BddPtr, cap: usize) -> Option<Vec<Vec<usize>>> {
    fn go(p: BddPtr, cur: &mut Vec<usize>, out: &mut Vec<Vec<usize>>, cap: usize) -> bool {
        match p {
            BddPtr::PtrTrue | BddPtr::PtrFalse => {
                if out.len() >= cap {
                    return false;
                }
                out.push(cur.clone());
                true
            }
            BddPtr::Reg(n) | BddPtr::Compl(n) => {
                cur.push(n.var.value_usize());
                let ok = go(n.low, cur, out, cap) && go(n.high, cur, out, cap);
                cur.pop();
                ok
            }
        }
    }
    let mut out = Vec::new();
    let mut cur = Vec::new();
    if go(p, &mut cur, &mut out, cap) {
        Some(out)
    } else {
        None
    }
}

pub fn order_levels(o: &VarOrder) -> Vec<usize> {
    // position of each label, computed from the public iteration order only
    let mut lv = vec![usize::MAX; o.num_vars()];
    for (i, v) in o.in_order_iter().enumerate() {
        lv[v.value_usize()] = i;
    }
    lv
}

/// structural isomorphism of two BDDs living in different builders (both under the same order)
pub fn bdd_iso<'a, 'b>(a: BddPtr<'a>, b: BddPtr<'b>) -> bool {
    fn go<'a, 'b>(
        a: BddPtr<'a>,
        b: BddPtr<'b>,
        m: &mut HashMap<*const BddNode<'a>, *const BddNode<'b>>,
        r: &mut HashMap<*const BddNode<'b>, *const BddNode<'a>>,
    ) -> bool {
        match (a, b) {
            (BddPtr::PtrTrue, BddPtr::PtrTrue) | (BddPtr::PtrFalse, BddPtr::PtrFalse) => true,
            (BddPtr::Reg(x), BddPtr::Reg(y)) | (BddPtr::Compl(x), BddPtr::Compl(y)) => {
                let xp = x as *const BddNode<'a>;
                let yp = y as *const BddNode<'b>;
                match (m.get(&xp), r.get(&yp)) {
                    (Some(&y2), Some(&x2)) => y2 == yp && x2 == xp,
                    (None, None) => {
                        if x.var != y.var {
                            return false;
                        }
                        m.insert(xp, yp);
                        r.insert(yp, xp);
                        go(x.low, y.low, m, r) && go(x.high, y.high, m, r)
                    }
                    _ => false,
                }
            }
            _ => false,
        }
    }
    go(a, b, &mut HashMap::new(), &mut HashMap::new())
}

// ---------------------------------------------------------------------------
// SDD
// ---------------------------------------------------------------------------

#[derive(Clone, Copy, PartialEq, Eq, Hash, PartialOrd, Ord, Debug)]
pub enum SddKey {
    Bdd(usize),
    Or(usize),
}

pub fn sdd_key(p: SddPtr) -> Option<SddKey> {
    match p {
        SddPtr::BDD(b) | SddPtr::ComplBDD(b) => Some(SddKey::Bdd(b as *const _ as usize)),
        SddPtr::Reg(o) | SddPtr::Compl(o) => Some(SddKey::Or(o as *const _ as usize)),
        _ => None,
    }
}

pub fn sdd_is_compl(p: SddPtr) -> bool {
    matches!(p, SddPtr::ComplBDD(_) | SddPtr::Compl(_))
}

/// elements (prime, sub) of the *regular* node behind p, read from public accessors
pub fn sdd_elements<'a>(p: SddPtr<'a>) -> Vec<(SddPtr<'a>, SddPtr<'a>)> {
    match p {
        SddPtr::BDD(b) | SddPtr::ComplBDD(b) => vec![
            (SddPtr::Var(b.label(), true), b.high()),
            (SddPtr::Var(b.label(), false), b.low()),
        ],
        SddPtr::Reg(o) | SddPtr::Compl(o) => {
            let mut v = Vec::new();
            for a in o.iter() {
                v.push((a.prime, a.sub));
            }
            v
        }
        _ => vec![],
    }
}

pub type SddMemo = HashMap<SddKey, Tt>;

pub fn sdd_tt_m(p: SddPtr, memo: &mut SddMemo) -> Tt {
    match p {
        SddPtr::PtrTrue => Tt::TRUE,
        SddPtr::PtrFalse => Tt::FALSE,
        SddPtr::Var(l, pol) => Tt::lit(l.value_usize(), pol),
        _ => {
            let key = sdd_key(p).unwrap();
            let reg = if let Some(t) = memo.get(&key) {
                *t
            } else {
                let mut t = Tt::FALSE;
                for (pr, su) in sdd_elements(p) {
                    let a = sdd_tt_m(pr, memo);
                    let b = sdd_tt_m(su, memo);
                    t = t.or(a.and(b));
                }
                memo.insert(key, t);
                t
            };
            if sdd_is_compl(p) {
                reg.not()
            } else {
                reg
            }
        }
    }
}

pub fn sdd_tt(p: SddPtr) -> Tt {
    sdd_tt_m(p, &mut HashMap::new())
}

/// all internal nodes reachable from p (regular representative pointers)
pub fn sdd_nodes<'a>(p: SddPtr<'a>) -> Vec<SddPtr<'a>> {
    let mut seen: HashSet<SddKey> = HashSet::new();
    let mut out = Vec::new();
    let mut stack = vec![p];
    while let Some(q) = stack.pop() {
        if let Some(k) = sdd_key(q) {
            if seen.insert(k) {
                let reg = match q {
                    SddPtr::ComplBDD(b) => SddPtr::BDD(b),
                    SddPtr::Compl(o) => SddPtr::Reg(o),
                    x => x,
                };
                out.push(reg);
                for (pr, su) in sdd_elements(q) {
                    stack.push(pr);
                    stack.push(su);
                }
            }
        }
    }
    out
}

/// variables syntactically mentioned below p
pub fn sdd_syntactic_vars(p: SddPtr) -> BTreeSet<usize> {
    let mut s = BTreeSet::new();
    if let SddPtr::Var(l, _) = p {
        s.insert(l.value_usize());
    }
    for n in sdd_nodes(p) {
        for (pr, su) in sdd_elements(n) {
            for q in [pr, su] {
                if let SddPtr::Var(l, _) = q {
                    s.insert(l.value_usize());
                }
            }
        }
        if let SddPtr::BDD(b) = n {
            s.insert(b.label().value_usize());
        }
    }
    s
}

/// structural isomorphism of two SDDs from different builders over the same vtree
pub fn sdd_iso(a: SddPtr, b: SddPtr) -> bool {
    fn go(a: SddPtr, b: SddPtr, m: &mut HashMap<SddKey, SddKey>, r: &mut HashMap<SddKey, SddKey>) -> bool {
        match (a, b) {
            (SddPtr::PtrTrue, SddPtr::PtrTrue) | (SddPtr::PtrFalse, SddPtr::PtrFalse) => true,
            (SddPtr::Var(x, p), SddPtr::Var(y, q)) => x == y && p == q,
            _ => {
                let (Some(ka), Some(kb)) = (sdd_key(a), sdd_key(b)) else {
                    return false;
                };
                if sdd_is_compl(a) != sdd_is_compl(b) {
                    return false;
                }
                if std::mem::discriminant(&ka) != std::mem::discriminant(&kb) {
                    return false;
                }
                match (m.get(&ka), r.get(&kb)) {
                    (Some(&k2), Some(&k1)) => k2 == kb && k1 == ka,
                    (None, None) => {
                        if a.vtree().value() != b.vtree().value() {
                            return false;
                        }
                        m.insert(ka, kb);
                        r.insert(kb, ka);
                        let ea = sdd_elements(a);
                        let eb = sdd_elements(b);
                        if ea.len() != eb.len() {
                            return false;
                        }
                        // element order is canonical (sorted by the library's structural order) in a
                        // compressing builder; compare position-wise
                        ea.iter()
                            .zip(eb.iter())
                            .all(|((p1, s1), (p2, s2))| go(*p1, *p2, m, r) && go(*s1, *s2, m, r))
                    }
                    _ => false,
                }
            }
        }
    }
    go(a, b, &mut HashMap::new(), &mut HashMap::new())
}
