//! Byte decoders (arbitrary::Unstructured) for the case types used by the libFuzzer targets.
//! Each decoder is total: any byte string yields a case inside the property's input domain.
use crate::bddi::{BOp, BddCfg};
use crate::cnfgen::CnfCase;
use crate::props::{c01, c02, c03, c09, c10, c16};
use crate::sddi::SOp;
use crate::vtgen::VtreeCase;
use arbitrary::{Result, Unstructured};

fn vec_u16(u: &mut Unstructured, n: usize) -> Result<Vec<u16>> {
    (0..n).map(|_| u.arbitrary::<u16>()).collect()
}

pub fn bdd_cfg(u: &mut Unstructured, max_n0: u8) -> Result<BddCfg> {
    let n0 = 1 + u.arbitrary::<u8>()? % max_n0;
    let order_keys = match u.arbitrary::<u8>()? % 4 {
        0 => vec![0u16; 8],
        _ => vec_u16(u, 8)?,
    };
    let cache = u.arbitrary::<u8>()? % 7;
    let table_cap = match u.arbitrary::<u8>()? {
        0..=25 => None,
        x => Some(1 + (x as u16 % 64)),
    };
    Ok(BddCfg { n0, order_keys, cache, table_cap, embed: None })
}

pub fn bop(u: &mut Unstructured) -> Result<BOp> {
    let sel = u.arbitrary::<u8>()?;
    if sel >= 248 {
        // the top selector values (they used to fold onto the arms below): sibling operations on one (f, v, g)
        return Ok(BOp::Siblings(u.arbitrary()?, u.arbitrary()?, u.arbitrary()?, u.arbitrary()?));
    }
    Ok(match sel % 18 {
        0 | 1 => BOp::Lit(u.arbitrary()?, u.arbitrary()?),
        2 => {
            let x: u8 = u.arbitrary()?;
            if x & 0xC0 == 0xC0 {
                BOp::Dense([u.arbitrary()?, u.arbitrary()?, u.arbitrary()?, u.arbitrary()?])
            } else {
                BOp::Const(x & 1 == 1)
            }
        }
        3 => BOp::Not(u.arbitrary()?),
        4 | 5 => BOp::And(u.arbitrary()?, u.arbitrary()?),
        6 => BOp::Or(u.arbitrary()?, u.arbitrary()?),
        7 => BOp::Xor(u.arbitrary()?, u.arbitrary()?),
        8 => BOp::Iff(u.arbitrary()?, u.arbitrary()?),
        9 | 10 => BOp::Ite(u.arbitrary()?, u.arbitrary()?, u.arbitrary()?),
        11 => BOp::Cond(u.arbitrary()?, u.arbitrary()?, u.arbitrary()?),
        12 => {
            let a = u.arbitrary()?;
            let bits: u16 = u.arbitrary()?;
            let m = (0..8)
                .map(|i| match (bits >> (2 * i)) & 3 {
                    0 => Some(false),
                    1 => Some(true),
                    _ => None,
                })
                .collect();
            BOp::CondModel(a, m)
        }
        13 => BOp::Exists(u.arbitrary()?, u.arbitrary()?),
        14 => BOp::Compose(u.arbitrary()?, u.arbitrary()?, u.arbitrary()?),
        15 => {
            let k = match u.arbitrary::<u8>()? {
                0..=199 => u.arbitrary::<u8>()? % 5,
                200..=229 => 5 + u.arbitrary::<u8>()? % 8,
                _ => 13 + u.arbitrary::<u8>()? % 67,
            };
            let l = vec_u16(u, k as usize)?;
            if u.arbitrary()? {
                BOp::AndLst(l)
            } else {
                BOp::OrLst(l)
            }
        }
        16 => {
            let nc = 1 + u.arbitrary::<u8>()? % 4;
            let mut cl = Vec::new();
            for _ in 0..nc {
                let nl = 1 + u.arbitrary::<u8>()? % 3;
                let mut c = Vec::new();
                for _ in 0..nl {
                    c.push((u.arbitrary()?, u.arbitrary()?));
                }
                cl.push(c);
            }
            BOp::Cnf(cl)
        }
        _ => BOp::NewVar(u.arbitrary()?),
    })
}

pub fn bops(u: &mut Unstructured, max: usize) -> Result<Vec<BOp>> {
    let mut v = Vec::new();
    while !u.is_empty() && v.len() < max {
        v.push(bop(u)?);
    }
    Ok(v)
}

pub fn c01_case(u: &mut Unstructured) -> Result<c01::Case> {
    let cfg = bdd_cfg(u, 6)?;
    let checkpoints = vec_u16(u, 3)?;
    let ops = bops(u, 60)?;
    Ok(c01::Case { cfg, ops, checkpoints })
}

pub fn c02_builder_case(u: &mut Unstructured) -> Result<c02::Case> {
    let mut cfg = bdd_cfg(u, 6)?;
    cfg.table_cap = Some(1 + u.arbitrary::<u16>()? % 24);
    let checkpoints = vec_u16(u, 3)?;
    let ops = bops(u, 60)?;
    Ok(c02::Case { cfg, ops, checkpoints })
}

fn small_hash(u: &mut Unstructured) -> Result<u64> {
    Ok(match u.arbitrary::<u8>()? % 8 {
        0..=3 => (u.arbitrary::<u8>()? % 6) as u64,
        4 | 5 => (u.arbitrary::<u8>()? % 4) as u64 + (1u64 << (1 + u.arbitrary::<u8>()? % 8)),
        6 => u.arbitrary::<u64>()?,
        _ => u64::MAX,
    })
}

pub fn c02_table_case(u: &mut Unstructured) -> Result<c02::TableCase> {
    let cap = 1 + u.arbitrary::<u16>()? % 32;
    let nk = 1 + u.arbitrary::<u8>()? % 40;
    let mut hashes = Vec::new();
    for _ in 0..nk {
        hashes.push(small_hash(u)?);
    }
    let mut ops = Vec::new();
    while !u.is_empty() && ops.len() < 200 {
        let k: u8 = u.arbitrary()?;
        if u.arbitrary::<u8>()? % 6 == 0 {
            ops.push(c02::TOp::Lookup(k));
        } else {
            ops.push(c02::TOp::Insert(k));
        }
    }
    Ok(c02::TableCase { cap, hashes, ops })
}

pub fn c16_lru_case(u: &mut Unstructured) -> Result<c16::LruCase> {
    let cap_exp = u.arbitrary::<u8>()? % 5;
    let nk = 1 + u.arbitrary::<u8>()? % 24;
    let mut hashes = Vec::new();
    for _ in 0..nk {
        hashes.push(small_hash(u)?);
    }
    let mut ops = Vec::new();
    while !u.is_empty() && ops.len() < 200 {
        let k: u8 = u.arbitrary()?;
        if u.arbitrary::<u8>()? % 5 < 3 {
            ops.push(c16::LOp::Insert(k, u.arbitrary()?));
        } else {
            ops.push(c16::LOp::Get(k));
        }
    }
    Ok(c16::LruCase { cap_exp, hashes, ops })
}

pub fn vtree_case(u: &mut Unstructured, max_k: u8) -> Result<VtreeCase> {
    Ok(VtreeCase {
        k: 1 + u.arbitrary::<u8>()? % max_k,
        keys: vec_u16(u, 12)?,
        kind: u.arbitrary::<u8>()? % 5,
        splits: vec_u16(u, 12)?,
        stride: 1,
        offset: 0,
    })
}

pub fn sop(u: &mut Unstructured, ite_family: bool) -> Result<SOp> {
    let sel = u.arbitrary::<u8>()?;
    if sel >= 248 {
        return Ok(SOp::Siblings(u.arbitrary()?, u.arbitrary()?, u.arbitrary()?, u.arbitrary()?, ite_family));
    }
    Ok(match sel % if ite_family { 19 } else { 10 } {
        0 | 1 => SOp::Lit(u.arbitrary()?, u.arbitrary()?),
        2 => SOp::Const(u.arbitrary()?),
        3 => SOp::Not(u.arbitrary()?),
        4 | 5 => SOp::And(u.arbitrary()?, u.arbitrary()?),
        6 | 7 => SOp::Or(u.arbitrary()?, u.arbitrary()?),
        8 => SOp::Cond(u.arbitrary()?, u.arbitrary()?, u.arbitrary()?),
        9 => SOp::Exists(u.arbitrary()?, u.arbitrary()?),
        10 => SOp::Xor(u.arbitrary()?, u.arbitrary()?),
        11 => SOp::Iff(u.arbitrary()?, u.arbitrary()?),
        12 => SOp::Ite(u.arbitrary()?, u.arbitrary()?, u.arbitrary()?),
        13 => SOp::Compose(u.arbitrary()?, u.arbitrary()?, u.arbitrary()?),
        14 => SOp::AndDisjoint(u.arbitrary()?, u.arbitrary()?),
        16 => SOp::Dense(u.arbitrary()?),
        17 => SOp::AndDisjointNeg(u.arbitrary()?, u.arbitrary()?, u.arbitrary()?, u.arbitrary()?),
        18 => SOp::OrDisjointNeg(u.arbitrary()?, u.arbitrary()?, u.arbitrary()?, u.arbitrary()?),
        _ => SOp::OrDisjoint(u.arbitrary()?, u.arbitrary()?),
    })
}

pub fn c03_case(u: &mut Unstructured) -> Result<c03::Case> {
    let compress = u.arbitrary::<u8>()? % 4 != 0;
    let vt = vtree_case(u, if compress { 8 } else { 4 })?;
    let table_cap = match u.arbitrary::<u8>()? {
        0..=40 => None,
        x => Some(1 + (x as u16 % 32)),
    };
    let checkpoints = vec_u16(u, 3)?;
    let max = if compress { 40 } else { 24 };
    let mut ops = Vec::new();
    while !u.is_empty() && ops.len() < max {
        ops.push(sop(u, true)?);
    }
    Ok(c03::Case { vt, compress, table_cap, ops, checkpoints, embed: None })
}

pub fn cnf_case(u: &mut Unstructured, max_nv: u8, max_clauses: usize, max_len: usize) -> Result<CnfCase> {
    let nv = 1 + u.arbitrary::<u8>()? % max_nv;
    let nc = u.arbitrary::<u8>()? as usize % (max_clauses + 1);
    let mut clauses = Vec::new();
    for _ in 0..nc {
        let len = u.arbitrary::<u8>()? as usize % (max_len + 1);
        let mut c = Vec::new();
        for _ in 0..len {
            c.push((u.arbitrary::<u8>()? % nv, u.arbitrary::<bool>()?));
        }
        clauses.push(c);
    }
    Ok(CnfCase { clauses })
}

pub fn c09_case(u: &mut Unstructured) -> Result<c09::Case> {
    let cnf = cnf_case(u, 6, 10, 4)?;
    let mut ops = Vec::new();
    while !u.is_empty() && ops.len() < 40 {
        if u.arbitrary::<u8>()? % 4 == 0 {
            ops.push(c09::SOp::Pop);
        } else {
            ops.push(c09::SOp::Decide(u.arbitrary()?, u.arbitrary()?));
        }
    }
    Ok(c09::Case { cnf, ops })
}

fn selv(u: &mut Unstructured) -> Result<Vec<u8>> {
    let n = 3 + u.arbitrary::<u8>()? % 4;
    (0..n).map(|_| u.arbitrary::<u8>()).collect()
}

pub fn query(u: &mut Unstructured) -> Result<c10::Q> {
    use c10::Q;
    Ok(match u.arbitrary::<u8>()? % 19 {
        0 => Q::WmcReal(u.arbitrary()?, selv(u)?),
        1 => Q::WmcFf32(u.arbitrary()?, selv(u)?),
        2 => Q::WmcFf64(u.arbitrary()?, selv(u)?),
        3 => Q::WmcEu(u.arbitrary()?, selv(u)?),
        4 => Q::WmcComplex(u.arbitrary()?, selv(u)?),
        5 => Q::WmcPoly(u.arbitrary()?, selv(u)?),
        6 => Q::WmcBool(u.arbitrary()?, selv(u)?),
        7 => Q::Evaluate(u.arbitrary()?, u.arbitrary()?),
        8 => Q::CountNodes(u.arbitrary()?),
        9 => Q::SemHash32(u.arbitrary()?),
        10 => Q::SemHash64(u.arbitrary()?),
        11 => Q::MarginalMap(u.arbitrary()?, u.arbitrary()?, selv(u)?),
        12 => Q::Meu(u.arbitrary()?, u.arbitrary()?, selv(u)?),
        13 => Q::BbReal(u.arbitrary()?, u.arbitrary()?, selv(u)?),
        14 => Q::BbEu(u.arbitrary()?, u.arbitrary()?, selv(u)?),
        15 => Q::Smooth(u.arbitrary()?, selv(u)?),
        16 => Q::Condition(u.arbitrary()?, u.arbitrary()?, u.arbitrary()?),
        17 => {
            let a = u.arbitrary()?;
            let bits: u16 = u.arbitrary()?;
            let m = (0..8)
                .map(|i| match (bits >> (2 * i)) & 3 {
                    0 => Some(false),
                    1 => Some(true),
                    _ => None,
                })
                .collect();
            Q::ConditionModel(a, m)
        }
        _ => Q::Exists(u.arbitrary()?, u.arbitrary()?),
    })
}

pub fn c10_case(u: &mut Unstructured) -> Result<c10::Case> {
    let cfg = bdd_cfg(u, 6)?;
    let nops = u.arbitrary::<u8>()? as usize % 26;
    let mut ops = Vec::new();
    for _ in 0..nops {
        ops.push(bop(u)?);
    }
    let mut queries: Vec<c10::Q> = Vec::new();
    while !u.is_empty() && queries.len() < 24 {
        // repetitions: sometimes copy an earlier query
        if !queries.is_empty() && u.arbitrary::<u8>()? % 5 == 0 {
            let i = u.arbitrary::<u8>()? as usize % queries.len();
            let q: c10::Q = queries[i].clone();
            queries.push(q);
        } else {
            queries.push(query(u)?);
        }
    }
    Ok(c10::Case { cfg, ops, queries })
}
