//! A Boolean function as a test input: random truth-table bits (with a support mask) or a CNF.
use crate::cnfgen::*;
use crate::tt::Tt;
use proptest::prelude::*;
use serde::{Deserialize, Serialize};

#[derive(Clone, Debug, Serialize, Deserialize, PartialEq)]
pub enum FnSrc {
    /// truth table over n <= 6 variables; variables whose bit in `keep` is clear are cofactored away
    Bits { n: u8, bits: u64, keep: u8 },
    Cnf(CnfCase),
}

impl FnSrc {
    pub fn n(&self) -> usize {
        match self {
            FnSrc::Bits { n, .. } => (*n as usize).clamp(1, 6),
            FnSrc::Cnf(c) => c.num_vars(),
        }
    }
    pub fn tt(&self) -> Tt {
        match self {
            FnSrc::Bits { bits, keep, .. } => {
                let n = self.n();
                let mut t = Tt([*bits; 4]);
                for v in 0..6 {
                    if v >= n || (keep >> v) & 1 == 0 {
                        t = t.cofactor(v, false);
                    }
                }
                t
            }
            FnSrc::Cnf(c) => c.tt(),
        }
    }
    pub fn cnf(&self) -> Option<&CnfCase> {
        match self {
            FnSrc::Cnf(c) => Some(c),
            _ => None,
        }
    }
}

pub fn fnsrc_strategy() -> BoxedStrategy<FnSrc> {
    prop_oneof![
        4 => (1u8..=6, any::<u64>(), prop_oneof![3 => Just(0xFFu8), 2 => any::<u8>()])
            .prop_map(|(n, bits, keep)| FnSrc::Bits { n, bits, keep }),
        3 => cnf_strategy().prop_filter("cnf with >= 1 variable", |c| c.num_vars() >= 1).prop_map(FnSrc::Cnf),
    ]
    .boxed()
}

/// only truth-table sources (n <= 6)
pub fn fnsrc_bits_strategy() -> BoxedStrategy<FnSrc> {
    (1u8..=6, any::<u64>(), prop_oneof![3 => Just(0xFFu8), 2 => any::<u8>()])
        .prop_map(|(n, bits, keep)| FnSrc::Bits { n, bits, keep })
        .boxed()
}
