//! Runner: proptest driven from a binary, child-process workers, replay files,
//! known findings, evidence.
use proptest::strategy::{BoxedStrategy, Strategy};
use proptest::test_runner::{Config, RngAlgorithm, TestCaseError, TestError, TestRng, TestRunner};
use serde::de::DeserializeOwned;
use serde::{Deserialize, Serialize};
use serde_json::{json, Value};
use std::cell::RefCell;
use std::collections::{BTreeMap, BTreeSet, HashSet};
use std::fmt::Debug;
use std::io::Write;
use std::path::{Path, PathBuf};
use std::process::{Command, Stdio};
use std::time::{Duration, Instant};

/// root of the verification tree: /verif, or $VERIF_ROOT when a snapshot of it is being run elsewhere
pub fn verif_root() -> PathBuf {
    match std::env::var("VERIF_ROOT") {
        Ok(p) if !p.is_empty() => PathBuf::from(p),
        _ => PathBuf::from("/verif"),
    }
}

#[derive(Clone, Copy, PartialEq, Eq, Debug)]
pub enum Tier {
    Quick,
    Thorough,
}

impl Tier {
    pub fn name(self) -> &'static str {
        match self {
            Tier::Quick => "quick",
            Tier::Thorough => "thorough",
        }
    }
    pub fn parse(s: &str) -> Tier {
        match s {
            "thorough" => Tier::Thorough,
            _ => Tier::Quick,
        }
    }
    pub fn pick<T>(self, q: T, t: T) -> T {
        match self {
            Tier::Quick => q,
            Tier::Thorough => t,
        }
    }
}

#[derive(Clone, Debug, Serialize, Deserialize)]
pub struct Failure {
    /// stable defect-class key
    pub signature: String,
    /// human-readable expected/observed
    pub detail: String,
}

pub type CaseResult = Result<(), Failure>;

pub fn fail<T>(sig: &str, detail: String) -> Result<T, Failure> {
    Err(Failure {
        signature: sig.to_string(),
        detail,
    })
}

#[macro_export]
macro_rules! ensure {
    ($cond:expr, $sig:expr, $($fmt:tt)*) => {
        if !($cond) {
            return Err($crate::engine::Failure { signature: ($sig).to_string(), detail: format!($($fmt)*) });
        }
    };
}

/// per-case statistics sink
#[derive(Default, Clone, Debug, Serialize, Deserialize)]
pub struct Stats {
    pub counters: BTreeMap<String, u64>,
    #[serde(skip)]
    pub nontrivial: bool,
}

impl Stats {
    pub fn bump(&mut self, k: &str) {
        *self.counters.entry(k.to_string()).or_insert(0) += 1;
    }
    pub fn add(&mut self, k: &str, n: u64) {
        if n > 0 {
            *self.counters.entry(k.to_string()).or_insert(0) += n;
        }
    }
    pub fn flag(&mut self, k: &str, b: bool) {
        if b {
            self.bump(k)
        }
    }
    pub fn mark_nontrivial(&mut self) {
        self.nontrivial = true;
    }
}

pub trait SubCheckT {
    type Case: Clone + Debug + Serialize + DeserializeOwned + 'static;
    const NAME: &'static str;
    /// what makes a case non-trivial (goes into the evidence `rule`)
    const RULE: &'static str;
    /// how often a failing case is re-executed when confirming / replaying it; > 1 for checks whose
    /// failures depend on heap addresses (pointer-keyed hashes inside the library)
    const REPLAY_ATTEMPTS: u32 = 1;
    /// total number of cases over all workers
    fn cases(tier: Tier) -> u32;
    fn strategy(tier: Tier) -> BoxedStrategy<Self::Case>;
    fn run(case: &Self::Case, st: &mut Stats) -> CaseResult;
}

#[derive(Clone, Debug, Serialize, Deserialize)]
pub struct FailureReport {
    pub signature: String,
    pub detail: String,
    pub case: Value,
}

#[derive(Clone, Debug, Default, Serialize, Deserialize)]
pub struct WorkerReport {
    pub evaluations: u64,
    pub nt_hashes: Vec<u64>,
    pub samples: Vec<Value>,
    pub counters: BTreeMap<String, u64>,
    pub failure: Option<FailureReport>,
    /// failures that matched a `known:` entry (index into known list -> count); excluded from the search
    pub known_hits: BTreeMap<String, u64>,
    pub exhaustive: bool,
}

#[derive(Clone, Debug)]
pub struct WorkerArgs {
    pub prop: String,
    pub sub: String,
    pub tier: Tier,
    pub seed: u64,
    pub widx: u32,
    pub nworkers: u32,
    pub journal: Option<PathBuf>,
}

pub struct SubCheck {
    pub name: &'static str,
    pub rule: &'static str,
    pub worker: fn(&WorkerArgs) -> WorkerReport,
    pub replay: fn(&Value) -> Result<CaseResult, String>,
}

#[derive(Clone, Debug)]
pub struct FuzzSpec {
    pub target: &'static str,
    pub runs: u64,
    pub max_len: u32,
}

pub struct Property {
    pub id: &'static str,
    pub subs: Vec<SubCheck>,
    /// libFuzzer targets (thorough tier only) that reuse this property's run functions
    pub fuzz: Vec<FuzzSpec>,
    pub assumptions: Vec<&'static str>,
    /// minimum fraction (in percent) of non-trivial cases per sub below which the run is inconclusive
    pub nt_floor_percent: u32,
}

pub fn sub<S: SubCheckT>() -> SubCheck {
    SubCheck {
        name: S::NAME,
        rule: S::RULE,
        worker: drive::<S>,
        replay: replay_one::<S>,
    }
}

pub fn splitmix(mut x: u64) -> u64 {
    x = x.wrapping_add(0x9E37_79B9_7F4A_7C15);
    let mut z = x;
    z = (z ^ (z >> 30)).wrapping_mul(0xBF58_476D_1CE4_E5B9);
    z = (z ^ (z >> 27)).wrapping_mul(0x94D0_49BB_1331_11EB);
    z ^ (z >> 31)
}

pub fn fnv(s: &[u8]) -> u64 {
    let mut h: u64 = 0xcbf29ce484222325;
    for b in s {
        h ^= *b as u64;
        h = h.wrapping_mul(0x100000001b3);
    }
    h
}

pub fn worker_seed(a: &WorkerArgs) -> u64 {
    splitmix(
        a.seed
            ^ fnv(a.prop.as_bytes()).rotate_left(17)
            ^ fnv(a.sub.as_bytes()).rotate_left(41)
            ^ ((a.widx as u64) << 1),
    )
}

thread_local! {
    static LAST_PANIC: RefCell<Option<String>> = const { RefCell::new(None) };
}

pub fn install_quiet_panic_hook() {
    std::panic::set_hook(Box::new(|info| {
        let msg = if let Some(s) = info.payload().downcast_ref::<&str>() {
            s.to_string()
        } else if let Some(s) = info.payload().downcast_ref::<String>() {
            s.clone()
        } else {
            "<non-string panic>".to_string()
        };
        let loc = info
            .location()
            .map(|l| format!("{}:{}", l.file(), l.line()))
            .unwrap_or_default();
        LAST_PANIC.with(|p| *p.borrow_mut() = Some(format!("{} @ {}", msg, loc)));
    }));
}

fn panic_signature(msg: &str) -> String {
    // strip digits and addresses so that the class is stable across inputs
    let mut s: String = msg
        .chars()
        .map(|c| if c.is_ascii_digit() { '#' } else { c })
        .collect();
    while s.contains("##") {
        s = s.replace("##", "#");
    }
    let s: String = s.chars().take(100).collect();
    format!("panic:{}", s)
}

/// run one case, converting library panics into failures
pub fn run_guarded<S: SubCheckT>(case: &S::Case, st: &mut Stats) -> CaseResult {
    // per-case state of the walkers (label embedding) never leaks from one case into the next
    crate::walk::set_label_map(None);
    let r = std::panic::catch_unwind(std::panic::AssertUnwindSafe(|| S::run(case, st)));
    crate::walk::set_label_map(None);
    match r {
        Ok(r) => r,
        Err(_) => {
            let msg = LAST_PANIC
                .with(|p| p.borrow_mut().take())
                .unwrap_or_else(|| "<unknown panic>".into());
            if msg.contains("HARNESS-ABORT") {
                return Err(Failure {
                    signature: "harness/abort".into(),
                    detail: msg,
                });
            }
            Err(Failure {
                signature: panic_signature(&msg),
                detail: format!("library or harness panicked: {}", msg),
            })
        }
    }
}

fn case_json<C: Serialize>(c: &C) -> Value {
    serde_json::to_value(c).unwrap_or(Value::Null)
}

// ---------------------------------------------------------------------------
// known findings
// ---------------------------------------------------------------------------

#[derive(Clone, Debug)]
pub struct KnownEntry {
    pub property: String,
    pub sub: String,
    pub signature: String,
    /// substring that must occur in the canonical JSON of the (shrunk or raw) case; empty = any
    pub case_contains: String,
    pub replay: Option<String>,
    pub text: String,
}

pub fn load_known() -> Vec<KnownEntry> {
    let p = verif_root().join("known_findings.txt");
    let mut out = Vec::new();
    let Ok(s) = std::fs::read_to_string(p) else {
        return out;
    };
    for line in s.lines() {
        let line = line.trim();
        if !line.starts_with("known:") {
            continue;
        }
        let (head, text) = match line.split_once(" -- ") {
            Some((h, t)) => (h, t.to_string()),
            None => (line, String::new()),
        };
        let mut e = KnownEntry {
            property: String::new(),
            sub: String::new(),
            signature: String::new(),
            case_contains: String::new(),
            replay: None,
            text,
        };
        for tok in head["known:".len()..].split_whitespace() {
            if let Some((k, v)) = tok.split_once('=') {
                match k {
                    "property" => e.property = v.to_string(),
                    "sub" => e.sub = v.to_string(),
                    "signature" => e.signature = v.to_string(),
                    "case_contains" => e.case_contains = v.to_string(),
                    "replay" => e.replay = Some(v.to_string()),
                    _ => {}
                }
            }
        }
        if !e.property.is_empty() && !e.signature.is_empty() {
            out.push(e);
        }
    }
    out
}

fn known_match(known: &[KnownEntry], prop: &str, sub: &str, f: &Failure, case: &Value) -> Option<usize> {
    for (i, k) in known.iter().enumerate() {
        if k.property == prop
            && (k.sub.is_empty() || k.sub == sub)
            && k.signature == f.signature.replace(' ', "_")
        {
            if k.case_contains.is_empty() {
                return Some(i);
            }
            let s = case.to_string().replace(' ', "");
            if s.contains(&k.case_contains) {
                return Some(i);
            }
        }
    }
    None
}

// ---------------------------------------------------------------------------
// generic proptest worker
// ---------------------------------------------------------------------------

pub fn cases_for_worker(total: u32, widx: u32, nworkers: u32) -> u32 {
    let base = total / nworkers;
    let extra = if widx < total % nworkers { 1 } else { 0 };
    base + extra
}

pub struct Collector {
    pub report: WorkerReport,
    pub seen: HashSet<u64>,
    pub frozen: bool,
    pub max_samples: usize,
}

impl Collector {
    pub fn new() -> Self {
        Collector {
            report: WorkerReport::default(),
            seen: HashSet::new(),
            frozen: false,
            max_samples: 3,
        }
    }
    pub fn record(&mut self, case: &Value, st: &Stats) {
        if self.frozen {
            return;
        }
        self.report.evaluations += 1;
        for (k, v) in st.counters.iter() {
            *self.report.counters.entry(k.clone()).or_insert(0) += *v;
        }
        if st.nontrivial {
            let s = case.to_string();
            let h = fnv(s.as_bytes());
            if self.seen.insert(h) && self.report.samples.len() < self.max_samples && s.len() < 6000 {
                self.report.samples.push(case.clone());
            }
        }
    }
    pub fn finish(mut self) -> WorkerReport {
        self.report.nt_hashes = self.seen.into_iter().collect();
        self.report.nt_hashes.sort_unstable();
        self.report
    }
}

impl Default for Collector {
    fn default() -> Self {
        Self::new()
    }
}

pub fn drive<S: SubCheckT>(a: &WorkerArgs) -> WorkerReport {
    let cases = cases_for_worker(S::cases(a.tier), a.widx, a.nworkers);
    let mut col = Collector::new();
    if cases == 0 {
        return col.finish();
    }
    let known = load_known();
    let mut cfg = Config::default();
    cfg.cases = cases;
    cfg.failure_persistence = None;
    cfg.max_shrink_iters = a.tier.pick(6000, 20000);
    cfg.max_shrink_time = 0;
    cfg.verbose = 0;
    cfg.max_global_rejects = 65536;
    cfg.max_local_rejects = 65536;
    cfg.source_file = None;
    let seed = worker_seed(a);
    let mut seed_bytes = [0u8; 32];
    for i in 0..4 {
        seed_bytes[i * 8..(i + 1) * 8].copy_from_slice(&splitmix(seed.wrapping_add(i as u64)).to_le_bytes());
    }
    let rng = TestRng::from_seed(RngAlgorithm::ChaCha, &seed_bytes);
    let mut runner = TestRunner::new_with_rng(cfg, rng);
    let strat = S::strategy(a.tier);
    let col_cell = RefCell::new(&mut col);
    let journal = a.journal.clone();
    let prop = a.prop.clone();
    let subname = a.sub.clone();
    let res = runner.run(&strat, |case| {
        let cj = case_json(&case);
        if let Some(j) = &journal {
            let _ = std::fs::write(j, cj.to_string());
        }
        let mut st = Stats::default();
        let r = run_guarded::<S>(&case, &mut st);
        let mut c = col_cell.borrow_mut();
        match r {
            Ok(()) => {
                c.record(&cj, &st);
                Ok(())
            }
            Err(f) => {
                if let Some(i) = known_match(&known, &prop, &subname, &f, &cj) {
                    if !c.frozen {
                        let key = format!("{}", i);
                        *c.report.known_hits.entry(key).or_insert(0) += 1;
                        c.report.evaluations += 1;
                    }
                    return Ok(());
                }
                if !c.frozen {
                    c.report.evaluations += 1;
                }
                c.frozen = true;
                Err(TestCaseError::fail(format!("{}: {}", f.signature, f.detail)))
            }
        }
    });
    drop(col_cell);
    match res {
        Ok(()) => {}
        Err(TestError::Fail(reason, shrunk)) => {
            let again = run_attempts::<S>(&shrunk);
            let (sig, detail) = match again {
                Err(f) => (f.signature, f.detail),
                Ok(()) => {
                    let r = reason.message().to_string();
                    let sig = r.split(": ").next().unwrap_or("unknown").to_string();
                    (format!("{}(nondeterministic)", sig), r)
                }
            };
            col.report.failure = Some(FailureReport {
                signature: sig,
                detail,
                case: case_json(&shrunk),
            });
        }
        Err(TestError::Abort(reason)) => {
            col.report.failure = Some(FailureReport {
                signature: "harness/abort".into(),
                detail: format!("proptest aborted: {}", reason.message()),
                case: Value::Null,
            });
        }
    }
    col.finish()
}

pub fn replay_one<S: SubCheckT>(v: &Value) -> Result<CaseResult, String> {
    let case: S::Case = serde_json::from_value(v.clone()).map_err(|e| format!("cannot decode case: {e}"))?;
    Ok(run_attempts::<S>(&case))
}

/// run a case up to REPLAY_ATTEMPTS times (with the heap perturbed in between) and return the first failure
pub fn run_attempts<S: SubCheckT>(case: &S::Case) -> CaseResult {
    let mut pads: Vec<Vec<u8>> = Vec::new();
    for k in 0..S::REPLAY_ATTEMPTS.max(1) {
        let mut st = Stats::default();
        let r = run_guarded::<S>(case, &mut st);
        if r.is_err() {
            return r;
        }
        pads.push(vec![0u8; 1000 + 4096 * (k as usize % 7) + 16 * k as usize]);
    }
    Ok(())
}

/// helper for hand-written (non-proptest) workers: iterate `total` items split across workers
pub fn my_slice(total: u64, a: &WorkerArgs) -> (u64, u64) {
    let n = a.nworkers as u64;
    let w = a.widx as u64;
    let lo = total * w / n;
    let hi = total * (w + 1) / n;
    (lo, hi)
}

// ---------------------------------------------------------------------------
// replay files
// ---------------------------------------------------------------------------

#[derive(Clone, Debug, Serialize, Deserialize)]
pub struct ReplayFile {
    pub property: String,
    pub sub: String,
    pub signature: String,
    pub detail: String,
    pub case: Value,
}

fn slug(s: &str) -> String {
    let t: String = s
        .chars()
        .map(|c| if c.is_ascii_alphanumeric() { c } else { '-' })
        .collect();
    t.chars().take(48).collect()
}

pub fn write_failure_file(prop: &str, sub: &str, f: &FailureReport) -> PathBuf {
    let dir = verif_root().join("work").join("failures").join(prop);
    let _ = std::fs::create_dir_all(&dir);
    let rf = ReplayFile {
        property: prop.to_string(),
        sub: sub.to_string(),
        signature: f.signature.clone(),
        detail: f.detail.clone(),
        case: f.case.clone(),
    };
    let body = serde_json::to_string_pretty(&rf).unwrap();
    let name = format!("{}-{}-{:016x}.json", sub, slug(&f.signature), fnv(f.case.to_string().as_bytes()));
    let path = dir.join(name);
    let _ = std::fs::write(&path, body);
    path
}

/// returns (result, replayfile)
pub fn replay_file(props: &[Property], path: &Path) -> Result<(ReplayFile, CaseResult), String> {
    let s = std::fs::read_to_string(path).map_err(|e| format!("{}: {e}", path.display()))?;
    let rf: ReplayFile = serde_json::from_str(&s).map_err(|e| format!("{}: {e}", path.display()))?;
    let p = props
        .iter()
        .find(|p| p.id == rf.property)
        .ok_or_else(|| format!("unknown property {}", rf.property))?;
    let sc = p
        .subs
        .iter()
        .find(|s| s.name == rf.sub)
        .ok_or_else(|| format!("unknown sub-check {}/{}", rf.property, rf.sub))?;
    let r = (sc.replay)(&rf.case)?;
    Ok((rf, r))
}

// ---------------------------------------------------------------------------
// parent: orchestrate workers, evidence
// ---------------------------------------------------------------------------

struct Job {
    sub: String,
    widx: u32,
    child: Option<std::process::Child>,
    started: Instant,
    out_path: PathBuf,
    done: Option<Result<WorkerReport, String>>,
}

fn spawn_worker(exe: &Path, a: &WorkerArgs, out_path: &Path) -> std::io::Result<std::process::Child> {
    let out = std::fs::File::create(out_path)?;
    let mut c = Command::new(exe);
    c.arg("worker")
        .arg("--prop")
        .arg(&a.prop)
        .arg("--sub")
        .arg(&a.sub)
        .arg("--tier")
        .arg(a.tier.name())
        .arg("--seed")
        .arg(a.seed.to_string())
        .arg("--widx")
        .arg(a.widx.to_string())
        .arg("--nworkers")
        .arg(a.nworkers.to_string());
    if let Some(j) = &a.journal {
        c.arg("--journal").arg(j);
    }
    c.stdin(Stdio::null()).stdout(out).stderr(Stdio::null());
    c.env("RUST_BACKTRACE", "0");
    c.spawn()
}

fn parse_report(path: &Path) -> Result<WorkerReport, String> {
    let s = std::fs::read_to_string(path).map_err(|e| e.to_string())?;
    for line in s.lines().rev() {
        if let Some(rest) = line.strip_prefix("REPORT ") {
            return serde_json::from_str(rest).map_err(|e| format!("bad report: {e}"));
        }
    }
    Err("worker produced no report".into())
}

pub struct CheckOutcome {
    pub exit: i32,
}

pub fn run_check(props: &[Property], id: &str, tier: Tier, seed: u64) -> CheckOutcome {
    let t0 = Instant::now();
    let Some(p) = props.iter().find(|p| p.id == id) else {
        eprintln!("unknown property {id}");
        return CheckOutcome { exit: 2 };
    };
    let exe = std::env::current_exe().expect("current_exe");
    let work = verif_root().join("work").join("run").join(format!("{}-{}-{}", id, tier.name(), std::process::id()));
    let _ = std::fs::create_dir_all(&work);
    let known = load_known();
    // failures of earlier runs are stale: the tree may have changed since
    let _ = std::fs::remove_dir_all(verif_root().join("work").join("failures").join(id));
    let mut violations: Vec<(String, PathBuf)> = Vec::new();
    let mut known_lines: BTreeSet<String> = BTreeSet::new();
    let mut inconclusive: Vec<String> = Vec::new();

    // 1. replay tier: committed regression inputs
    let mut replays_run = 0u64;
    let rdir = verif_root().join("replays").join(id);
    let mut files: Vec<PathBuf> = std::fs::read_dir(&rdir)
        .map(|d| d.filter_map(|e| e.ok().map(|e| e.path())).filter(|p| p.extension().map(|e| e == "json").unwrap_or(false)).collect())
        .unwrap_or_default();
    files.sort();
    if std::env::var("VERIF_SKIP_REPLAYS").is_ok() {
        // sensitivity audits only: judge the generated search alone
        files.clear();
    }
    install_quiet_panic_hook();
    for f in files.iter() {
        // run each replay in a child so that a crash cannot kill the checker
        let st = Command::new(&exe)
            .arg("replay")
            .arg(f)
            .arg("--raw")
            .stdin(Stdio::null())
            .stdout(Stdio::piped())
            .stderr(Stdio::null())
            .env("RUST_BACKTRACE", "0")
            .output();
        replays_run += 1;
        match st {
            Ok(o) => {
                let out = String::from_utf8_lossy(&o.stdout).to_string();
                let code = o.status.code().unwrap_or(-1);
                if code == 0 {
                    continue;
                }
                if code == 1 {
                    // failing regression input: known or violation?
                    let sig = out
                        .lines()
                        .find_map(|l| l.strip_prefix("SIGNATURE "))
                        .unwrap_or("")
                        .to_string();
                    let rf: Option<ReplayFile> = std::fs::read_to_string(f).ok().and_then(|s| serde_json::from_str(&s).ok());
                    let (subn, casev) = rf.map(|r| (r.sub, r.case)).unwrap_or((String::new(), Value::Null));
                    let fl = Failure { signature: sig.clone(), detail: String::new() };
                    if let Some(i) = known_match(&known, id, &subn, &fl, &casev) {
                        known_lines.insert(format!("KNOWN-FINDING: property={} {} [{}]", id, known[i].text, known[i].signature));
                    } else {
                        violations.push((sig, f.clone()));
                    }
                } else {
                    // crash while replaying = violation with that input (library died)
                    violations.push((format!("crash(exit {code})"), f.clone()));
                }
            }
            Err(e) => inconclusive.push(format!("cannot run replay {}: {e}", f.display())),
        }
    }

    // 2. generated search
    let nworkers: u32 = match std::env::var("VERIF_WORKERS").ok().and_then(|s| s.parse().ok()) {
        Some(n) => n,
        None => tier.pick(4, 16),
    };
    let max_par: usize = std::env::var("VERIF_PAR").ok().and_then(|s| s.parse().ok()).unwrap_or(16);
    let timeout = Duration::from_secs(
        std::env::var("VERIF_JOB_TIMEOUT_S").ok().and_then(|s| s.parse().ok()).unwrap_or(tier.pick(900, 7200)),
    );
    let mut jobs: Vec<Job> = Vec::new();
    for sc in p.subs.iter() {
        for w in 0..nworkers {
            jobs.push(Job {
                sub: sc.name.to_string(),
                widx: w,
                child: None,
                started: Instant::now(),
                out_path: work.join(format!("{}-{}.out", sc.name, w)),
                done: None,
            });
        }
    }
    let mk_args = |sub: &str, widx: u32, journal: Option<PathBuf>| WorkerArgs {
        prop: id.to_string(),
        sub: sub.to_string(),
        tier,
        seed,
        widx,
        nworkers,
        journal,
    };
    let mut next = 0usize;
    loop {
        let running = jobs.iter().filter(|j| j.child.is_some()).count();
        let mut started_any = false;
        if running < max_par && next < jobs.len() {
            let j = &mut jobs[next];
            let a = mk_args(&j.sub, j.widx, None);
            match spawn_worker(&exe, &a, &j.out_path) {
                Ok(c) => {
                    j.child = Some(c);
                    j.started = Instant::now();
                }
                Err(e) => j.done = Some(Err(format!("spawn failed: {e}"))),
            }
            next += 1;
            started_any = true;
        }
        let mut all_done = next >= jobs.len();
        for j in jobs.iter_mut() {
            if let Some(c) = j.child.as_mut() {
                match c.try_wait() {
                    Ok(Some(status)) => {
                        j.child = None;
                        let rep = parse_report(&j.out_path);
                        j.done = Some(match rep {
                            Ok(r) => Ok(r),
                            Err(e) => Err(format!("worker died ({status}): {e}")),
                        });
                    }
                    Ok(None) => {
                        all_done = false;
                        if j.started.elapsed() > timeout {
                            let _ = c.kill();
                            let _ = c.wait();
                            j.child = None;
                            j.done = Some(Err("TIMEOUT".into()));
                        }
                    }
                    Err(e) => {
                        j.child = None;
                        j.done = Some(Err(format!("wait failed: {e}")));
                    }
                }
            }
        }
        if all_done {
            break;
        }
        if !started_any {
            std::thread::sleep(Duration::from_millis(15));
        }
    }

    // 3. merge
    let mut total_eval = 0u64;
    let mut counters: BTreeMap<String, u64> = BTreeMap::new();
    let mut per_sub: BTreeMap<String, (u64, BTreeSet<u64>, Vec<Value>, bool)> = BTreeMap::new();
    let mut known_hits: BTreeMap<usize, u64> = BTreeMap::new();
    for j in jobs.iter() {
        let entry = per_sub.entry(j.sub.clone()).or_insert((0, BTreeSet::new(), Vec::new(), false));
        match j.done.as_ref().unwrap() {
            Ok(r) => {
                total_eval += r.evaluations;
                entry.0 += r.evaluations;
                entry.1.extend(r.nt_hashes.iter().copied());
                if entry.2.len() < 3 {
                    for s in r.samples.iter() {
                        if entry.2.len() < 3 {
                            entry.2.push(s.clone());
                        }
                    }
                }
                entry.3 |= r.exhaustive;
                for (k, v) in r.counters.iter() {
                    *counters.entry(format!("{}.{}", j.sub, k)).or_insert(0) += *v;
                }
                for (k, v) in r.known_hits.iter() {
                    if let Ok(i) = k.parse::<usize>() {
                        *known_hits.entry(i).or_insert(0) += *v;
                    }
                }
                if let Some(f) = &r.failure {
                    if f.signature == "harness/abort" {
                        inconclusive.push(format!("{}[{}]: {}", j.sub, j.widx, f.detail));
                    } else {
                        let path = write_failure_file(id, &j.sub, f);
                        violations.push((f.signature.clone(), path));
                    }
                }
            }
            Err(e) if e == "TIMEOUT" => {
                inconclusive.push(format!("{}[{}]: watchdog expired after {:?} (hang or overload; inconclusive, not a violation)", j.sub, j.widx, timeout));
            }
            Err(e) => {
                // the worker died without a report: recover the crashing case in journal mode
                let jpath = work.join(format!("{}-{}.journal", j.sub, j.widx));
                let a = mk_args(&j.sub, j.widx, Some(jpath.clone()));
                let out2 = work.join(format!("{}-{}.out2", j.sub, j.widx));
                let mut recovered = false;
                if let Ok(mut c) = spawn_worker(&exe, &a, &out2) {
                    let st = Instant::now();
                    loop {
                        match c.try_wait() {
                            Ok(Some(_)) => break,
                            Ok(None) => {
                                if st.elapsed() > timeout {
                                    let _ = c.kill();
                                    let _ = c.wait();
                                    break;
                                }
                                std::thread::sleep(Duration::from_millis(20));
                            }
                            Err(_) => break,
                        }
                    }
                    if parse_report(&out2).is_err() {
                        if let Ok(s) = std::fs::read_to_string(&jpath) {
                            if let Ok(v) = serde_json::from_str::<Value>(&s) {
                                let f = FailureReport {
                                    signature: "crash/process-died".into(),
                                    detail: format!("worker process died while executing this case ({e})"),
                                    case: v,
                                };
                                let path = write_failure_file(id, &j.sub, &f);
                                violations.push((f.signature.clone(), path));
                                recovered = true;
                            }
                        }
                    }
                }
                if !recovered {
                    inconclusive.push(format!("{}[{}]: {}", j.sub, j.widx, e));
                }
            }
        }
    }

    for (i, n) in known_hits.iter() {
        if let Some(k) = known.get(*i) {
            known_lines.insert(format!("KNOWN-FINDING: property={} {} [{}]", id, k.text, k.signature));
            counters.insert(format!("excluded_known.{}", k.signature), *n);
        }
    }
    // every listed known finding of this property is reported, hit or not
    for k in known.iter().filter(|k| k.property == id) {
        known_lines.insert(format!("KNOWN-FINDING: property={} {} [{}]", id, k.text, k.signature));
    }

    // 4. non-triviality floor
    let mut distinct_nt = 0u64;
    let mut rule = String::new();
    let mut samples: Vec<Value> = Vec::new();
    let mut sub_summ = serde_json::Map::new();
    let mut all_exhaustive = true;
    for sc in p.subs.iter() {
        let (ev, set, smp, exh) = per_sub.get(sc.name).cloned().unwrap_or((0, BTreeSet::new(), vec![], false));
        distinct_nt += set.len() as u64;
        all_exhaustive &= exh;
        if !rule.is_empty() {
            rule.push_str(" || ");
        }
        rule.push_str(&format!("[{}] {}", sc.name, sc.rule));
        for s in smp.iter().take(2) {
            samples.push(json!({"sub": sc.name, "case": s}));
        }
        sub_summ.insert(
            sc.name.to_string(),
            json!({"evaluations": ev, "distinct_nontrivial": set.len(), "exhaustive": exh}),
        );
        if violations.is_empty() && ev > 0 && (set.len() as u64) * 100 < ev * (p.nt_floor_percent as u64) {
            inconclusive.push(format!(
                "sub-check {} produced only {} distinct non-trivial cases out of {} (floor {}%): generator is vacuous",
                sc.name,
                set.len(),
                ev,
                p.nt_floor_percent
            ));
        }
        if ev == 0 && violations.is_empty() {
            inconclusive.push(format!("sub-check {} executed no case", sc.name));
        }
    }

    // 5. coverage-guided stage (thorough tier): libFuzzer + ASan over the same run functions
    let mut fuzz_ev: Vec<Value> = Vec::new();
    let mut fuzz_runs_total = 0u64;
    if tier == Tier::Thorough && violations.is_empty() && std::env::var("VERIF_NO_FUZZ").is_err() {
        for spec in p.fuzz.iter() {
            let (ev, runs, viol) = run_fuzz_stage(id, spec, seed);
            fuzz_runs_total += runs;
            fuzz_ev.push(ev);
            for (sig, path) in viol {
                violations.push((sig, path));
            }
        }
    }
    total_eval += fuzz_runs_total;

    let wall = t0.elapsed().as_secs_f64();
    let mut assumptions_out: Vec<String> = p.assumptions.iter().map(|x| x.to_string()).collect();
    if let Ok(note) = std::env::var("VERIF_EXTRA_NOTE") {
        if !note.is_empty() {
            assumptions_out.push(note);
        }
    }
    let evidence = json!({
        "property_id": id,
        "tier": tier.name(),
        "seed": seed as i64,
        "level": "exploration",
        "coverage": {
            "evaluations": total_eval + replays_run,
            "distinct_nontrivial": distinct_nt,
            "rule": rule,
            "samples": samples,
            "exhaustive": all_exhaustive && !p.subs.is_empty(),
            "per_sub": Value::Object(sub_summ),
            "histogram": counters,
            "replays_rerun": replays_run,
            "fuzz": fuzz_ev,
            "workers": nworkers,
            "inconclusive": inconclusive,
            "known_findings_reported": known_lines.iter().cloned().collect::<Vec<_>>(),
        },
        "assumptions": assumptions_out,
        "wall_s": wall,
        "violations": violations.len(),
    });
    let edir = verif_root().join("evidence");
    let _ = std::fs::create_dir_all(&edir);
    let epath = edir.join(format!("{}.json", id));
    if std::env::var("VERIF_NO_EVIDENCE").is_ok() {
        // auxiliary pass (see run_check.sh): its verdict counts, the evidence file is written by the main pass
    } else if let Ok(mut f) = std::fs::File::create(&epath) {
        let _ = f.write_all(serde_json::to_string_pretty(&evidence).unwrap().as_bytes());
        let _ = f.write_all(b"\n");
    }
    let _ = std::fs::remove_dir_all(&work);

    for l in known_lines.iter() {
        println!("{}", l);
    }
    println!(
        "{} {}: {} cases ({} distinct non-trivial), {} replays, {:.1}s",
        id,
        tier.name(),
        total_eval,
        distinct_nt,
        replays_run,
        wall
    );
    if !violations.is_empty() {
        let mut seen = BTreeSet::new();
        for (sig, path) in violations.iter() {
            if seen.insert(sig.clone()) {
                println!("VIOLATION property={} replay={}", id, path.display());
                println!("  signature: {}", sig);
            }
        }
        return CheckOutcome { exit: 1 };
    }
    if !inconclusive.is_empty() {
        for i in inconclusive.iter() {
            println!("INCONCLUSIVE {}: {}", id, i);
        }
        return CheckOutcome { exit: 2 };
    }
    CheckOutcome { exit: 0 }
}

/// run one libFuzzer campaign of fixed work; infrastructure problems are recorded, never fatal
fn run_fuzz_stage(id: &str, spec: &FuzzSpec, seed: u64) -> (Value, u64, Vec<(String, PathBuf)>) {
    let fuzz_dir = verif_root().join("fuzz");
    let work = verif_root().join("work").join("fuzz").join(format!("{}-{}-{}", id, spec.target, std::process::id()));
    let corpus = work.join("corpus");
    let artifacts = work.join("artifacts");
    let _ = std::fs::create_dir_all(&corpus);
    let _ = std::fs::create_dir_all(&artifacts);
    let mut seeds = 0u64;
    if let Ok(rd) = std::fs::read_dir(fuzz_dir.join("corpus").join(spec.target)) {
        for e in rd.flatten() {
            if std::fs::copy(e.path(), corpus.join(e.file_name())).is_ok() {
                seeds += 1;
            }
        }
    }
    let t0 = Instant::now();
    let out = Command::new("cargo")
        .current_dir(&fuzz_dir)
        .env("CARGO_NET_OFFLINE", "true")
        .env("FUZZ_PROP", id)
        .env("RUST_BACKTRACE", "0")
        // -detect_leaks=0 only switches off libFuzzer's per-input leak check; the end-of-process check of the
        // sanitizer runtime would still turn the library's arena leak into a non-zero exit status
        .env("ASAN_OPTIONS", "detect_leaks=0")
        .env("LSAN_OPTIONS", "detect_leaks=0")
        .args(["+nightly", "fuzz", "run", "--fuzz-dir", "."])
        .arg(spec.target)
        .arg(&corpus)
        .arg("--")
        .arg(format!("-runs={}", spec.runs))
        .arg(format!("-seed={}", (seed % 0xFFFF_FFFF).max(1)))
        .arg("-len_control=0")
        .arg("-detect_leaks=0")
        // the library never frees what its bump arenas hold (every SddOr's Vec leaks when a builder goes away), so
        // the resident set of a long in-process campaign grows steadily; libFuzzer's default 2 GB cap would end the
        // stage with an out-of-memory report that says nothing about the property
        .arg("-rss_limit_mb=0")
        .arg("-malloc_limit_mb=0")
        // safety net only: the stage is sized by -runs; if the machine is so loaded that this is hit, fewer
        // executions are reported in the evidence, never a verdict
        .arg("-max_total_time=2400")
        .arg(format!("-max_len={}", spec.max_len))
        .arg(format!("-artifact_prefix={}/", artifacts.display()))
        .arg("-print_final_stats=1")
        .stdin(Stdio::null())
        .output();
    let secs = t0.elapsed().as_secs_f64();
    let mut viol = Vec::new();
    let (status, runs) = match out {
        Err(e) => (format!("unavailable: cannot start cargo fuzz: {e}"), 0),
        Ok(o) => {
            let text = format!("{}\n{}", String::from_utf8_lossy(&o.stdout), String::from_utf8_lossy(&o.stderr));
            let mut runs = 0u64;
            for l in text.lines() {
                if let Some(r) = l.strip_prefix("stat::number_of_executed_units:") {
                    runs = r.trim().parse().unwrap_or(0);
                }
                if let Some(rest) = l.strip_prefix("FUZZ-VIOLATION ") {
                    let mut prop = "";
                    let mut replay = "";
                    let mut sig = "";
                    for tok in rest.split_whitespace() {
                        if let Some(v) = tok.strip_prefix("property=") {
                            prop = v;
                        } else if let Some(v) = tok.strip_prefix("replay=") {
                            replay = v;
                        } else if let Some(v) = tok.strip_prefix("signature=") {
                            sig = v;
                        }
                    }
                    if prop == id {
                        viol.push((sig.to_string(), PathBuf::from(replay)));
                    }
                }
            }
            if !viol.is_empty() {
                ("violation".to_string(), runs)
            } else if o.status.success() {
                ("ok".to_string(), runs)
            } else if text.contains("ERROR: libFuzzer: out-of-memory") || text.contains("ERROR: libFuzzer: timeout") {
                // resource limits of the fuzzing process are never a verdict
                ("unavailable: the fuzzing process hit a resource limit (out of memory / time), which is not a verdict".to_string(), runs)
            } else if text.contains("ERROR: AddressSanitizer") || text.contains("ERROR: libFuzzer") {
                // a crash without a semantic report: memory error or abort inside the library
                let mut saved = None;
                if let Ok(rd) = std::fs::read_dir(&artifacts) {
                    for e in rd.flatten() {
                        let dst = verif_root().join("work").join("failures").join(id);
                        let _ = std::fs::create_dir_all(&dst);
                        let to = dst.join(format!("fuzz-{}-{}", spec.target, e.file_name().to_string_lossy()));
                        if std::fs::copy(e.path(), &to).is_ok() {
                            saved = Some(to);
                        }
                    }
                }
                match saved {
                    Some(pth) => {
                        viol.push(("crash/sanitizer-or-abort-in-fuzz-target".to_string(), pth));
                        ("crash".to_string(), runs)
                    }
                    None => ("unavailable: fuzzer failed without artifact".to_string(), runs),
                }
            } else {
                let tail: String = text.lines().rev().take(4).collect::<Vec<_>>().join(" | ");
                (format!("unavailable: {}", tail), runs)
            }
        }
    };
    let _ = std::fs::remove_dir_all(&work);
    (
        json!({"engine": "cargo-fuzz/libFuzzer+ASan", "target": spec.target, "runs_requested": spec.runs, "runs_executed": runs, "seed_corpus_files": seeds, "max_len": spec.max_len, "status": status, "wall_s": secs}),
        runs,
        viol,
    )
}

pub fn worker_main(props: &[Property], a: &WorkerArgs) -> i32 {
    install_quiet_panic_hook();
    let Some(p) = props.iter().find(|p| p.id == a.prop) else {
        return 2;
    };
    let Some(sc) = p.subs.iter().find(|s| s.name == a.sub) else {
        return 2;
    };
    let rep = (sc.worker)(a);
    println!("REPORT {}", serde_json::to_string(&rep).unwrap());
    0
}

/// strategy helper: map a u16 monotonically onto 0..len (len >= 1)
pub fn pick(i: u16, len: usize) -> usize {
    debug_assert!(len >= 1);
    ((i as usize) * len) >> 16
}

pub fn boxed<S: Strategy + 'static>(s: S) -> BoxedStrategy<S::Value> {
    s.boxed()
}
