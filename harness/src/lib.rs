pub mod tt;
#[macro_use]
pub mod engine;
pub mod walk;
pub mod big;
pub mod bighist;
pub mod prodform;
#[macro_use]
pub mod bddi;
pub mod cnfgen;
pub mod oracle;
pub mod vtgen;
pub mod sddi;
pub mod exprgen;
pub mod semi;
pub mod fnsrc;
pub mod textgen;
pub mod props;
pub mod decode;
pub mod fuzzrt;
