//! SDD operation histories: case types, strategies and an interpreter over any `SddBuilder`.
use crate::bddi::idx_strategy;
use crate::engine::pick;
use crate::tt::Tt;
use crate::vtgen::*;
use proptest::prelude::*;
use rsdd::builder::sdd::SddBuilder;
use rsdd::repr::{DDNNFPtr, SddPtr, VarLabel};
use serde::{Deserialize, Serialize};

#[derive(Clone, Debug, Serialize, Deserialize, PartialEq)]
pub enum SOp {
    Lit(u8, bool),
    Const(bool),
    Not(u16),
    And(u16, u16),
    Or(u16, u16),
    Xor(u16, u16),
    Iff(u16, u16),
    Ite(u16, u16, u16),
    Cond(u16, u8, bool),
    Exists(u16, u8),
    Compose(u16, u8, u16),
    /// and / or of entry a with the first decision-node entry (searching from b) whose support is disjoint from
    /// a's: operands normalised for independent or nested vtree nodes, which uniform picks rarely produce
    AndDisjoint(u16, u16),
    OrDisjoint(u16, u16),
    /// the same with either operand negated first (complemented decision nodes at independent or nested
    /// vtree positions)
    AndDisjointNeg(u16, u16, bool, bool),
    OrDisjointNeg(u16, u16, bool, bool),
    /// re-derive pool entry i from its truth table as a disjunction of cubes, variables conjoined in the
    /// order given by the keys (a different construction route for the same function)
    Rebuild(u16, Vec<u16>),
    /// a function given by its whole truth table (restricted to the builder's variables), built by Shannon
    /// expansion with and/or/negate: dense functions give decision nodes with many elements, which
    /// operations over literals and a few dozen connectives never reach
    Dense([u64; 4]),
    /// compile_cnf / compile_logical_expr / compile_plan of a small input over the builder's variables (variable
    /// bytes are scaled to the vtree's leaves): further routes by which diagrams enter a builder
    Cnf(Vec<Vec<(u8, bool)>>),
    Expr(crate::exprgen::Ex),
    Plan(crate::exprgen::Pl),
    /// sibling operations on the same (f, v, g) in a scrambled order (see BOp::Siblings); with `ite_family` false only
    /// condition / exists / and / or take part
    Siblings(u16, u8, u16, u16, bool),
}

impl SOp {
    pub fn kind(&self) -> &'static str {
        match self {
            SOp::Lit(..) => "lit",
            SOp::Const(..) => "const",
            SOp::Not(..) => "not",
            SOp::And(..) => "and",
            SOp::Or(..) => "or",
            SOp::Xor(..) => "xor",
            SOp::Iff(..) => "iff",
            SOp::Ite(..) => "ite",
            SOp::Cond(..) => "cond",
            SOp::Exists(..) => "exists",
            SOp::Compose(..) => "compose",
            SOp::Rebuild(..) => "rebuild",
            SOp::AndDisjoint(..) | SOp::AndDisjointNeg(..) => "and",
            SOp::OrDisjoint(..) | SOp::OrDisjointNeg(..) => "or",
            SOp::Dense(..) => "dense",
            SOp::Siblings(..) => "siblings",
            SOp::Cnf(..) => "compile_cnf",
            SOp::Expr(..) => "compile_logical_expr",
            SOp::Plan(..) => "compile_plan",
        }
    }
}

pub fn sop_strategy(with_ite_family: bool, with_rebuild: bool) -> BoxedStrategy<SOp> {
    sop_strategy_ext(with_ite_family, with_rebuild, false)
}

pub fn sop_strategy_ext(with_ite_family: bool, with_rebuild: bool, with_dense: bool) -> BoxedStrategy<SOp> {
    let mut v: Vec<(u32, BoxedStrategy<SOp>)> = vec![
        (4, (any::<u8>(), any::<bool>()).prop_map(|(v, p)| SOp::Lit(v, p)).boxed()),
        (1, any::<bool>().prop_map(SOp::Const).boxed()),
        (2, idx_strategy().prop_map(SOp::Not).boxed()),
        (8, (idx_strategy(), idx_strategy()).prop_map(|(a, b)| SOp::And(a, b)).boxed()),
        (7, (idx_strategy(), idx_strategy()).prop_map(|(a, b)| SOp::Or(a, b)).boxed()),
        (3, (idx_strategy(), any::<u8>(), any::<bool>()).prop_map(|(a, v, b)| SOp::Cond(a, v, b)).boxed()),
        (3, (idx_strategy(), any::<u8>()).prop_map(|(a, v)| SOp::Exists(a, v)).boxed()),
        (3, (idx_strategy(), idx_strategy()).prop_map(|(a, b)| SOp::AndDisjoint(a, b)).boxed()),
        (2, (idx_strategy(), idx_strategy()).prop_map(|(a, b)| SOp::OrDisjoint(a, b)).boxed()),
        (2, (idx_strategy(), idx_strategy(), any::<bool>(), any::<bool>()).prop_map(|(a, b, x, y)| SOp::AndDisjointNeg(a, b, x, y)).boxed()),
        (1, (idx_strategy(), idx_strategy(), any::<bool>(), any::<bool>()).prop_map(|(a, b, x, y)| SOp::OrDisjointNeg(a, b, x, y)).boxed()),
    ];
    v.push((2, (idx_strategy(), any::<u8>(), idx_strategy(), any::<u16>()).prop_map(move |(f, x, g, s)| SOp::Siblings(f, x, g, s, with_ite_family)).boxed()));
    if with_ite_family {
        v.push((3, (idx_strategy(), idx_strategy()).prop_map(|(a, b)| SOp::Xor(a, b)).boxed()));
        v.push((3, (idx_strategy(), idx_strategy()).prop_map(|(a, b)| SOp::Iff(a, b)).boxed()));
        v.push((4, (idx_strategy(), idx_strategy(), idx_strategy()).prop_map(|(a, b, c)| SOp::Ite(a, b, c)).boxed()));
        v.push((2, (idx_strategy(), any::<u8>(), idx_strategy()).prop_map(|(a, v, g)| SOp::Compose(a, v, g)).boxed()));
    }
    if with_rebuild {
        v.push((2, (idx_strategy(), proptest::collection::vec(any::<u16>(), 8)).prop_map(|(a, k)| SOp::Rebuild(a, k)).boxed()));
    }
    if with_dense {
        v.push((2, any::<[u64; 4]>().prop_map(SOp::Dense).boxed()));
    }
    v.push((1, proptest::collection::vec(proptest::collection::vec((any::<u8>(), any::<bool>()), 1..=4), 1..=4).prop_map(SOp::Cnf).boxed()));
    if with_ite_family {
        v.push((1, crate::exprgen::ex_strategy(8, 3).prop_map(SOp::Expr).boxed()));
        v.push((1, crate::exprgen::pl_strategy(8, 3).prop_map(SOp::Plan).boxed()));
    }
    proptest::strategy::Union::new_weighted(v).boxed()
}

pub struct SddStep {
    pub idx: usize,
    pub kind: &'static str,
    pub args: Vec<usize>,
}

pub struct SddRun<'a, B: SddBuilder<'a>> {
    pub b: &'a B,
    pub pool: Vec<(SddPtr<'a>, Tt)>,
    /// labels usable in this builder (the vtree's leaves)
    pub labels: Vec<usize>,
    /// when set, the next AndDisjoint / OrDisjoint op uses these two pool entries instead of searching the pool
    /// (replays of a recorded history must repeat the recorded operands: the search looks at how entries are
    /// represented, which may differ between two builders)
    pub forced_operands: Option<(usize, usize)>,
    /// embedded: oracle variable i stands for builder label `labels[i]` (the vtree has more leaves than these);
    /// otherwise a label is its own oracle variable
    pub emb: bool,
    /// see BddRun: a sibling result that does not denote its oracle function (C03's concern), all results of the last
    /// Siblings operation, and the switch that makes a Siblings operation compute one of its results only
    pub sibling_fault: Option<(String, String)>,
    pub last_siblings: Vec<(&'static str, SddPtr<'a>, Tt)>,
    pub siblings_only: Option<usize>,
}

impl<'a, B: SddBuilder<'a>> SddRun<'a, B> {
    pub fn new(b: &'a B, labels: Vec<usize>) -> Self {
        let mut pool = vec![(SddPtr::PtrTrue, Tt::TRUE), (SddPtr::PtrFalse, Tt::FALSE)];
        let mut sorted = labels.clone();
        sorted.sort_unstable();
        for v in sorted.iter() {
            pool.push((b.var(VarLabel::new_usize(*v), true), Tt::var(*v)));
        }
        SddRun { b, pool, labels: sorted, forced_operands: None, emb: false, sibling_fault: None, last_siblings: Vec::new(), siblings_only: None }
    }

    /// the oracle's variables embedded in a builder over a larger vtree: oracle variable i is the i-th smallest of
    /// `labels`; sets the walkers' label map
    pub fn new_embedded(b: &'a B, labels: Vec<usize>) -> Self {
        let mut sorted = labels;
        sorted.sort_unstable();
        sorted.dedup();
        assert!(sorted.len() <= crate::tt::NV);
        let mut map: Vec<Option<usize>> = vec![None; sorted.last().map(|m| m + 1).unwrap_or(0)];
        for (i, l) in sorted.iter().enumerate() {
            map[*l] = Some(i);
        }
        crate::walk::set_label_map(Some(map));
        let mut pool = vec![(SddPtr::PtrTrue, Tt::TRUE), (SddPtr::PtrFalse, Tt::FALSE)];
        for (i, l) in sorted.iter().enumerate() {
            pool.push((b.var(VarLabel::new_usize(*l), true), Tt::var(i)));
        }
        SddRun { b, pool, labels: sorted, forced_operands: None, emb: true, sibling_fault: None, last_siblings: Vec::new(), siblings_only: None }
    }

    /// oracle variable of a usable label
    pub fn o(&self, label: usize) -> usize {
        if self.emb {
            self.labels.binary_search(&label).expect("label outside the embedding")
        } else {
            label
        }
    }

    fn at(&self, i: u16) -> usize {
        pick(i, self.pool.len())
    }
    fn v(&self, raw: u8) -> usize {
        self.labels[((raw as usize) * self.labels.len()) >> 8]
    }

    pub fn step(&mut self, op: &SOp) -> Option<SddStep> {
        let b = self.b;
        let (ptr, tt, args): (SddPtr<'a>, Tt, Vec<usize>) = match op {
            SOp::Lit(v, p) => {
                let v = self.v(*v);
                (b.var(VarLabel::new_usize(v), *p), Tt::lit(self.o(v), *p), vec![])
            }
            SOp::Const(c) => (if *c { b.true_ptr() } else { b.false_ptr() }, Tt::constant(*c), vec![]),
            SOp::Not(a) => {
                let a = self.at(*a);
                (b.negate(self.pool[a].0), self.pool[a].1.not(), vec![a])
            }
            SOp::And(x, y) => {
                let (x, y) = (self.at(*x), self.at(*y));
                (b.and(self.pool[x].0, self.pool[y].0), self.pool[x].1.and(self.pool[y].1), vec![x, y])
            }
            SOp::Or(x, y) => {
                let (x, y) = (self.at(*x), self.at(*y));
                (b.or(self.pool[x].0, self.pool[y].0), self.pool[x].1.or(self.pool[y].1), vec![x, y])
            }
            SOp::Xor(x, y) => {
                let (x, y) = (self.at(*x), self.at(*y));
                (b.xor(self.pool[x].0, self.pool[y].0), self.pool[x].1.xor(self.pool[y].1), vec![x, y])
            }
            SOp::Iff(x, y) => {
                let (x, y) = (self.at(*x), self.at(*y));
                (b.iff(self.pool[x].0, self.pool[y].0), self.pool[x].1.iff(self.pool[y].1), vec![x, y])
            }
            SOp::Ite(f, g, h) => {
                let (f, g, h) = (self.at(*f), self.at(*g), self.at(*h));
                (
                    b.ite(self.pool[f].0, self.pool[g].0, self.pool[h].0),
                    self.pool[f].1.ite(self.pool[g].1, self.pool[h].1),
                    vec![f, g, h],
                )
            }
            SOp::Cond(a, v, val) => {
                let a = self.at(*a);
                let v = self.v(*v);
                (
                    b.condition(self.pool[a].0, VarLabel::new_usize(v), *val),
                    self.pool[a].1.cofactor(self.o(v), *val),
                    vec![a],
                )
            }
            SOp::Exists(a, v) => {
                let a = self.at(*a);
                let v = self.v(*v);
                (b.exists(self.pool[a].0, VarLabel::new_usize(v)), self.pool[a].1.exists(self.o(v)), vec![a])
            }
            SOp::Siblings(f, v, g, seed, ite_family) => {
                let (f, g) = (self.at(*f), self.at(*g));
                let v = self.v(*v);
                let ov = self.o(v);
                let (pf, tf) = self.pool[f];
                let (pg, tg) = self.pool[g];
                let l = VarLabel::new_usize(v);
                let x = b.var(l, true);
                let tx = Tt::var(ov);
                let kinds: Vec<usize> = if *ite_family { (0..10).collect() } else { vec![0, 1, 2, 8, 9] };
                let mut order = kinds;
                order.sort_by_key(|k| crate::engine::splitmix((*seed as u64) << 8 | *k as u64));
                let take = (4 + (*seed as usize % 7)).min(order.len());
                let list: Vec<usize> = order.into_iter().take(take).collect();
                let list: Vec<usize> = match self.siblings_only {
                    Some(j) => vec![list[j.min(list.len() - 1)]],
                    None => list,
                };
                let mut out: Vec<(&'static str, SddPtr<'a>, Tt)> = Vec::new();
                for k in list {
                    out.push(match k {
                        0 => ("condition(f, v, true)", b.condition(pf, l, true), tf.cofactor(ov, true)),
                        1 => ("condition(f, v, false)", b.condition(pf, l, false), tf.cofactor(ov, false)),
                        2 => ("exists(f, v)", b.exists(pf, l), tf.exists(ov)),
                        3 => ("compose(f, v, g)", b.compose(pf, l, pg), tf.compose(ov, tg)),
                        4 => ("ite(f, x_v, g)", b.ite(pf, x, pg), tf.ite(tx, tg)),
                        5 => ("ite(x_v, f, g)", b.ite(x, pf, pg), tx.ite(tf, tg)),
                        6 => ("iff(f, x_v)", b.iff(pf, x), tf.iff(tx)),
                        7 => ("xor(f, x_v)", b.xor(pf, x), tf.xor(tx)),
                        8 => ("and(f, x_v)", b.and(pf, x), tf.and(tx)),
                        _ => ("or(f, !x_v)", b.or(pf, b.negate(x)), tf.or(tx.not())),
                    });
                }
                for (i, (what, p, t)) in out.iter().enumerate() {
                    let got = crate::walk::sdd_tt(*p);
                    if got != *t && self.sibling_fault.is_none() {
                        self.sibling_fault = Some((
                            what.to_string(),
                            format!("{} as call {} of {:?} on one (f, v, g) = (entry {}, label {}, entry {}) denotes {:?}, expected {:?}", what, i + 1, out.iter().map(|x| x.0).collect::<Vec<_>>(), f, v, g, got, t),
                        ));
                    }
                }
                let last = *out.last().unwrap();
                self.last_siblings = out;
                (last.1, last.2, vec![f, g])
            }
            SOp::Compose(f, v, g) => {
                let (f, g) = (self.at(*f), self.at(*g));
                let v = self.v(*v);
                (
                    b.compose(self.pool[f].0, VarLabel::new_usize(v), self.pool[g].0),
                    self.pool[f].1.compose(self.o(v), self.pool[g].1),
                    vec![f, g],
                )
            }
            SOp::AndDisjoint(x, y) | SOp::OrDisjoint(x, y) | SOp::AndDisjointNeg(x, y, _, _) | SOp::OrDisjointNeg(x, y, _, _) => {
                let (negx, negy) = match op {
                    SOp::AndDisjointNeg(_, _, a, b) | SOp::OrDisjointNeg(_, _, a, b) => (*a, *b),
                    _ => (false, false),
                };
                let mut x = self.at(*x);
                let start = self.at(*y);
                let sx = self.pool[x].1.support();
                let n = self.pool.len();
                let mut y = start;
                if let Some((fx, fy)) = self.forced_operands.take() {
                    x = fx;
                    y = fy;
                } else {
                    for k in 0..n {
                        let c = (start + k) % n;
                        let (p, t) = self.pool[c];
                        if sdd_is_internal(p) && t.support().iter().all(|v| !sx.contains(v)) {
                            y = c;
                            break;
                        }
                    }
                }
                let (px, tx) = if negx { (b.negate(self.pool[x].0), self.pool[x].1.not()) } else { self.pool[x] };
                let (py, ty) = if negy { (b.negate(self.pool[y].0), self.pool[y].1.not()) } else { self.pool[y] };
                if matches!(op, SOp::AndDisjoint(..) | SOp::AndDisjointNeg(..)) {
                    (b.and(px, py), tx.and(ty), vec![x, y])
                } else {
                    (b.or(px, py), tx.or(ty), vec![x, y])
                }
            }
            SOp::Cnf(cl) => {
                let mapped: Vec<Vec<(usize, bool)>> = cl.iter().map(|c| c.iter().map(|(v, p)| (self.v(*v), *p)).collect()).collect();
                let lits: Vec<Vec<rsdd::repr::Literal>> =
                    mapped.iter().map(|c| c.iter().map(|(v, p)| rsdd::repr::Literal::new(VarLabel::new_usize(*v), *p)).collect()).collect();
                let cnf = rsdd::repr::Cnf::new(&lits);
                let t = mapped.iter().fold(Tt::TRUE, |acc, c| acc.and(c.iter().fold(Tt::FALSE, |a, (v, p)| a.or(Tt::lit(self.o(*v), *p)))));
                (b.compile_cnf(&cnf), t, vec![])
            }
            SOp::Expr(e) => {
                let labels = self.labels.clone();
                let e2 = crate::textgen::rename(e, &|v| labels[v % labels.len()]);
                let t = if self.emb { crate::textgen::rename(e, &|v| v % labels.len()).tt() } else { e2.tt() };
                (b.compile_logical_expr(&e2.to_logical()), t, vec![])
            }
            SOp::Plan(pl) => {
                let pl2 = rename_plan_labels(pl, &self.labels);
                let t = if self.emb {
                    let idx: Vec<usize> = (0..self.labels.len()).collect();
                    rename_plan_labels(pl, &idx).tt()
                } else {
                    pl2.tt()
                };
                (b.compile_plan(&pl2.to_plan()), t, vec![])
            }
            SOp::Dense(bits) => {
                let mut t = Tt(*bits);
                if self.emb {
                    for v in self.labels.len()..crate::tt::NV {
                        t = t.cofactor(v, false);
                    }
                    (crate::semi::sdd_from_tt_labels(b, t, &self.labels), t, vec![])
                } else {
                    for v in 0..crate::tt::NV {
                        if !self.labels.contains(&v) {
                            t = t.cofactor(v, false);
                        }
                    }
                    (crate::semi::sdd_from_tt(b, t, crate::tt::NV), t, vec![])
                }
            }
            SOp::Rebuild(a, keys) => {
                let a = self.at(*a);
                let t = self.pool[a].1;
                let sup: Vec<usize> = t.support();
                if sup.len() > 5 {
                    return None;
                }
                // variable order for building cubes
                let mut ord: Vec<usize> = (0..sup.len()).collect();
                ord.sort_by_key(|i| keys.get(*i).copied().unwrap_or(0));
                let mut acc = b.false_ptr();
                for m in 0..(1usize << sup.len()) {
                    // assignment over the support; evaluate t there (other variables irrelevant)
                    let mut full = 0usize;
                    for (i, v) in sup.iter().enumerate() {
                        if (m >> i) & 1 == 1 {
                            full |= 1 << v;
                        }
                    }
                    if !t.get(full) {
                        continue;
                    }
                    let mut cube = b.true_ptr();
                    for i in ord.iter() {
                        let lbl = if self.emb { self.labels[sup[*i]] } else { sup[*i] };
                        let lit = b.var(VarLabel::new_usize(lbl), (m >> i) & 1 == 1);
                        cube = b.and(cube, lit);
                    }
                    acc = b.or(acc, cube);
                }
                (acc, t, vec![a])
            }
        };
        self.pool.push((ptr, tt));
        Some(SddStep {
            idx: self.pool.len() - 1,
            kind: op.kind(),
            args,
        })
    }
}

pub fn sdd_is_internal(p: SddPtr) -> bool {
    matches!(p, SddPtr::BDD(_) | SddPtr::ComplBDD(_) | SddPtr::Reg(_) | SddPtr::Compl(_))
}

/// vtree position (in-order index) of a non-constant SDD, computed from the node's recorded index or,
/// for literals, from the harness's own numbering of the vtree
pub fn sdd_position(p: SddPtr, info: &ShapeInfo) -> Option<usize> {
    match p {
        SddPtr::PtrTrue | SddPtr::PtrFalse => None,
        SddPtr::Var(l, _) => info.index_of_label(l.value_usize()),
        _ => Some(p.vtree().value()),
    }
}

/// relation of two vtree positions: 0 same node, 1 second is in the left subtree of the first (or vice versa),
/// 2 in the right subtree, 3 independent
pub fn vtree_relation(info: &ShapeInfo, a: usize, b: usize) -> usize {
    if a == b {
        return 0;
    }
    let l = info.lca(a, b);
    if l == a {
        if info.in_left_subtree(a, b) {
            1
        } else {
            2
        }
    } else if l == b {
        if info.in_left_subtree(b, a) {
            1
        } else {
            2
        }
    } else {
        3
    }
}

pub fn neg_is_involution(p: SddPtr) -> bool {
    p.neg().neg() == p
}

fn rename_plan_labels(p: &crate::exprgen::Pl, labels: &[usize]) -> crate::exprgen::Pl {
    use crate::exprgen::Pl;
    let r = |x: &Pl| Box::new(rename_plan_labels(x, labels));
    match p {
        Pl::Lit(v, pol) => Pl::Lit(labels[*v as usize % labels.len()] as u8, *pol),
        Pl::True => Pl::True,
        Pl::False => Pl::False,
        Pl::Not(a) => Pl::Not(r(a)),
        Pl::And(a, b) => Pl::And(r(a), r(b)),
        Pl::Or(a, b) => Pl::Or(r(a), r(b)),
        Pl::Iff(a, b) => Pl::Iff(r(a), r(b)),
        Pl::Ite(a, b, c) => Pl::Ite(r(a), r(b), r(c)),
    }
}
