use std::path::PathBuf;
use vp::engine::{self, Tier, WorkerArgs};

fn arg_val(args: &[String], key: &str) -> Option<String> {
    args.iter().position(|a| a == key).and_then(|i| args.get(i + 1).cloned())
}

fn main() {
    let args: Vec<String> = std::env::args().collect();
    let props = vp::props::all();
    let cmd = args.get(1).map(|s| s.as_str()).unwrap_or("");
    let code = match cmd {
        "check" => {
            let id = args.get(2).cloned().unwrap_or_default();
            let tier = Tier::parse(
                &arg_val(&args, "--tier")
                    .or_else(|| std::env::var("VERIF_TIER").ok())
                    .unwrap_or_else(|| "quick".into()),
            );
            let seed: u64 = arg_val(&args, "--seed")
                .or_else(|| std::env::var("VERIF_SEED").ok())
                .and_then(|s| s.trim().parse::<i128>().ok())
                .map(|v| v as u64)
                .unwrap_or(20260924);
            engine::run_check(&props, &id, tier, seed).exit
        }
        "worker" => {
            let a = WorkerArgs {
                prop: arg_val(&args, "--prop").unwrap_or_default(),
                sub: arg_val(&args, "--sub").unwrap_or_default(),
                tier: Tier::parse(&arg_val(&args, "--tier").unwrap_or_default()),
                seed: arg_val(&args, "--seed").and_then(|s| s.parse().ok()).unwrap_or(0),
                widx: arg_val(&args, "--widx").and_then(|s| s.parse().ok()).unwrap_or(0),
                nworkers: arg_val(&args, "--nworkers").and_then(|s| s.parse().ok()).unwrap_or(1),
                journal: arg_val(&args, "--journal").map(PathBuf::from),
            };
            engine::worker_main(&props, &a)
        }
        "replay" => {
            engine::install_quiet_panic_hook();
            let path = PathBuf::from(args.get(2).cloned().unwrap_or_default());
            let raw = args.iter().any(|a| a == "--raw");
            match engine::replay_file(&props, &path) {
                Ok((rf, Ok(()))) => {
                    if !raw {
                        println!("replay {}: property {} holds on this input", path.display(), rf.property);
                    }
                    0
                }
                Ok((rf, Err(f))) => {
                    println!("SIGNATURE {}", f.signature);
                    if !raw {
                        println!("VIOLATION property={} replay={}", rf.property, path.display());
                        println!("  {}", f.detail);
                    }
                    1
                }
                Err(e) => {
                    eprintln!("replay error: {e}");
                    2
                }
            }
        }
        "list" => {
            for p in props.iter() {
                println!("{} {}", p.id, p.subs.iter().map(|s| s.name).collect::<Vec<_>>().join(","));
            }
            0
        }
        _ => {
            eprintln!("usage: vp check <ID> [--tier quick|thorough] [--seed N] | vp replay <file> | vp list");
            2
        }
    };
    std::process::exit(code);
}
