//! vtree case type + strategies, and shape-derived reference data (in-order numbering, parents, LCA).
use crate::bddi::perm_from_keys;
use proptest::prelude::*;
use rsdd::repr::{VTree, VarLabel};
use serde::{Deserialize, Serialize};

#[derive(Clone, Debug, Serialize, Deserialize, PartialEq)]
pub struct VtreeCase {
    /// number of leaves
    pub k: u8,
    /// leaf order = stable argsort of the first k keys
    pub keys: Vec<u16>,
    /// 0 right-linear, 1 left-linear, 2 balanced, 3 random splits, 4 wide root (all but 2 or 3 leaves on the left
    /// of the root, random splits below): decision nodes with many elements live at such a root
    pub kind: u8,
    pub splits: Vec<u16>,
    /// label = index * stride + offset (stride 1, offset 0 = contiguous labels 0..k-1)
    pub stride: u8,
    pub offset: u8,
}

#[derive(Clone, Debug, PartialEq)]
pub enum Shape {
    Leaf(usize),
    Node(Box<Shape>, Box<Shape>),
}

impl VtreeCase {
    pub fn leaf_labels(&self) -> Vec<usize> {
        let k = self.k.max(1) as usize;
        perm_from_keys(&self.keys, k)
            .into_iter()
            .map(|i| i * self.stride.max(1) as usize + self.offset as usize)
            .collect()
    }
    pub fn contiguous(&self) -> bool {
        self.stride.max(1) == 1 && self.offset == 0
    }
    pub fn shape(&self) -> Shape {
        let labels = self.leaf_labels();
        let mut it = 0usize;
        fn build(labels: &[usize], kind: u8, splits: &[u16], it: &mut usize) -> Shape {
            if labels.len() == 1 {
                return Shape::Leaf(labels[0]);
            }
            let n = labels.len();
            let at = match kind {
                0 => 1,
                1 => n - 1,
                2 => n / 2,
                4 if *it == 0 && n >= 5 => {
                    let s = splits.first().copied().unwrap_or(0);
                    *it += 1;
                    n - 2 - (s & 1) as usize
                }
                _ => {
                    let s = splits.get(*it).copied().unwrap_or(0);
                    *it += 1;
                    1 + (((s as usize) * (n - 1)) >> 16)
                }
            };
            let (l, r) = labels.split_at(at);
            let ls = build(l, kind, splits, it);
            let rs = build(r, kind, splits, it);
            Shape::Node(Box::new(ls), Box::new(rs))
        }
        build(&labels, self.kind % 5, &self.splits, &mut it)
    }
    pub fn to_vtree(&self) -> VTree {
        self.shape().to_vtree()
    }
}

/// a vtree with `total` leaves (labels 0..total, shape family of `vt`, leaf order and splits from `seed`) together
/// with the labels that stand for the oracle's variables (as many as `vt` has leaves)
pub fn embed_vtree(vt: &VtreeCase, total: u8, seed: u64) -> (VtreeCase, Vec<usize>) {
    use crate::engine::splitmix;
    let total = total.max(vt.k.max(1));
    let big = VtreeCase {
        k: total,
        keys: (0..total as u64).map(|i| (splitmix(seed ^ (i + 1)) >> 48) as u16).collect(),
        kind: vt.kind,
        splits: (0..total as u64).map(|i| (splitmix(seed ^ (i + 1001)) >> 48) as u16).collect(),
        stride: 1,
        offset: 0,
    };
    let mut labels: Vec<usize> = crate::big::permutation(seed, total as usize).into_iter().take(vt.k.max(1) as usize).collect();
    labels.sort_unstable();
    (big, labels)
}

impl Shape {
    pub fn to_vtree(&self) -> VTree {
        match self {
            Shape::Leaf(l) => VTree::new_leaf(VarLabel::new_usize(*l)),
            Shape::Node(l, r) => VTree::new_node(Box::new(l.to_vtree()), Box::new(r.to_vtree())),
        }
    }
    pub fn leaves(&self) -> Vec<usize> {
        match self {
            Shape::Leaf(l) => vec![*l],
            Shape::Node(l, r) => {
                let mut v = l.leaves();
                v.extend(r.leaves());
                v
            }
        }
    }
    pub fn is_right_linear_everywhere(&self) -> bool {
        match self {
            Shape::Leaf(_) => true,
            Shape::Node(l, r) => matches!(**l, Shape::Leaf(_)) && r.is_right_linear_everywhere(),
        }
    }
    pub fn is_left_linear_everywhere(&self) -> bool {
        match self {
            Shape::Leaf(_) => true,
            Shape::Node(l, r) => matches!(**r, Shape::Leaf(_)) && l.is_left_linear_everywhere(),
        }
    }
}

/// reference data about a vtree computed from its shape only
#[derive(Clone, Debug)]
pub struct ShapeInfo {
    /// per in-order index
    pub parent: Vec<Option<usize>>,
    pub left: Vec<Option<usize>>,
    pub right: Vec<Option<usize>>,
    pub leaf_label: Vec<Option<usize>>,
    pub depth: Vec<usize>,
    pub root: usize,
    /// sub-shape at each index
    pub sub: Vec<Shape>,
    /// labels below each index
    pub vars_below: Vec<Vec<usize>>,
}

impl ShapeInfo {
    pub fn new(s: &Shape) -> ShapeInfo {
        fn count(s: &Shape) -> usize {
            match s {
                Shape::Leaf(_) => 1,
                Shape::Node(l, r) => count(l) + 1 + count(r),
            }
        }
        let n = count(s);
        let mut info = ShapeInfo {
            parent: vec![None; n],
            left: vec![None; n],
            right: vec![None; n],
            leaf_label: vec![None; n],
            depth: vec![0; n],
            root: 0,
            sub: vec![Shape::Leaf(0); n],
            vars_below: vec![vec![]; n],
        };
        // returns the in-order index of the root of s, numbering starts at `base`
        fn go(s: &Shape, base: usize, depth: usize, info: &mut ShapeInfo) -> usize {
            match s {
                Shape::Leaf(l) => {
                    info.leaf_label[base] = Some(*l);
                    info.depth[base] = depth;
                    info.sub[base] = s.clone();
                    info.vars_below[base] = vec![*l];
                    base
                }
                Shape::Node(l, r) => {
                    let li = go(l, base, depth + 1, info);
                    let me = base + count(l);
                    let ri = go(r, me + 1, depth + 1, info);
                    info.left[me] = Some(li);
                    info.right[me] = Some(ri);
                    info.parent[li] = Some(me);
                    info.parent[ri] = Some(me);
                    info.depth[me] = depth;
                    info.sub[me] = s.clone();
                    let mut v = info.vars_below[li].clone();
                    v.extend(info.vars_below[ri].iter().copied());
                    info.vars_below[me] = v;
                    me
                }
            }
        }
        info.root = go(s, 0, 0, &mut info);
        info
    }

    pub fn len(&self) -> usize {
        self.parent.len()
    }

    pub fn is_empty(&self) -> bool {
        self.parent.is_empty()
    }

    pub fn ancestors_inclusive(&self, mut x: usize) -> Vec<usize> {
        let mut v = vec![x];
        while let Some(p) = self.parent[x] {
            v.push(p);
            x = p;
        }
        v
    }

    pub fn lca(&self, x: usize, y: usize) -> usize {
        // lift the deeper node, then both, until they meet (depths and parents come from the shape)
        let (mut a, mut b) = (x, y);
        while self.depth[a] > self.depth[b] {
            a = self.parent[a].unwrap();
        }
        while self.depth[b] > self.depth[a] {
            b = self.parent[b].unwrap();
        }
        while a != b {
            a = self.parent[a].unwrap();
            b = self.parent[b].unwrap();
        }
        a
    }

    /// is y inside the subtree rooted at x's left (resp. right) child?
    pub fn in_left_subtree(&self, x: usize, y: usize) -> bool {
        match self.left[x] {
            Some(l) => self.ancestors_inclusive(y).contains(&l),
            None => false,
        }
    }
    pub fn in_right_subtree(&self, x: usize, y: usize) -> bool {
        match self.right[x] {
            Some(r) => self.ancestors_inclusive(y).contains(&r),
            None => false,
        }
    }

    /// x is prime to y, stated from the shape: at their least common ancestor, x is (in) the left part
    pub fn prime_to(&self, x: usize, y: usize) -> bool {
        if x == y {
            return false;
        }
        let l = self.lca(x, y);
        if l == x {
            // y below x: x is prime to y iff y is in x's right subtree
            self.in_right_subtree(x, y)
        } else if l == y {
            self.in_left_subtree(y, x)
        } else {
            self.in_left_subtree(l, x)
        }
    }

    pub fn index_of_label(&self, lbl: usize) -> Option<usize> {
        self.leaf_label.iter().position(|l| *l == Some(lbl))
    }
}

pub fn vtree_case_strategy(max_k: u8, allow_sparse: bool) -> BoxedStrategy<VtreeCase> {
    let labels = if allow_sparse {
        prop_oneof![8 => Just((1u8, 0u8)), 1 => (2u8..=3, 0u8..=2), 1 => (Just(1u8), 1u8..=3)].boxed()
    } else {
        Just((1u8, 0u8)).boxed()
    };
    (
        1u8..=max_k,
        prop_oneof![2 => Just(vec![0u16; 12]), 8 => proptest::collection::vec(any::<u16>(), 12)],
        prop_oneof![5 => Just(0u8), 3 => Just(1u8), 3 => Just(2u8), 9 => Just(3u8), 2 => Just(4u8)],
        proptest::collection::vec(any::<u16>(), 12),
        labels,
    )
        .prop_map(|(k, keys, kind, splits, (stride, offset))| VtreeCase {
            k,
            keys,
            kind,
            splits,
            stride,
            offset,
        })
        .boxed()
}
