//! Product-form functions over many variables: a conjunction or disjunction of small blocks over disjoint
//! variable sets, scattered over a label space of 20..150 variables. Under normalised weights the weighted count
//! of such a function is the product of the blocks' counts (conjunction) or one minus the product of their
//! complements (disjunction), each block counted by brute force over its <= 5 variables: an exact oracle for
//! diagrams with hundreds of nodes over labels far beyond the truth-table oracle's eight.
use crate::engine::*;
use crate::semi::*;
use crate::tt::Tt;
use crate::vtgen::*;
use proptest::prelude::*;
use rsdd::builder::bdd::RobddBuilder;
use rsdd::builder::cache::AllIteTable;
use rsdd::builder::sdd::CompressionSddBuilder;
use rsdd::builder::BottomUpBuilder;
use rsdd::repr::{BddPtr, DDNNFPtr, SddPtr, VTree, VarLabel, VarOrder};
use serde::{Deserialize, Serialize};

#[derive(Clone, Debug, Serialize, Deserialize)]
pub struct ProdCase {
    /// labels 0..total
    pub total: u8,
    /// per block: number of variables (2..=5), function bits over them, negated?
    pub blocks: Vec<(u8, u32, bool)>,
    /// disjunction instead of conjunction of the blocks
    pub disj: bool,
    pub seed: u64,
    /// 0 label order (blocks fully interleaved; at most four blocks are used), 1 blocks contiguous in a random
    /// sequence with the unused labels scattered in between, 2 as 1 with a few neighbouring positions swapped
    pub order_kind: u8,
    /// 0 library right-linear vtree over the order, 1 library even_split, 2 random shape over the order
    pub vt_kind: u8,
}

pub fn prod_case_strategy() -> BoxedStrategy<ProdCase> {
    (
        prop_oneof![2 => 20u8..=63, 2 => 64u8..=70, 2 => 71u8..=150],
        proptest::collection::vec((2u8..=5, any::<u32>(), proptest::bool::weighted(0.3)), 3..=8),
        any::<bool>(),
        any::<u64>(),
        prop_oneof![1 => Just(0u8), 3 => Just(1u8), 2 => Just(2u8)],
        0u8..3,
    )
        .prop_map(|(total, blocks, disj, seed, order_kind, vt_kind)| ProdCase { total, blocks, disj, seed, order_kind, vt_kind })
        .boxed()
}

#[derive(Clone, Debug)]
pub struct Block {
    /// labels[j] is the block's j-th variable
    pub labels: Vec<usize>,
    /// function of oracle variables 0..labels.len()
    pub tt: Tt,
}

pub struct Layout {
    pub total: usize,
    pub blocks: Vec<Block>,
    /// level -> label, all labels
    pub order: Vec<usize>,
}

pub fn layout(case: &ProdCase) -> Layout {
    let total = (case.total as usize).max(20);
    let perm = crate::big::permutation(case.seed, total);
    let max_blocks = if case.order_kind % 3 == 0 { 4 } else { 8 };
    let mut blocks = Vec::new();
    let mut next = 0usize;
    for (k, bits, neg) in case.blocks.iter().take(max_blocks) {
        let k = (*k as usize).clamp(2, 5);
        if next + k > total {
            break;
        }
        let labels: Vec<usize> = perm[next..next + k].to_vec();
        next += k;
        let mut w = [0u64; 4];
        for a in 0..256usize {
            if (bits >> (a & ((1 << k) - 1))) & 1 == 1 {
                w[a / 64] |= 1 << (a % 64);
            }
        }
        let mut t = Tt(w);
        if *neg {
            t = t.not();
        }
        blocks.push(Block { labels, tt: t });
    }
    let order: Vec<usize> = match case.order_kind % 3 {
        0 => (0..total).collect(),
        kind => {
            // blocks contiguous, in a random sequence; unused labels at random places between the blocks' variables
            let mut key: Vec<(u64, usize)> = Vec::with_capacity(total);
            let mut in_block = vec![false; total];
            for (i, b) in blocks.iter().enumerate() {
                let rank = splitmix(case.seed ^ 0xB10C ^ i as u64) >> 16;
                for (j, l) in b.labels.iter().enumerate() {
                    key.push(((rank << 8) | j as u64, *l));
                    in_block[*l] = true;
                }
            }
            for l in 0..total {
                if !in_block[l] {
                    key.push((splitmix(case.seed ^ 0xF4EE ^ l as u64) >> 8, l));
                }
            }
            key.sort();
            let mut o: Vec<usize> = key.into_iter().map(|x| x.1).collect();
            if kind == 2 {
                for s in 0..6u64 {
                    let p = (splitmix(case.seed ^ 0x5AA5 ^ s) as usize) % (total - 1);
                    o.swap(p, p + 1);
                }
            }
            o
        }
    };
    Layout { total, blocks, order }
}

impl Layout {
    /// the intended function at an assignment
    pub fn eval(&self, disj: bool, asg: &[bool]) -> bool {
        let mut it = self.blocks.iter().map(|b| {
            let mut a = 0usize;
            for (j, l) in b.labels.iter().enumerate() {
                if asg[*l] {
                    a |= 1 << j;
                }
            }
            b.tt.get(a)
        });
        if disj {
            it.any(|x| x)
        } else {
            it.all(|x| x)
        }
    }

    /// the count of the intended function under normalised weights `w(label, polarity)`
    pub fn expected<W: Clone>(&self, disj: bool, w: &dyn Fn(usize, bool) -> W, ops: &Ops<W>, one_minus: &dyn Fn(&W) -> W) -> W {
        let mut acc = ops.one.clone();
        for b in self.blocks.iter() {
            let vars: Vec<usize> = (0..b.labels.len()).collect();
            let c = brute_force(b.tt, &vars, &|j, pol| w(b.labels[j], pol), ops);
            let c = if disj { one_minus(&c) } else { c };
            acc = (ops.mul)(&acc, &c);
        }
        if disj {
            one_minus(&acc)
        } else {
            acc
        }
    }

    /// assignments on which the diagrams are read: random ones, ones that satisfy every block (where possible) and
    /// ones that falsify every block
    pub fn probes(&self, seed: u64, count: u64) -> Vec<Vec<bool>> {
        let mut out = Vec::new();
        for k in 0..count {
            let mut a = crate::big::assignment(seed, k, self.total);
            if k % 3 != 0 {
                let want = k % 3 == 1;
                for (i, b) in self.blocks.iter().enumerate() {
                    let n = 1usize << b.labels.len();
                    let start = (splitmix(seed ^ (k << 8) ^ i as u64) as usize) % n;
                    if let Some(m) = (0..n).map(|d| (start + d) % n).find(|m| b.tt.get(*m) == want) {
                        for (j, l) in b.labels.iter().enumerate() {
                            a[*l] = (m >> j) & 1 == 1;
                        }
                    }
                }
            }
            out.push(a);
        }
        out
    }
}

#[derive(Clone, Copy)]
pub enum BigPtr<'a> {
    B(BddPtr<'a>),
    S(SddPtr<'a>),
}

pub struct BigRep<'a> {
    pub name: String,
    pub ptr: BigPtr<'a>,
    /// denotes the negation of the intended function
    pub neg: bool,
    pub nodes: usize,
}

impl<'a> BigRep<'a> {
    pub fn eval(&self, asg: &[bool]) -> bool {
        match self.ptr {
            BigPtr::B(b) => crate::big::bdd_eval(b, asg),
            BigPtr::S(s) => crate::big::sdd_eval(s, asg),
        }
    }
}

/// builds the intended function as a BDD and as an SDD (and their negations), reads them back on probe assignments
/// with the harness's own walkers (a diagram that does not denote the intended function is another property's
/// concern: recorded, and the case ends), then hands them to `f`
pub fn with_diagrams(case: &ProdCase, st: &mut Stats, f: impl for<'a> FnOnce(&Layout, &[BigRep<'a>], &mut Stats) -> CaseResult) -> CaseResult {
    let lay = layout(case);
    if lay.blocks.len() < 2 {
        return Ok(());
    }
    let order_labels: Vec<VarLabel> = lay.order.iter().map(|l| VarLabel::new_usize(*l)).collect();
    let bb: RobddBuilder<AllIteTable<BddPtr>> = RobddBuilder::new(VarOrder::new(&order_labels));
    let vt: VTree = match case.vt_kind % 3 {
        0 => VTree::right_linear(&order_labels),
        1 => VTree::even_split(&order_labels, 1 + (case.seed as usize % 3)),
        _ => {
            // random shape whose leaves, left to right, are the order
            let mut rank = vec![0u16; lay.total];
            for (pos, l) in lay.order.iter().enumerate() {
                rank[*l] = pos as u16;
            }
            VtreeCase {
                k: lay.total as u8,
                keys: rank,
                kind: 3,
                splits: (0..lay.total as u64).map(|i| (splitmix(case.seed ^ 0x7EE ^ i) >> 48) as u16).collect(),
                stride: 1,
                offset: 0,
            }
            .to_vtree()
        }
    };
    let sb = CompressionSddBuilder::new(vt);
    let mut fb = if case.disj { bb.false_ptr() } else { bb.true_ptr() };
    let mut fs = if case.disj { sb.false_ptr() } else { sb.true_ptr() };
    for b in lay.blocks.iter() {
        let x = bdd_from_tt_labels(&bb, b.tt, &b.labels);
        let y = sdd_from_tt_labels(&sb, b.tt, &b.labels);
        if case.disj {
            fb = bb.or(fb, x);
            fs = sb.or(fs, y);
        } else {
            fb = bb.and(fb, x);
            fs = sb.and(fs, y);
        }
    }
    let reps = vec![
        BigRep { name: format!("bdd (order kind {})", case.order_kind % 3), ptr: BigPtr::B(fb), neg: false, nodes: fb.count_nodes() },
        BigRep { name: "negated bdd".into(), ptr: BigPtr::B(fb.neg()), neg: true, nodes: fb.count_nodes() },
        BigRep { name: format!("sdd (vtree kind {})", case.vt_kind % 3), ptr: BigPtr::S(fs), neg: false, nodes: fs.count_nodes() },
        BigRep { name: "negated sdd".into(), ptr: BigPtr::S(fs.neg()), neg: true, nodes: fs.count_nodes() },
    ];
    for a in lay.probes(case.seed, 48) {
        let want = lay.eval(case.disj, &a);
        for r in reps.iter() {
            if r.eval(&a) != (want ^ r.neg) {
                st.bump("diagram_differs_from_intended_function(C01/C03's concern)");
                return Ok(());
            }
        }
    }
    st.bump(match lay.total {
        0..=63 => "prod.labels.20_63",
        64..=70 => "prod.labels.64_70",
        _ => "prod.labels.71_150",
    });
    st.bump(match reps[0].nodes.max(reps[2].nodes) {
        0..=31 => "prod.nodes.le31",
        32..=127 => "prod.nodes.32_127",
        128..=1023 => "prod.nodes.128_1023",
        _ => "prod.nodes.ge1024",
    });
    st.flag("prod.disjunction", case.disj);
    f(&lay, &reps, st)
}
