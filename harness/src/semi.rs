//! Exact reference weighted counting (brute force over models and the order-aware unsmoothed
//! count), generic over a value type with explicit operations, plus helpers that build diagrams
//! of a given truth table in any builder.
use crate::tt::Tt;
use rsdd::builder::bdd::RobddBuilder;
use rsdd::builder::cache::IteTable;
use rsdd::builder::sdd::SddBuilder;
use rsdd::builder::BottomUpBuilder;
use rsdd::repr::{BddPtr, SddPtr, VarLabel};

pub struct Ops<'x, W> {
    pub zero: W,
    pub one: W,
    pub add: &'x dyn Fn(&W, &W) -> W,
    pub mul: &'x dyn Fn(&W, &W) -> W,
}

/// sum over the models of `t` (as a function of the variables `vars`) of the product of literal weights
pub fn brute_force<W: Clone>(t: Tt, vars: &[usize], w: &dyn Fn(usize, bool) -> W, ops: &Ops<W>) -> W {
    let k = vars.len();
    let mut total = ops.zero.clone();
    for a in 0..(1usize << k) {
        let mut full = 0usize;
        for (i, v) in vars.iter().enumerate() {
            if (a >> i) & 1 == 1 {
                full |= 1 << v;
            }
        }
        if !t.get(full) {
            continue;
        }
        let mut p = ops.one.clone();
        for (i, v) in vars.iter().enumerate() {
            p = (ops.mul)(&p, &w(*v, (a >> i) & 1 == 1));
        }
        total = (ops.add)(&total, &p);
    }
    total
}

/// the count "taken only over the variables each sub-function actually depends on": Shannon
/// expansion along `order` (level -> label) on the first variable the function depends on
pub fn order_aware_unsmoothed<W: Clone>(t: Tt, order: &[usize], w: &dyn Fn(usize, bool) -> W, ops: &Ops<W>) -> W {
    if t.is_true() {
        return ops.one.clone();
    }
    if t.is_false() {
        return ops.zero.clone();
    }
    for v in order.iter() {
        if t.depends(*v) {
            let lo = order_aware_unsmoothed(t.cofactor(*v, false), order, w, ops);
            let hi = order_aware_unsmoothed(t.cofactor(*v, true), order, w, ops);
            let a = (ops.mul)(&w(*v, false), &lo);
            let b = (ops.mul)(&w(*v, true), &hi);
            return (ops.add)(&a, &b);
        }
    }
    unreachable!("non-constant function depends on no variable of the order")
}

/// build the BDD of truth table `t` (over labels < n) in builder `b`, whatever its order
pub fn bdd_from_tt<'a, T: IteTable<'a, BddPtr<'a>> + Default>(b: &'a RobddBuilder<'a, T>, t: Tt, n: usize) -> BddPtr<'a> {
    fn go<'a, T: IteTable<'a, BddPtr<'a>> + Default>(b: &'a RobddBuilder<'a, T>, t: Tt, v: usize, n: usize) -> BddPtr<'a> {
        if t.is_true() {
            return b.true_ptr();
        }
        if t.is_false() {
            return b.false_ptr();
        }
        assert!(v < n, "truth table depends on a variable outside the builder");
        if !t.depends(v) {
            return go(b, t, v + 1, n);
        }
        let lo = go(b, t.cofactor(v, false), v + 1, n);
        let hi = go(b, t.cofactor(v, true), v + 1, n);
        b.ite(b.var(VarLabel::new_usize(v), true), hi, lo)
    }
    go(b, t, 0, n)
}

/// the same with oracle variable v played by builder label `labels[v]`
pub fn bdd_from_tt_labels<'a, T: IteTable<'a, BddPtr<'a>> + Default>(b: &'a RobddBuilder<'a, T>, t: Tt, labels: &[usize]) -> BddPtr<'a> {
    fn go<'a, T: IteTable<'a, BddPtr<'a>> + Default>(b: &'a RobddBuilder<'a, T>, t: Tt, v: usize, labels: &[usize]) -> BddPtr<'a> {
        if t.is_true() {
            return b.true_ptr();
        }
        if t.is_false() {
            return b.false_ptr();
        }
        assert!(v < labels.len(), "truth table depends on a variable outside the builder");
        if !t.depends(v) {
            return go(b, t, v + 1, labels);
        }
        let lo = go(b, t.cofactor(v, false), v + 1, labels);
        let hi = go(b, t.cofactor(v, true), v + 1, labels);
        b.ite(b.var(VarLabel::new_usize(labels[v]), true), hi, lo)
    }
    go(b, t, 0, labels)
}

/// build an SDD of truth table `t` with and/or/negate only (works for every SddBuilder)
pub fn sdd_from_tt<'a, B: SddBuilder<'a>>(b: &'a B, t: Tt, n: usize) -> SddPtr<'a> {
    fn go<'a, B: SddBuilder<'a>>(b: &'a B, t: Tt, v: usize, n: usize) -> SddPtr<'a> {
        if t.is_true() {
            return b.true_ptr();
        }
        if t.is_false() {
            return b.false_ptr();
        }
        assert!(v < n, "truth table depends on a variable outside the builder");
        if !t.depends(v) {
            return go(b, t, v + 1, n);
        }
        let lo = go(b, t.cofactor(v, false), v + 1, n);
        let hi = go(b, t.cofactor(v, true), v + 1, n);
        let x = b.var(VarLabel::new_usize(v), true);
        let a = b.and(x, hi);
        let c = b.and(b.negate(x), lo);
        b.or(a, c)
    }
    go(b, t, 0, n)
}

/// as `sdd_from_tt`, oracle variable v standing for builder label `labels[v]`
pub fn sdd_from_tt_labels<'a, B: SddBuilder<'a>>(b: &'a B, t: Tt, labels: &[usize]) -> SddPtr<'a> {
    fn go<'a, B: SddBuilder<'a>>(b: &'a B, t: Tt, v: usize, labels: &[usize]) -> SddPtr<'a> {
        if t.is_true() {
            return b.true_ptr();
        }
        if t.is_false() {
            return b.false_ptr();
        }
        assert!(v < labels.len(), "truth table depends on a variable outside the embedding");
        if !t.depends(v) {
            return go(b, t, v + 1, labels);
        }
        let lo = go(b, t.cofactor(v, false), v + 1, labels);
        let hi = go(b, t.cofactor(v, true), v + 1, labels);
        let x = b.var(VarLabel::new_usize(labels[v]), true);
        let a = b.and(x, hi);
        let c = b.and(b.negate(x), lo);
        b.or(a, c)
    }
    go(b, t, 0, labels)
}

/// a second construction route for the same function: the disjunction of its minterms over its support, each
/// minterm a conjunction of literals taken in the given variable order (different intermediate diagrams, and on
/// a builder without compression a different final structure)
pub fn sdd_from_tt_cubes<'a, B: SddBuilder<'a>>(b: &'a B, t: Tt, order: &[usize]) -> SddPtr<'a> {
    let sup: Vec<usize> = order.iter().copied().filter(|v| t.depends(*v)).collect();
    if sup.is_empty() {
        return if t.is_true() { b.true_ptr() } else { b.false_ptr() };
    }
    let mut acc = b.false_ptr();
    for m in 0..(1usize << sup.len()) {
        let mut full = 0usize;
        for (i, v) in sup.iter().enumerate() {
            if (m >> i) & 1 == 1 {
                full |= 1 << v;
            }
        }
        if !t.get(full) {
            continue;
        }
        let mut cube = b.true_ptr();
        for (i, v) in sup.iter().enumerate() {
            cube = b.and(cube, b.var(VarLabel::new_usize(*v), (m >> i) & 1 == 1));
        }
        acc = b.or(acc, cube);
    }
    acc
}
