//! Text generators (DIMACS, s-expressions) and an independent reader of the JSON serialisations.
use crate::exprgen::Ex;
use crate::tt::Tt;
use crate::vtgen::Shape;
use proptest::prelude::*;
use serde_json::Value;

pub const KEYWORDS: [&str; 9] = ["True", "False", "Var", "Not", "And", "Or", "Iff", "Xor", "Ite"];

/// distinct variable names, never a keyword
pub fn names_strategy(n: usize) -> BoxedStrategy<Vec<String>> {
    proptest::collection::vec(
        prop_oneof![
            4 => "[A-Za-z_][A-Za-z0-9_]{0,5}",
            1 => "[0-9]{1,3}",
            1 => "[a-c]",
        ],
        n,
    )
    .prop_map(|v| {
        let mut out: Vec<String> = Vec::new();
        for (i, s) in v.into_iter().enumerate() {
            let mut s = s;
            if KEYWORDS.contains(&s.as_str()) {
                s.push('_');
            }
            while out.contains(&s) {
                s.push_str(&format!("{}", i));
            }
            out.push(s);
        }
        out
    })
    .boxed()
}

const SEPS: [&str; 6] = [" ", "  ", "\n", "\t", " \n  ", "\n\n"];

pub struct SepSource<'a> {
    pub sel: &'a [u8],
    pub pos: usize,
}

impl<'a> SepSource<'a> {
    pub fn next(&mut self) -> &'static str {
        let s = if self.sel.is_empty() { 0 } else { self.sel[self.pos % self.sel.len()] };
        self.pos += 1;
        SEPS[(s as usize) % SEPS.len()]
    }
}

/// print an expression in the s-expression syntax accepted by serde_sexpr: whitespace only between siblings
pub fn sexpr_text(e: &Ex, names: &[String], seps: &mut SepSource) -> String {
    match e {
        Ex::Lit(v, true) => format!("(Var{}{})", seps.next(), names[*v as usize]),
        Ex::Lit(v, false) => format!("(Not{}(Var{}{}))", seps.next(), seps.next(), names[*v as usize]),
        Ex::Not(a) => format!("(Not{}{})", seps.next(), sexpr_text(a, names, seps)),
        Ex::And(a, b) => format!("(And{}{}{}{})", seps.next(), sexpr_text(a, names, seps), seps.next(), sexpr_text(b, names, seps)),
        Ex::Or(a, b) => format!("(Or{}{}{}{})", seps.next(), sexpr_text(a, names, seps), seps.next(), sexpr_text(b, names, seps)),
        Ex::Iff(a, b) => format!("(Iff{}{}{}{})", seps.next(), sexpr_text(a, names, seps), seps.next(), sexpr_text(b, names, seps)),
        Ex::Xor(a, b) => format!("(Xor{}{}{}{})", seps.next(), sexpr_text(a, names, seps), seps.next(), sexpr_text(b, names, seps)),
        Ex::Ite(a, b, c) => format!(
            "(Ite{}{}{}{}{}{})",
            seps.next(),
            sexpr_text(a, names, seps),
            seps.next(),
            sexpr_text(b, names, seps),
            seps.next(),
            sexpr_text(c, names, seps)
        ),
    }
}

/// the expression with every variable v renamed to map[v]
pub fn rename(e: &Ex, map: &dyn Fn(usize) -> usize) -> Ex {
    match e {
        Ex::Lit(v, p) => Ex::Lit(map(*v as usize) as u8, *p),
        Ex::Not(a) => Ex::Not(Box::new(rename(a, map))),
        Ex::And(a, b) => Ex::And(Box::new(rename(a, map)), Box::new(rename(b, map))),
        Ex::Or(a, b) => Ex::Or(Box::new(rename(a, map)), Box::new(rename(b, map))),
        Ex::Iff(a, b) => Ex::Iff(Box::new(rename(a, map)), Box::new(rename(b, map))),
        Ex::Xor(a, b) => Ex::Xor(Box::new(rename(a, map)), Box::new(rename(b, map))),
        Ex::Ite(a, b, c) => Ex::Ite(Box::new(rename(a, map)), Box::new(rename(b, map)), Box::new(rename(c, map))),
    }
}

/// names used by the expression, sorted as strings: position = the documented variable index
pub fn used_names_sorted(e: &Ex, names: &[String]) -> Vec<String> {
    let mut vs = std::collections::BTreeSet::new();
    e.vars(&mut vs);
    let mut used: Vec<String> = vs.into_iter().map(|v| names[v].clone()).collect();
    used.sort();
    used
}

// ---------------------------------------------------------------------------
// independent JSON readers
// ---------------------------------------------------------------------------

fn bdd_ptr_tt(p: &Value, nodes: &[Tt]) -> Result<Tt, String> {
    if let Some(s) = p.as_str() {
        return match s {
            "True" => Ok(Tt::TRUE),
            "False" => Ok(Tt::FALSE),
            _ => Err(format!("unknown pointer {}", s)),
        };
    }
    let ptr = p.get("Ptr").ok_or_else(|| format!("unknown pointer {}", p))?;
    let idx = ptr.get("index").and_then(|v| v.as_u64()).ok_or("Ptr without index")? as usize;
    let compl = ptr.get("compl").and_then(|v| v.as_bool()).ok_or("Ptr without compl")?;
    let t = *nodes.get(idx).ok_or_else(|| format!("pointer to node {} which is not defined before its use", idx))?;
    Ok(if compl { t.not() } else { t })
}

/// truth table of `roots[0]` of a serialised BDD, read as a plain node table with complement flags
pub fn bdd_json_tt(v: &Value) -> Result<(Tt, usize), String> {
    let nodes = v.get("nodes").and_then(|n| n.as_array()).ok_or("no nodes array")?;
    let mut tts: Vec<Tt> = Vec::new();
    for n in nodes {
        let var = n.get("topvar").and_then(|x| x.as_u64()).ok_or("node without topvar")? as usize;
        let lo = bdd_ptr_tt(n.get("low").ok_or("node without low")?, &tts)?;
        let hi = bdd_ptr_tt(n.get("high").ok_or("node without high")?, &tts)?;
        if var >= crate::tt::NV {
            return Err(format!("topvar {} out of range", var));
        }
        tts.push(Tt::var(var).ite(hi, lo));
    }
    let roots = v.get("roots").and_then(|n| n.as_array()).ok_or("no roots array")?;
    if roots.len() != 1 {
        return Err(format!("{} roots", roots.len()));
    }
    Ok((bdd_ptr_tt(&roots[0], &tts)?, nodes.len()))
}

fn sdd_ptr_tt(p: &Value, nodes: &[Tt]) -> Result<Tt, String> {
    if let Some(s) = p.as_str() {
        return match s {
            "True" => Ok(Tt::TRUE),
            "False" => Ok(Tt::FALSE),
            _ => Err(format!("unknown pointer {}", s)),
        };
    }
    if let Some(l) = p.get("Literal") {
        let label = l.get("label").and_then(|v| v.as_u64()).ok_or("Literal without label")? as usize;
        let pol = l.get("polarity").and_then(|v| v.as_bool()).ok_or("Literal without polarity")?;
        if label >= crate::tt::NV {
            return Err(format!("label {} out of range", label));
        }
        return Ok(Tt::lit(label, pol));
    }
    let ptr = p.get("Ptr").ok_or_else(|| format!("unknown pointer {}", p))?;
    let idx = ptr.get("index").and_then(|v| v.as_u64()).ok_or("Ptr without index")? as usize;
    let compl = ptr.get("compl").and_then(|v| v.as_bool()).ok_or("Ptr without compl")?;
    let t = *nodes.get(idx).ok_or_else(|| format!("pointer to node {} which is not defined before its use", idx))?;
    Ok(if compl { t.not() } else { t })
}

pub fn sdd_json_tt(v: &Value) -> Result<(Tt, usize), String> {
    let nodes = v.get("nodes").and_then(|n| n.as_array()).ok_or("no nodes array")?;
    let mut tts: Vec<Tt> = Vec::new();
    for n in nodes {
        let els = n.as_array().ok_or("node is not an array of elements")?;
        let mut t = Tt::FALSE;
        for e in els {
            let p = sdd_ptr_tt(e.get("prime").ok_or("element without prime")?, &tts)?;
            let s = sdd_ptr_tt(e.get("sub").ok_or("element without sub")?, &tts)?;
            t = t.or(p.and(s));
        }
        tts.push(t);
    }
    let roots = v.get("roots").and_then(|n| n.as_array()).ok_or("no roots array")?;
    if roots.len() != 1 {
        return Err(format!("{} roots", roots.len()));
    }
    Ok((sdd_ptr_tt(&roots[0], &tts)?, nodes.len()))
}

pub fn vtree_json_shape(v: &Value) -> Result<Shape, String> {
    fn go(v: &Value) -> Result<Shape, String> {
        if let Some(l) = v.get("Leaf") {
            return Ok(Shape::Leaf(l.as_u64().ok_or("Leaf without number")? as usize));
        }
        let n = v.get("Node").ok_or_else(|| format!("neither Leaf nor Node: {}", v))?;
        let l = go(n.get("left").ok_or("Node without left")?)?;
        let r = go(n.get("right").ok_or("Node without right")?)?;
        Ok(Shape::Node(Box::new(l), Box::new(r)))
    }
    go(v.get("root").ok_or("no root")?)
}
