//! CNF case type, strategies and the propositional oracle for CNFs.
use crate::tt::Tt;
use proptest::prelude::*;
use rsdd::repr::{Cnf, Literal, VarLabel};
use serde::{Deserialize, Serialize};

/// (variable index, polarity)
pub type Lit = (u8, bool);

#[derive(Clone, Debug, Serialize, Deserialize, PartialEq)]
pub struct CnfCase {
    pub clauses: Vec<Vec<Lit>>,
}

impl CnfCase {
    /// number of variables as rsdd's Cnf defines it: largest label + 1 (0 if no literal)
    pub fn num_vars(&self) -> usize {
        self.clauses
            .iter()
            .flat_map(|c| c.iter().map(|l| l.0 as usize + 1))
            .max()
            .unwrap_or(0)
    }
    pub fn to_rsdd(&self) -> Cnf {
        Cnf::new(&self.lit_vecs())
    }
    pub fn lit_vecs(&self) -> Vec<Vec<Literal>> {
        self.clauses
            .iter()
            .map(|c| c.iter().map(|(v, p)| Literal::new(VarLabel::new(*v as u64), *p)).collect())
            .collect()
    }
    pub fn tt(&self) -> Tt {
        clauses_tt(&self.clauses)
    }
    /// the clause list a library `Cnf` object reports through its public accessor: checks about what is done
    /// *with* a CNF take the object as their input (whether `Cnf::new` kept the generating list is C15's concern)
    pub fn read_back(cnf: &Cnf) -> CnfCase {
        CnfCase {
            clauses: cnf
                .clauses()
                .iter()
                .map(|c| c.iter().map(|l| (l.label().value() as u8, l.polarity())).collect())
                .collect(),
        }
    }
    pub fn has_empty_clause(&self) -> bool {
        self.clauses.iter().any(|c| c.is_empty())
    }
    pub fn mentioned_vars(&self) -> Vec<usize> {
        let mut v: Vec<usize> = self.clauses.iter().flat_map(|c| c.iter().map(|l| l.0 as usize)).collect();
        v.sort_unstable();
        v.dedup();
        v
    }
}

pub fn clause_tt(c: &[Lit]) -> Tt {
    c.iter().fold(Tt::FALSE, |acc, (v, p)| acc.or(Tt::lit(*v as usize, *p)))
}

pub fn clauses_tt(cs: &[Vec<Lit>]) -> Tt {
    cs.iter().fold(Tt::TRUE, |acc, c| acc.and(clause_tt(c)))
}

pub fn is_tautology(c: &[Lit]) -> bool {
    c.iter().any(|(v, p)| c.contains(&(*v, !*p)))
}

pub fn lit_strategy(nv: u8) -> impl Strategy<Value = Lit> {
    (0..nv, any::<bool>())
}

/// random clause list over variables 0..nv (literals drawn with replacement: duplicates and complementary pairs occur)
pub fn clauses_strategy(nv: u8, max_clauses: usize, min_len: usize, max_len: usize) -> impl Strategy<Value = Vec<Vec<Lit>>> {
    proptest::collection::vec(
        proptest::collection::vec(lit_strategy(nv), min_len..=max_len),
        0..=max_clauses,
    )
}

/// copies of one small gadget on disjoint variable blocks (produces repeated residual structure for
/// component caching), plus a few linking clauses
pub fn gadget_strategy() -> impl Strategy<Value = Vec<Vec<Lit>>> {
    (2u8..=3, 2usize..=3)
        .prop_flat_map(|(k, copies)| {
            let total = (k as usize * copies).min(7) as u8;
            (
                Just(k),
                Just(copies),
                proptest::collection::vec(proptest::collection::vec(lit_strategy(k), 1..=3), 1..=3),
                proptest::collection::vec(proptest::collection::vec(lit_strategy(total), 1..=3), 0..=2),
            )
        })
        .prop_map(|(k, copies, gadget, links)| {
            let mut out = Vec::new();
            for c in 0..copies {
                let off = (c as u8) * k;
                if off + k > 7 {
                    break;
                }
                for cl in gadget.iter() {
                    out.push(cl.iter().map(|(v, p)| (v + off, *p)).collect());
                }
            }
            out.extend(links);
            out
        })
}

/// an unsatisfiable core that unit propagation alone does not refute (all sign patterns over k >= 2
/// distinct variables), surrounded by random clauses and unit clauses on other variables
pub fn contradiction_strategy() -> impl Strategy<Value = Vec<Vec<Lit>>> {
    (3u8..=7)
        .prop_flat_map(|nv| {
            (
                Just(nv),
                proptest::sample::subsequence((0..nv).collect::<Vec<u8>>(), 2..=3usize.min(nv as usize)),
                proptest::collection::vec(proptest::collection::vec(lit_strategy(nv), 1..=3), 0..=4),
                any::<u16>(),
                any::<bool>(),
            )
        })
        .prop_map(|(_nv, core, extra, pos, drop_one)| {
            let k = core.len();
            let mut block: Vec<Vec<Lit>> = (0..(1usize << k))
                .map(|m| core.iter().enumerate().map(|(i, v)| (*v, (m >> i) & 1 == 1)).collect())
                .collect();
            if drop_one {
                // satisfiable sibling: exactly one model over the core
                block.pop();
            }
            let mut out = extra;
            let at = ((pos as usize) * (out.len() + 1)) >> 16;
            for (i, c) in block.into_iter().enumerate() {
                out.insert((at + i).min(out.len()), c);
            }
            out
        })
}

/// "regrouping" family: the same multiset of literals is split into clauses in two different ways, one
/// grouping guarded by g and the other by !g. Deciding g either way leaves residuals that mention every
/// literal equally often but group them differently - the shape on which a residual hash (or component
/// cache key) that forgets clause grouping collides.
pub fn regroup_strategy(max_nv: u8) -> impl Strategy<Value = Vec<Vec<Lit>>> {
    (5u8..=max_nv.max(5))
        .prop_flat_map(|nv| {
            (
                Just(nv),
                0..nv,
                any::<bool>(),
                proptest::collection::vec(any::<bool>(), (nv - 1) as usize),
                proptest::collection::vec(any::<u16>(), (nv - 1) as usize),
                proptest::collection::vec(2usize..=3, 3),
                proptest::collection::vec(2usize..=3, 3),
                proptest::collection::vec(proptest::collection::vec(lit_strategy(nv), 1..=3), 0..=2),
                any::<bool>(),
            )
        })
        .prop_map(|(nv, g, gp, pols, keys, c1, c2, extra, guard_both)| {
            let others: Vec<u8> = (0..nv).filter(|v| *v != g).collect();
            let lits: Vec<Lit> = others.iter().zip(pols.iter()).map(|(v, p)| (*v, *p)).collect();
            let mut perm: Vec<usize> = (0..lits.len()).collect();
            perm.sort_by_key(|i| keys[*i]);
            let lits2: Vec<Lit> = perm.iter().map(|i| lits[*i]).collect();
            let chunk = |l: &Vec<Lit>, sizes: &Vec<usize>| -> Vec<Vec<Lit>> {
                let mut out = Vec::new();
                let mut i = 0;
                let mut k = 0;
                while i < l.len() {
                    let sz = sizes[k % sizes.len()].min(l.len() - i);
                    out.push(l[i..i + sz].to_vec());
                    i += sz;
                    k += 1;
                }
                out
            };
            let mut out: Vec<Vec<Lit>> = Vec::new();
            for c in chunk(&lits, &c1) {
                let mut c = c;
                c.insert(0, (g, gp));
                out.push(c);
            }
            for c in chunk(&lits2, &c2) {
                let mut c = c;
                if guard_both {
                    c.insert(0, (g, !gp));
                }
                out.push(c);
            }
            out.extend(extra);
            out
        })
}

/// hundreds of clauses over 6..7 variables: a random set of assignments is excluded by blocking clauses, each
/// repeated 1..12 times (some with one literal dropped, a few with a literal repeated), all in a scrambled order.
/// The function stays non-trivial however many clauses there are (100..900; conjunction schemes that work in
/// rounds, runs or blocks of a power of two see several of their thresholds), and losing any stretch of the clause
/// list changes it.
pub fn many_clauses_strategy() -> impl Strategy<Value = Vec<Vec<Lit>>> {
    (6u8..=7, 1u8..=12)
        .prop_flat_map(|(nv, maxrep)| {
            let na = 1usize << nv;
            (
                Just(nv),
                proptest::collection::vec(any::<bool>(), na),
                proptest::collection::vec((1u8..=maxrep, any::<u8>(), 0..nv), na),
                proptest::collection::vec(any::<u16>(), na * 12),
            )
        })
        .prop_map(|(nv, kept, per, keys)| {
            let mut out: Vec<Vec<Lit>> = Vec::new();
            for a in 0..(1usize << nv) {
                if kept[a] {
                    continue;
                }
                let (rep, how, which) = per[a];
                for r in 0..rep {
                    let mut c: Vec<Lit> = (0..nv).map(|v| (v, (a >> v) & 1 == 0)).collect();
                    if r == 1 && how < 40 && rep > 1 {
                        // a wider sibling: excludes one more assignment only if that one is excluded as well
                        if !kept[a ^ (1usize << which)] {
                            c.remove(which as usize);
                        }
                    } else if r == 2 && how < 80 {
                        c.push(c[which as usize]);
                    }
                    out.push(c);
                }
            }
            let mut idx: Vec<usize> = (0..out.len()).collect();
            idx.sort_by_key(|i| (keys[*i % keys.len()], *i));
            idx.into_iter().map(|i| out[i].clone()).collect()
        })
}

/// a few clauses of 100..700 literal occurrences: every variable occurs in one polarity only (so the clause is no
/// tautology) in runs of 1..150 equal literals; a reader that loses a stretch of a long clause loses whole runs
pub fn long_clauses_strategy() -> impl Strategy<Value = Vec<Vec<Lit>>> {
    (3u8..=7)
        .prop_flat_map(|nv| {
            (
                proptest::collection::vec(any::<bool>(), nv as usize),
                proptest::collection::vec(proptest::collection::vec((0..nv, 1usize..=150), 2..=7), 1..=3),
                proptest::collection::vec(proptest::collection::vec(lit_strategy(nv), 1..=3), 0..=3),
            )
        })
        .prop_map(|(pol, long, short)| {
            let mut out: Vec<Vec<Lit>> = long
                .into_iter()
                .map(|runs| runs.into_iter().flat_map(|(v, k)| std::iter::repeat((v, pol[v as usize])).take(k)).collect())
                .collect();
            out.extend(short);
            out
        })
}

/// the general CNF generator: n <= 7, 0..12 clauses of length 0..5, plus edge-case families
pub fn cnf_strategy() -> BoxedStrategy<CnfCase> {
    prop_oneof![
        6 => (1u8..=7).prop_flat_map(|nv| clauses_strategy(nv, 12, 0, 5)),
        3 => (2u8..=7).prop_flat_map(|nv| clauses_strategy(nv, 10, 1, 3)),
        2 => gadget_strategy(),
        2 => contradiction_strategy(),
        2 => regroup_strategy(7),
        // many clauses: the builders sort clauses with a non-total comparator, which only larger inputs exercise
        1 => (3u8..=7).prop_flat_map(|nv| proptest::collection::vec(proptest::collection::vec(lit_strategy(nv), 1..=3), 20..=44)),
        1 => (1u8..=7).prop_flat_map(|nv| clauses_strategy(nv, 6, 1, 1)),
        // wide clauses: up to 14 literal occurrences, i.e. many repeated and complementary literals per clause
        1 => (2u8..=7).prop_flat_map(|nv| clauses_strategy(nv, 5, 4, 14)),
        1 => Just(vec![]),
    ]
    .prop_map(|clauses| CnfCase { clauses })
    .boxed()
}

/// CNFs for the solver-facing checks: n <= 6, <= 10 clauses of length 1..4 (occasionally an empty clause)
/// CNFs over many variables (20..130 labels, crossing 32, 64 and 128), for checks whose oracle does not need a
/// truth table (orders, dtrees, derived vtrees, structural and sampled-assignment checks)
pub fn big_cnf_strategy() -> BoxedStrategy<CnfCase> {
    (20u8..=130)
        .prop_flat_map(|nv| {
            proptest::collection::vec(
                proptest::collection::vec((0..nv, any::<bool>()), 1..=4),
                20..=150,
            )
        })
        .prop_map(|clauses| CnfCase { clauses })
        .boxed()
}

pub fn sat_cnf_strategy() -> BoxedStrategy<CnfCase> {
    prop_oneof![
        6 => (1u8..=6).prop_flat_map(|nv| clauses_strategy(nv, 10, 1, 4)),
        3 => (3u8..=6).prop_flat_map(|nv| clauses_strategy(nv, 8, 2, 4)),
        2 => gadget_strategy(),
        2 => regroup_strategy(6),
        1 => contradiction_strategy().prop_map(|cs| cs.into_iter().map(|c| c.into_iter().map(|(v, p)| (v.min(5), p)).collect()).collect()),
        1 => (1u8..=6).prop_flat_map(|nv| clauses_strategy(nv, 6, 0, 3)),
        // long clauses: up to every variable in a clause, and repeated / complementary literals beyond that
        1 => (4u8..=6).prop_flat_map(|nv| clauses_strategy(nv, 8, 3, 8)),
    ]
    .prop_map(|clauses| CnfCase { clauses })
    .boxed()
}
