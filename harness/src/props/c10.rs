//! C10 — queries are pure: answers never depend on earlier queries; scratch is empty after every call.
use crate::bddi::*;
use crate::cnfgen::*;
use crate::engine::*;
use crate::sddi::*;
use crate::tt::Tt;
use crate::vtgen::*;
use crate::walk::*;
use proptest::prelude::*;
use rsdd::builder::bdd::RobddBuilder;
use rsdd::builder::cache::IteTable;
use rsdd::builder::decision_nnf::{DecisionNNFBuilder, StandardDecisionNNFBuilder};
use rsdd::builder::sdd::CompressionSddBuilder;
use rsdd::builder::{BottomUpBuilder, TopDownBuilder};
use rsdd::constants::primes;
use rsdd::repr::{create_semantic_hash_map, BddNode, BddPtr, DDNNFPtr, PartialModel, SddPtr, VarLabel, VarOrder, WmcParams};
use rsdd::util::semirings::{BooleanSemiring, Complex, ExpectedUtility, FiniteField, Polynomial, RealSemiring, Semiring};
use serde::{Deserialize, Serialize};
use std::collections::{BTreeSet, HashSet};

#[derive(Clone, Debug, Serialize, Deserialize, PartialEq)]
pub enum Q {
    WmcReal(u16, Vec<u8>),
    WmcFf32(u16, Vec<u8>),
    WmcFf64(u16, Vec<u8>),
    WmcEu(u16, Vec<u8>),
    WmcComplex(u16, Vec<u8>),
    WmcPoly(u16, Vec<u8>),
    WmcBool(u16, Vec<u8>),
    Evaluate(u16, u8),
    CountNodes(u16),
    SemHash32(u16),
    SemHash64(u16),
    /// semantic_hash under a caller-made normalised map over the same prime (another map, same field)
    SemHash32Map(u16, Vec<u8>),
    SemHash64Map(u16, Vec<u8>),
    MarginalMap(u16, u8, Vec<u8>),
    Meu(u16, u8, Vec<u8>),
    BbReal(u16, u8, Vec<u8>),
    BbEu(u16, u8, Vec<u8>),
    Smooth(u16, Vec<u8>),
    Condition(u16, u8, bool),
    ConditionModel(u16, Vec<Option<bool>>),
    Exists(u16, u8),
}

impl Q {
    fn target(&self) -> Option<u16> {
        Some(match self {
            Q::WmcReal(i, _) | Q::WmcFf32(i, _) | Q::WmcFf64(i, _) | Q::WmcEu(i, _) | Q::WmcComplex(i, _) | Q::WmcPoly(i, _) | Q::WmcBool(i, _) => *i,
            Q::Evaluate(i, _) | Q::CountNodes(i) | Q::SemHash32(i) | Q::SemHash64(i) => *i,
            Q::SemHash32Map(i, _) | Q::SemHash64Map(i, _) => *i,
            Q::MarginalMap(i, _, _) | Q::Meu(i, _, _) | Q::BbReal(i, _, _) | Q::BbEu(i, _, _) => *i,
            Q::Smooth(i, _) | Q::Condition(i, _, _) | Q::ConditionModel(i, _) | Q::Exists(i, _) => *i,
        })
    }
    fn class(&self) -> &'static str {
        match self {
            Q::WmcReal(..) => "real",
            Q::WmcFf32(..) | Q::WmcFf64(..) | Q::SemHash32(..) | Q::SemHash64(..) | Q::SemHash32Map(..) | Q::SemHash64Map(..) => "finite-field",
            Q::WmcEu(..) => "expected-utility",
            Q::WmcComplex(..) => "complex",
            Q::WmcPoly(..) => "polynomial",
            Q::WmcBool(..) | Q::Evaluate(..) => "boolean",
            Q::CountNodes(..) => "usize",
            Q::MarginalMap(..) | Q::BbReal(..) => "optimisation-real",
            Q::Meu(..) | Q::BbEu(..) => "optimisation-eu",
            Q::Smooth(..) | Q::Condition(..) | Q::ConditionModel(..) | Q::Exists(..) => "diagram",
        }
    }
}

#[derive(Clone, Debug, PartialEq)]
pub enum Ans {
    F(f64),
    U(u128),
    Pair(f64, f64),
    Vecf(Vec<f64>),
    B(bool),
    N(usize),
    Diagram(Tt, f64),
    Opt(f64, f64, Vec<Option<bool>>),
}

fn sel(s: &[u8], v: usize, k: usize) -> u8 {
    s.get((v * 3 + k) % s.len().max(1)).copied().unwrap_or(1)
}

fn real_params(n: usize, s: &[u8], normalised: bool) -> WmcParams<RealSemiring> {
    let mut p = WmcParams::<RealSemiring>::default();
    for v in 0..n {
        if normalised {
            let k = (sel(s, v, 0) % 9) as f64 / 8.0;
            p.set_weight(VarLabel::new_usize(v), RealSemiring(1.0 - k), RealSemiring(k));
        } else {
            p.set_weight(
                VarLabel::new_usize(v),
                RealSemiring((sel(s, v, 1) % 5) as f64),
                RealSemiring((sel(s, v, 2) % 5) as f64),
            );
        }
    }
    // 0..3 weights are set once more to the value they have: the table's content is what was asked for, the number of
    // updates it has seen differs from query to query (tables that differ in content but not in "age" then meet)
    for v in 0..(sel(s, 1, 0) as usize % 4).min(n) {
        let (l, h) = p.var_weight(VarLabel::new_usize(v)).clone();
        p.set_weight(VarLabel::new_usize(v), l, h);
    }
    p
}

fn eu_params(n: usize, s: &[u8]) -> WmcParams<ExpectedUtility> {
    let mut p = WmcParams::<ExpectedUtility>::default();
    for v in 0..n {
        let k = (sel(s, v, 0) % 9) as f64 / 8.0;
        let u = (sel(s, v, 1) % 5) as f64;
        p.set_weight(VarLabel::new_usize(v), ExpectedUtility(1.0 - k, 0.0), ExpectedUtility(k, k * u));
    }
    // 0..3 weights are set once more to the value they have: the table's content is what was asked for, the number of
    // updates it has seen differs from query to query (tables that differ in content but not in "age" then meet)
    for v in 0..(sel(s, 1, 0) as usize % 4).min(n) {
        let (l, h) = p.var_weight(VarLabel::new_usize(v)).clone();
        p.set_weight(VarLabel::new_usize(v), l, h);
    }
    p
}

fn ff_params<const P: u128>(n: usize, s: &[u8]) -> WmcParams<FiniteField<P>> {
    let mut p = WmcParams::<FiniteField<P>>::default();
    for v in 0..n {
        let r = (sel(s, v, 0) as u128 * 0x9E37_79B9 + sel(s, v, 1) as u128 * 65537 + 3) % P;
        p.set_weight(VarLabel::new_usize(v), FiniteField::new(P + 1 - r), FiniteField::new(r));
    }
    // 0..3 weights are set once more to the value they have: the table's content is what was asked for, the number of
    // updates it has seen differs from query to query (tables that differ in content but not in "age" then meet)
    for v in 0..(sel(s, 1, 0) as usize % 4).min(n) {
        let (l, h) = p.var_weight(VarLabel::new_usize(v)).clone();
        p.set_weight(VarLabel::new_usize(v), l, h);
    }
    p
}

fn qvars(n: usize, mask: u8) -> Vec<VarLabel> {
    (0..n).filter(|v| (mask >> v) & 1 == 1).map(VarLabel::new_usize).collect()
}

fn model_vec(pm: &PartialModel, n: usize) -> Vec<Option<bool>> {
    (0..n).map(|v| pm.get(VarLabel::new_usize(v))).collect()
}

/// answer one query on pool entry; `extra` receives any diagram produced (for the scratch check)
fn answer<'a, T: IteTable<'a, BddPtr<'a>> + Default>(
    b: &'a RobddBuilder<'a, T>,
    pool: &[(BddPtr<'a>, Tt)],
    n: usize,
    q: &Q,
    extra: &mut Vec<BddPtr<'a>>,
) -> Ans {
    let at = |i: &u16| pool[pick(*i, pool.len())].0;
    match q {
        Q::WmcReal(i, s) => Ans::F(at(i).unsmoothed_wmc(&real_params(n, s, true)).0),
        Q::WmcFf32(i, s) => Ans::U(at(i).unsmoothed_wmc(&ff_params::<{ primes::U32_SMALL }>(n, s)).value()),
        Q::WmcFf64(i, s) => Ans::U(at(i).unsmoothed_wmc(&ff_params::<{ primes::U64_LARGEST }>(n, s)).value()),
        Q::WmcEu(i, s) => {
            let r = at(i).unsmoothed_wmc(&eu_params(n, s));
            Ans::Pair(r.0, r.1)
        }
        Q::WmcComplex(i, s) => {
            let mut p = WmcParams::<Complex>::default();
            for v in 0..n {
                let a = (sel(s, v, 0) % 9) as f64 / 8.0;
                let bi = (sel(s, v, 1) % 5) as f64 - 2.0;
                p.set_weight(VarLabel::new_usize(v), Complex { re: 1.0 - a, im: -bi }, Complex { re: a, im: bi });
            }
            let r = at(i).unsmoothed_wmc(&p);
            Ans::Pair(r.re, r.im)
        }
        Q::WmcPoly(i, s) => {
            let mut p = WmcParams::<Polynomial<RealSemiring>>::default();
            for v in 0..n {
                let mut hi = Polynomial::<RealSemiring>::zero();
                hi.coefficients[0] = RealSemiring((sel(s, v, 0) % 3) as f64);
                hi.coefficients[1] = RealSemiring((sel(s, v, 1) % 3) as f64 - 1.0);
                hi.len = 2;
                let mut lo = Polynomial::<RealSemiring>::zero();
                lo.coefficients[0] = RealSemiring(1.0 - hi.coefficients[0].0);
                lo.coefficients[1] = RealSemiring(-hi.coefficients[1].0);
                lo.len = 2;
                p.set_weight(VarLabel::new_usize(v), lo, hi);
            }
            let r = at(i).unsmoothed_wmc(&p);
            Ans::Vecf(r.coefficients.iter().map(|c| c.0).collect())
        }
        Q::WmcBool(i, s) => {
            let mut p = WmcParams::<BooleanSemiring>::default();
            for v in 0..n {
                p.set_weight(
                    VarLabel::new_usize(v),
                    BooleanSemiring(sel(s, v, 0) & 1 == 1),
                    BooleanSemiring(sel(s, v, 1) & 1 == 1),
                );
            }
            Ans::B(at(i).unsmoothed_wmc(&p).0)
        }
        Q::Evaluate(i, bits) => {
            let asg: Vec<bool> = (0..n).map(|v| (bits >> v) & 1 == 1).collect();
            Ans::B(at(i).evaluate(&asg))
        }
        Q::CountNodes(i) => Ans::N(at(i).count_nodes()),
        Q::SemHash32(i) => Ans::U(at(i).semantic_hash(&create_semantic_hash_map::<{ primes::U32_SMALL }>(n)).value()),
        Q::SemHash64(i) => Ans::U(at(i).semantic_hash(&create_semantic_hash_map::<{ primes::U64_LARGEST }>(n)).value()),
        Q::SemHash32Map(i, s) => Ans::U(at(i).semantic_hash(&ff_params::<{ primes::U32_SMALL }>(n, s)).value()),
        Q::SemHash64Map(i, s) => Ans::U(at(i).semantic_hash(&ff_params::<{ primes::U64_LARGEST }>(n, s)).value()),
        Q::MarginalMap(i, mask, s) => {
            let (v, m) = at(i).marginal_map(&qvars(n, *mask), n, &real_params(n, s, true));
            Ans::Opt(v, 0.0, model_vec(&m, n))
        }
        Q::BbReal(i, mask, s) => {
            let (v, m) = at(i).bb::<RealSemiring>(&qvars(n, *mask), n, &real_params(n, s, true));
            Ans::Opt(v.0, 0.0, model_vec(&m, n))
        }
        Q::Meu(i, mask, s) => {
            let (v, m) = at(i).meu(&qvars(n, *mask), n, &eu_params(n, s));
            Ans::Opt(v.0, v.1, model_vec(&m, n))
        }
        Q::BbEu(i, mask, s) => {
            let (v, m) = at(i).bb::<ExpectedUtility>(&qvars(n, *mask), n, &eu_params(n, s));
            Ans::Opt(v.0, v.1, model_vec(&m, n))
        }
        Q::Smooth(i, s) => {
            // smooth over a prefix of the order that covers the diagram: between (deepest tested level + 1) and n
            let lv = order_levels(b.order());
            let lo = bdd_nodes(at(i)).iter().map(|nd| lv[nd.var.value_usize()] + 1).max().unwrap_or(0);
            let ns = lo + (sel(s, 0, 2) as usize) % (n - lo + 1);
            let r = b.smooth(at(i), ns);
            extra.push(r);
            let c = r.unsmoothed_wmc(&real_params(n, s, false)).0;
            Ans::Diagram(bdd_tt(r), c)
        }
        Q::Condition(i, v, val) => {
            let v = ((*v as usize) * n) >> 8;
            let r = b.condition(at(i), VarLabel::new_usize(v), *val);
            extra.push(r);
            Ans::Diagram(bdd_tt(r), 0.0)
        }
        Q::ConditionModel(i, m) => {
            let m: Vec<Option<bool>> = (0..n).map(|k| m.get(k).copied().flatten()).collect();
            let r = b.condition_model(at(i), &PartialModel::from_assignments(&m));
            extra.push(r);
            Ans::Diagram(bdd_tt(r), 0.0)
        }
        Q::Exists(i, v) => {
            let v = ((*v as usize) * n) >> 8;
            let r = b.exists(at(i), VarLabel::new_usize(v));
            extra.push(r);
            Ans::Diagram(bdd_tt(r), 0.0)
        }
    }
}

fn scratch_clean<'a>(pool: &[(BddPtr<'a>, Tt)], extra: &[BddPtr<'a>]) -> Option<String> {
    let mut seen: HashSet<*const BddNode<'a>> = HashSet::new();
    for p in pool.iter().map(|x| x.0).chain(extra.iter().copied()) {
        for nd in bdd_nodes(p) {
            if seen.insert(nd as *const _) && !BddPtr::Reg(nd).is_scratch_cleared() {
                return Some(format!("node on variable {} still holds scratch data", nd.var.value()));
            }
        }
    }
    None
}

#[derive(Clone, Debug, Serialize, Deserialize)]
pub struct Case {
    pub cfg: BddCfg,
    pub ops: Vec<BOp>,
    pub queries: Vec<Q>,
}

pub struct BddQueries;

fn build<'a, T: IteTable<'a, BddPtr<'a>> + Default>(b: &'a RobddBuilder<'a, T>, case: &Case) -> (Vec<(BddPtr<'a>, Tt)>, usize) {
    let mut run = BddRun::new(b, case.cfg.n0 as usize);
    run.max_new_vars = 0;
    for op in case.ops.iter() {
        run.step(op);
    }
    (run.pool, run.n)
}

/// queries that are builder operations: their results join the pool (in the long-lived builder and in the
/// fresh copy alike), so that later queries also run on smoothed / conditioned / quantified diagrams that
/// share nodes with the rest of the pool
fn produces_diagram(q: &Q) -> bool {
    matches!(q, Q::Smooth(..) | Q::Condition(..) | Q::ConditionModel(..) | Q::Exists(..))
}

fn fresh_answer<'a, T: IteTable<'a, BddPtr<'a>> + Default>(b: &'a RobddBuilder<'a, T>, case: &Case, q: &Q, prior: &[Q]) -> Ans {
    let (mut pool, n) = build(b, case);
    let base_len = pool.len();
    // the fresh copy holds exactly what the query needs: of the earlier diagram-producing queries only those in
    // the dependency cone of the queried diagram are replayed (each pushes one diagram); the others leave a
    // placeholder so that pool positions line up. Residue that an earlier smooth / condition / exists on ANOTHER
    // diagram left in the long-lived builder is thus absent here.
    let producers: Vec<&Q> = prior.iter().filter(|x| produces_diagram(x)).collect();
    let mut cone: BTreeSet<usize> = BTreeSet::new();
    let mut t = pick(q.target().unwrap(), base_len + producers.len());
    while t >= base_len {
        let k = t - base_len;
        cone.insert(k);
        t = pick(producers[k].target().unwrap(), base_len + k);
    }
    for (k, pq) in producers.iter().enumerate() {
        if cone.contains(&k) {
            let mut extra = Vec::new();
            let _ = answer(b, &pool, n, pq, &mut extra);
            debug_assert_eq!(extra.len(), 1);
            for r in extra {
                pool.push((r, bdd_tt(r)));
            }
        } else {
            pool.push((BddPtr::PtrTrue, Tt::TRUE));
        }
    }
    let mut extra = Vec::new();
    answer(b, &pool, n, q, &mut extra)
}

fn go<'a, T: IteTable<'a, BddPtr<'a>> + Default>(b: &'a RobddBuilder<'a, T>, case: &Case, st: &mut Stats) -> CaseResult {
    let (mut pool, n) = build(b, case);
    let base_len = pool.len();
    if let Some(m) = scratch_clean(&pool, &[]) {
        return fail("C10/scratch-left-behind", format!("after building the pool: {}", m));
    }
    let mut classes: BTreeSet<&'static str> = BTreeSet::new();
    let mut seen_q: Vec<&Q> = Vec::new();
    let mut repeated = false;
    for (i, q) in case.queries.iter().enumerate() {
        let mut extra = Vec::new();
        let got = answer(b, &pool, n, q, &mut extra);
        if let Some(m) = scratch_clean(&pool, &extra) {
            return fail(
                "C10/scratch-left-behind",
                format!("after query #{} {:?}: {}", i, q, m),
            );
        }
        // the same query on a freshly built copy of the pool, in a brand-new builder
        let cfg = case.cfg.clone();
        let want: Ans = with_bdd_builder!(&cfg, fresh_answer(case, q, &case.queries[..i]));
        ensure!(
            got == want,
            format!("C10/answer-depends-on-history:{}", q.class()),
            "query #{} {:?} answered {:?} after the earlier queries {:?}, but {:?} on a freshly built copy",
            i,
            q,
            got,
            &case.queries[..i],
            want
        );
        classes.insert(q.class());
        if seen_q.contains(&q) {
            repeated = true;
        }
        seen_q.push(q);
        st.bump(&format!("q.{}", q.class()));
        if !produces_diagram(q) {
            if let Some(ix) = q.target() {
                st.flag("query_on_a_diagram_produced_by_an_earlier_query", pick(ix, pool.len()) >= base_len);
            }
        }
        for r in extra {
            pool.push((r, bdd_tt(r)));
        }
    }
    // sharing among the pool entries that were queried
    let mut owners: std::collections::HashMap<*const BddNode<'a>, usize> = std::collections::HashMap::new();
    for (p, _) in pool.iter() {
        for nd in bdd_nodes(*p) {
            *owners.entry(nd as *const _).or_insert(0) += 1;
        }
    }
    let shared = owners.values().any(|c| *c >= 2);
    st.flag("pool_shares_nodes", shared);
    st.flag("repeated_query", repeated);
    if classes.len() >= 2 && shared && repeated {
        st.mark_nontrivial();
    }
    Ok(())
}

fn sel_strategy() -> impl Strategy<Value = Vec<u8>> {
    prop_oneof![1 => Just(vec![1u8, 2, 3]), 1 => Just(vec![5u8, 0, 7, 2]), 2 => proptest::collection::vec(any::<u8>(), 3..8)]
}

pub fn q_strategy() -> BoxedStrategy<Q> {
    let i = || idx_strategy();
    prop_oneof![
        3 => (i(), sel_strategy()).prop_map(|(a, s)| Q::WmcReal(a, s)),
        2 => (i(), sel_strategy()).prop_map(|(a, s)| Q::WmcFf32(a, s)),
        2 => (i(), sel_strategy()).prop_map(|(a, s)| Q::WmcFf64(a, s)),
        2 => (i(), sel_strategy()).prop_map(|(a, s)| Q::WmcEu(a, s)),
        2 => (i(), sel_strategy()).prop_map(|(a, s)| Q::WmcComplex(a, s)),
        2 => (i(), sel_strategy()).prop_map(|(a, s)| Q::WmcPoly(a, s)),
        1 => (i(), sel_strategy()).prop_map(|(a, s)| Q::WmcBool(a, s)),
        2 => (i(), any::<u8>()).prop_map(|(a, b)| Q::Evaluate(a, b)),
        3 => i().prop_map(Q::CountNodes),
        2 => i().prop_map(Q::SemHash32),
        2 => i().prop_map(Q::SemHash64),
        1 => (i(), sel_strategy()).prop_map(|(a, s)| Q::SemHash32Map(a, s)),
        1 => (i(), sel_strategy()).prop_map(|(a, s)| Q::SemHash64Map(a, s)),
        2 => (i(), any::<u8>(), sel_strategy()).prop_map(|(a, m, s)| Q::MarginalMap(a, m, s)),
        2 => (i(), any::<u8>(), sel_strategy()).prop_map(|(a, m, s)| Q::Meu(a, m, s)),
        1 => (i(), any::<u8>(), sel_strategy()).prop_map(|(a, m, s)| Q::BbReal(a, m, s)),
        1 => (i(), any::<u8>(), sel_strategy()).prop_map(|(a, m, s)| Q::BbEu(a, m, s)),
        3 => (i(), sel_strategy()).prop_map(|(a, s)| Q::Smooth(a, s)),
        2 => (i(), any::<u8>(), any::<bool>()).prop_map(|(a, v, b)| Q::Condition(a, v, b)),
        2 => (i(), proptest::collection::vec(proptest::option::weighted(0.4, any::<bool>()), 8)).prop_map(|(a, m)| Q::ConditionModel(a, m)),
        2 => (i(), any::<u8>()).prop_map(|(a, v)| Q::Exists(a, v)),
    ]
    .boxed()
}

/// query histories with deliberate repetitions: a later query is sometimes a copy of an earlier one
fn queries_strategy() -> impl Strategy<Value = Vec<Q>> {
    (proptest::collection::vec(q_strategy(), 1..=20), proptest::collection::vec((any::<u16>(), any::<u16>()), 0..=6)).prop_map(
        |(mut qs, reps)| {
            for (from, at) in reps {
                let f = pick(from, qs.len());
                let q = qs[f].clone();
                let a = pick(at, qs.len() + 1);
                qs.insert(a, q);
            }
            qs
        },
    )
}

impl SubCheckT for BddQueries {
    type Case = Case;
    const NAME: &'static str = "bdd_queries";
    const RULE: &'static str = "a pool of BDDs sharing nodes built by a <=25-op history in one builder (random order, either cache), then a history of <=26 queries on random pool entries: unsmoothed_wmc in real / two finite fields / expected utility / complex / polynomial / Boolean, evaluate, count_nodes, fold-based semantic_hash for two primes and under caller-made maps, marginal_map, meu, bb over reals and expected utility, smooth (plus a count on its result), condition, condition_model, exists; each answer must equal the answer to the same single query on a freshly built copy in a brand-new builder (which replays, of the earlier smooth / condition / exists queries, only those that built the queried diagram), and after every call every node reachable from the pool and from the result must report is_scratch_cleared(). Non-trivial: >=2 result types, the pool shares an internal node, and an earlier query is repeated";
    fn cases(tier: Tier) -> u32 {
        tier.pick(1500, 50_000)
    }
    fn strategy(_tier: Tier) -> BoxedStrategy<Case> {
        (cfg_strategy(6), ops_strategy(25), queries_strategy())
            .prop_map(|(cfg, ops, queries)| Case { cfg, ops, queries })
            .boxed()
    }
    fn run(case: &Case, st: &mut Stats) -> CaseResult {
        with_bdd_builder!(&case.cfg, go(case, st))
    }
}

// ---------------------------------------------------------------------------
// SDD and top-down diagrams
// ---------------------------------------------------------------------------

#[derive(Clone, Debug, Serialize, Deserialize, PartialEq)]
pub enum SQ {
    WmcReal(u16, Vec<u8>),
    WmcFf64(u16, Vec<u8>),
    WmcEu(u16, Vec<u8>),
    CountNodes(u16),
    SemHash64(u16),
    Evaluate(u16, u8),
    Condition(u16, u8, bool),
    WmcFf32(u16, Vec<u8>),
    WmcComplex(u16, Vec<u8>),
    WmcPoly(u16, Vec<u8>),
    WmcBool(u16, Vec<u8>),
    Exists(u16, u8),
    SemHash32(u16),
    SemHash64Map(u16, Vec<u8>),
    DSemHash32(u16),
    DSemHash64Map(u16, Vec<u8>),
    /// queries on the top-down diagrams (index into the list: standard store, semantic store, then the
    /// results of earlier DCondition queries)
    DWmcReal(u16, Vec<u8>),
    DCountNodes(u16),
    DCondition(u16, u8, bool),
    /// condition the negation of a top-down diagram through its owning store (the result is compared, not kept)
    DConditionNeg(u16, u8, bool),
    DSemHash64(u16),
    DEvaluate(u16, u8),
    DWmcEu(u16, Vec<u8>),
    DMarginalMap(u16, u8, Vec<u8>),
    DMeu(u16, u8, Vec<u8>),
    DBbReal(u16, u8, Vec<u8>),
}

thread_local! {
    /// owner (standard store?) of the diagram the last DCondition produced, read by `absorb`
    #[allow(non_upper_case_globals)]
    static extra_d_owner: std::cell::Cell<bool> = const { std::cell::Cell::new(true) };
}

fn sq_produces_diagram(q: &SQ) -> bool {
    matches!(q, SQ::Condition(..) | SQ::Exists(..) | SQ::DCondition(..))
}

#[derive(Clone, Debug, Serialize, Deserialize)]
pub struct SddCase {
    pub vt: VtreeCase,
    pub ops: Vec<SOp>,
    pub cnf: CnfCase,
    pub queries: Vec<SQ>,
}

pub struct SddQueries;

struct World<'a> {
    sb: &'a CompressionSddBuilder<'a>,
    db: &'a StandardDecisionNNFBuilder<'a>,
    xb: &'a SemStore<'a>,
    pool: Vec<(SddPtr<'a>, Tt)>,
    /// top-down diagrams: [standard store, semantic store (64-bit field), conditioned results...]
    ds: Vec<(BddPtr<'a>, bool)>,
    n: usize,
    dn: usize,
}

type SemStore<'a> = rsdd::builder::decision_nnf::SemanticDecisionNNFBuilder<'a, { primes::U64_LARGEST }>;

fn build_world<'a>(
    sb: &'a CompressionSddBuilder<'a>,
    db: &'a StandardDecisionNNFBuilder<'a>,
    xb: &'a SemStore<'a>,
    case: &SddCase,
    dn: usize,
) -> World<'a> {
    let shape = case.vt.shape();
    let mut run = SddRun::new(sb, shape.leaves());
    for op in case.ops.iter() {
        run.step(op);
    }
    let d = db.compile_cnf_topdown(&case.cnf.to_rsdd());
    let d2 = xb.compile_cnf_topdown(&case.cnf.to_rsdd());
    World {
        sb,
        db,
        xb,
        pool: run.pool,
        ds: vec![(d, true), (d2, false)],
        n: shape.leaves().len(),
        dn,
    }
}

fn sdd_answer<'a>(w: &World<'a>, q: &SQ, extra_s: &mut Vec<SddPtr<'a>>, extra_d: &mut Vec<BddPtr<'a>>) -> Ans {
    let at = |i: &u16| w.pool[pick(*i, w.pool.len())].0;
    let dat = |k: &u16| w.ds[pick(*k, w.ds.len())].0;
    match q {
        SQ::WmcReal(i, s) => Ans::F(at(i).unsmoothed_wmc(&real_params(w.n, s, true)).0),
        SQ::WmcFf64(i, s) => Ans::U(at(i).unsmoothed_wmc(&ff_params::<{ primes::U64_LARGEST }>(w.n, s)).value()),
        SQ::WmcEu(i, s) => {
            let r = at(i).unsmoothed_wmc(&eu_params(w.n, s));
            Ans::Pair(r.0, r.1)
        }
        SQ::CountNodes(i) => Ans::N(at(i).count_nodes()),
        SQ::SemHash64(i) => Ans::U(at(i).semantic_hash(&create_semantic_hash_map::<{ primes::U64_LARGEST }>(w.n)).value()),
        SQ::Evaluate(i, bits) => {
            let asg: Vec<bool> = (0..w.n).map(|v| (bits >> v) & 1 == 1).collect();
            Ans::B(at(i).evaluate(&asg))
        }
        SQ::Condition(i, v, val) => {
            let v = ((*v as usize) * w.n) >> 8;
            let r = w.sb.condition(at(i), VarLabel::new_usize(v), *val);
            extra_s.push(r);
            Ans::Diagram(sdd_tt(r), 0.0)
        }
        SQ::WmcFf32(i, s) => Ans::U(at(i).unsmoothed_wmc(&ff_params::<{ primes::U32_SMALL }>(w.n, s)).value()),
        SQ::WmcComplex(i, s) => {
            let mut p = WmcParams::<Complex>::default();
            for v in 0..w.n {
                let a = (sel(s, v, 0) % 9) as f64 / 8.0;
                let bi = (sel(s, v, 1) % 5) as f64 - 2.0;
                p.set_weight(VarLabel::new_usize(v), Complex { re: 1.0 - a, im: -bi }, Complex { re: a, im: bi });
            }
            let r = at(i).unsmoothed_wmc(&p);
            Ans::Pair(r.re, r.im)
        }
        SQ::WmcPoly(i, s) => {
            let mut p = WmcParams::<Polynomial<RealSemiring>>::default();
            for v in 0..w.n {
                let mut hi = Polynomial::<RealSemiring>::zero();
                hi.coefficients[0] = RealSemiring((sel(s, v, 0) % 3) as f64);
                hi.coefficients[1] = RealSemiring((sel(s, v, 1) % 3) as f64 - 1.0);
                hi.len = 2;
                let mut lo = Polynomial::<RealSemiring>::zero();
                lo.coefficients[0] = RealSemiring(1.0 - hi.coefficients[0].0);
                lo.coefficients[1] = RealSemiring(-hi.coefficients[1].0);
                lo.len = 2;
                p.set_weight(VarLabel::new_usize(v), lo, hi);
            }
            let r = at(i).unsmoothed_wmc(&p);
            Ans::Vecf(r.coefficients.iter().map(|c| c.0).collect())
        }
        SQ::WmcBool(i, s) => {
            let mut p = WmcParams::<BooleanSemiring>::default();
            for v in 0..w.n {
                p.set_weight(VarLabel::new_usize(v), BooleanSemiring(sel(s, v, 0) & 1 == 1), BooleanSemiring(sel(s, v, 1) & 1 == 1));
            }
            Ans::B(at(i).unsmoothed_wmc(&p).0)
        }
        SQ::SemHash32(i) => Ans::U(at(i).semantic_hash(&create_semantic_hash_map::<{ primes::U32_SMALL }>(w.n)).value()),
        SQ::SemHash64Map(i, s) => Ans::U(at(i).semantic_hash(&ff_params::<{ primes::U64_LARGEST }>(w.n, s)).value()),
        SQ::DSemHash32(k) => Ans::U(dat(k).semantic_hash(&create_semantic_hash_map::<{ primes::U32_SMALL }>(w.dn.max(1))).value()),
        SQ::DSemHash64Map(k, s) => Ans::U(dat(k).semantic_hash(&ff_params::<{ primes::U64_LARGEST }>(w.dn.max(1), s)).value()),
        SQ::Exists(i, v) => {
            let v = ((*v as usize) * w.n) >> 8;
            let r = w.sb.exists(at(i), VarLabel::new_usize(v));
            extra_s.push(r);
            Ans::Diagram(sdd_tt(r), 0.0)
        }
        SQ::DWmcReal(k, s) => Ans::F(dat(k).unsmoothed_wmc(&real_params(w.dn, s, true)).0),
        SQ::DWmcEu(k, s) => {
            let r = dat(k).unsmoothed_wmc(&eu_params(w.dn, s));
            Ans::Pair(r.0, r.1)
        }
        SQ::DCountNodes(k) => Ans::N(dat(k).count_nodes()),
        SQ::DSemHash64(k) => Ans::U(dat(k).semantic_hash(&create_semantic_hash_map::<{ primes::U64_LARGEST }>(w.dn.max(1))).value()),
        SQ::DEvaluate(k, bits) => {
            let asg: Vec<bool> = (0..w.dn).map(|v| (bits >> v) & 1 == 1).collect();
            Ans::B(dat(k).evaluate(&asg))
        }
        SQ::DMarginalMap(k, mask, s) => {
            let (v, m) = dat(k).marginal_map(&qvars(w.dn, *mask), w.dn, &real_params(w.dn, s, true));
            Ans::Opt(v, 0.0, model_vec(&m, w.dn))
        }
        SQ::DBbReal(k, mask, s) => {
            let (v, m) = dat(k).bb::<RealSemiring>(&qvars(w.dn, *mask), w.dn, &real_params(w.dn, s, true));
            Ans::Opt(v.0, 0.0, model_vec(&m, w.dn))
        }
        SQ::DMeu(k, mask, s) => {
            let (v, m) = dat(k).meu(&qvars(w.dn, *mask), w.dn, &eu_params(w.dn, s));
            Ans::Opt(v.0, v.1, model_vec(&m, w.dn))
        }
        SQ::DCondition(k, v, val) => {
            if w.dn == 0 {
                return Ans::N(0);
            }
            let v = ((*v as usize) * w.dn) >> 8;
            // conditioning goes through the builder that owns the diagram (standard store or hash-identified store)
            let (d, std_owned) = w.ds[pick(*k, w.ds.len())];
            let r = if std_owned {
                w.db.condition(d, VarLabel::new_usize(v), *val)
            } else {
                rsdd::builder::TopDownBuilder::condition(w.xb, d, VarLabel::new_usize(v), *val)
            };
            extra_d_owner.with(|o| o.set(std_owned));
            extra_d.push(r);
            Ans::Diagram(bdd_tt(r), 0.0)
        }
        SQ::DConditionNeg(k, v, val) => {
            if w.dn == 0 {
                return Ans::N(0);
            }
            let v = ((*v as usize) * w.dn) >> 8;
            let (d, std_owned) = w.ds[pick(*k, w.ds.len())];
            let r = if std_owned {
                w.db.condition(d.neg(), VarLabel::new_usize(v), *val)
            } else {
                rsdd::builder::TopDownBuilder::condition(w.xb, d.neg(), VarLabel::new_usize(v), *val)
            };
            Ans::Diagram(bdd_tt(r), 0.0)
        }
    }
}

fn mk_builders<'x>(vt: &VtreeCase, dn: usize) -> (CompressionSddBuilder<'x>, StandardDecisionNNFBuilder<'x>, SemStore<'x>) {
    rsdd::verif_hooks::set_unique_table_capacity(Some(32));
    let sb = CompressionSddBuilder::new(vt.to_vtree());
    let db = StandardDecisionNNFBuilder::new(VarOrder::linear_order(dn));
    let xb = SemStore::new(VarOrder::linear_order(dn));
    rsdd::verif_hooks::set_unique_table_capacity(None);
    (sb, db, xb)
}

fn absorb<'a>(w: &mut World<'a>, es: Vec<SddPtr<'a>>, ed: Vec<BddPtr<'a>>) {
    for r in es {
        w.pool.push((r, sdd_tt(r)));
    }
    for r in ed {
        w.ds.push((r, extra_d_owner.with(|o| o.get())));
    }
}

impl SQ {
    /// (index into the SDD pool, index into the list of top-down diagrams) this query reads
    fn targets(&self) -> (Option<u16>, Option<u16>) {
        match self {
            SQ::WmcReal(i, _) | SQ::WmcFf64(i, _) | SQ::WmcEu(i, _) | SQ::WmcFf32(i, _) | SQ::WmcComplex(i, _) | SQ::WmcPoly(i, _) | SQ::WmcBool(i, _) => (Some(*i), None),
            SQ::CountNodes(i) | SQ::SemHash64(i) | SQ::Evaluate(i, _) | SQ::Condition(i, _, _) | SQ::Exists(i, _) => (Some(*i), None),
            SQ::SemHash32(i) | SQ::SemHash64Map(i, _) => (Some(*i), None),
            SQ::DSemHash32(k) | SQ::DSemHash64Map(k, _) => (None, Some(*k)),
            SQ::DWmcReal(k, _) | SQ::DWmcEu(k, _) | SQ::DCountNodes(k) | SQ::DSemHash64(k) | SQ::DEvaluate(k, _) => (None, Some(*k)),
            SQ::DMarginalMap(k, _, _) | SQ::DMeu(k, _, _) | SQ::DBbReal(k, _, _) | SQ::DCondition(k, _, _) | SQ::DConditionNeg(k, _, _) => (None, Some(*k)),
        }
    }
}

fn fresh_sdd_answer(case: &SddCase, dn: usize, q: &SQ, prior: &[SQ]) -> Ans {
    let (sb2, db2, xb2) = mk_builders(&case.vt, dn);
    let mut w2 = build_world(&sb2, &db2, &xb2, case, dn);
    let (base_s, base_d) = (w2.pool.len(), w2.ds.len());
    // which earlier query produced which pool entry (a DCondition on a diagram of the semantic store, or with no
    // variable at all, produces nothing): simulate the bookkeeping without running anything
    let producers: Vec<&SQ> = prior.iter().filter(|x| sq_produces_diagram(x)).collect();
    let mut made_s: Vec<usize> = Vec::new(); // producer index of SDD pool entry base_s + j
    let mut made_d: Vec<usize> = Vec::new(); // producer index of top-down entry base_d + j
    let mut std_owned: Vec<bool> = w2.ds.iter().map(|x| x.1).collect();
    for (k, pq) in producers.iter().enumerate() {
        match pq {
            SQ::Condition(..) | SQ::Exists(..) => made_s.push(k),
            SQ::DCondition(t, _, _) => {
                if dn > 0 {
                    made_d.push(k);
                    let o = std_owned[pick(*t, std_owned.len())];
                    std_owned.push(o);
                }
            }
            _ => {}
        }
    }
    // dependency cone of the queried entry; pool lengths at the time of producer k
    let len_s_at = |k: usize| base_s + made_s.iter().filter(|p| **p < k).count();
    let len_d_at = |k: usize| base_d + made_d.iter().filter(|p| **p < k).count();
    let mut cone: BTreeSet<usize> = BTreeSet::new();
    let mut work: Vec<(bool, usize)> = Vec::new(); // (is top-down, absolute index)
    match q.targets() {
        (Some(i), _) => work.push((false, pick(i, base_s + made_s.len()))),
        (_, Some(k)) => work.push((true, pick(k, base_d + made_d.len()))),
        _ => {}
    }
    while let Some((is_d, idx)) = work.pop() {
        let prod = if is_d {
            if idx < base_d {
                continue;
            }
            made_d[idx - base_d]
        } else {
            if idx < base_s {
                continue;
            }
            made_s[idx - base_s]
        };
        if cone.insert(prod) {
            match producers[prod].targets() {
                (Some(i), _) => work.push((false, pick(i, len_s_at(prod)))),
                (_, Some(k)) => work.push((true, pick(k, len_d_at(prod)))),
                _ => {}
            }
        }
    }
    for (k, pq) in producers.iter().enumerate() {
        if cone.contains(&k) {
            let (mut es, mut ed) = (Vec::new(), Vec::new());
            let _ = sdd_answer(&w2, pq, &mut es, &mut ed);
            absorb(&mut w2, es, ed);
        } else if made_s.contains(&k) {
            w2.pool.push((SddPtr::PtrTrue, Tt::TRUE));
        } else if let Some(j) = made_d.iter().position(|p| *p == k) {
            w2.ds.push((BddPtr::PtrTrue, std_owned[base_d + j]));
        }
    }
    sdd_answer(&w2, q, &mut Vec::new(), &mut Vec::new())
}

pub fn run_sdd(case: &SddCase, st: &mut Stats) -> CaseResult {
    let cnf = case.cnf.to_rsdd();
    let dn = cnf.num_vars();
    let (sb, db, xb) = mk_builders(&case.vt, dn);
    let mut w = build_world(&sb, &db, &xb, case, dn);
    let clean = |w: &World, es: &[SddPtr], ed: &[BddPtr]| -> Option<String> {
        for p in w.pool.iter().map(|x| x.0).chain(es.iter().copied()) {
            for nd in sdd_nodes(p) {
                if !nd.is_scratch_cleared() {
                    return Some("an SDD node still holds scratch data".into());
                }
            }
        }
        for p in w.ds.iter().map(|x| x.0).chain(ed.iter().copied()) {
            for nd in bdd_nodes(p) {
                if !BddPtr::Reg(nd).is_scratch_cleared() {
                    return Some(format!("a d-DNNF node on variable {} still holds scratch data", nd.var.value()));
                }
            }
        }
        None
    };
    if let Some(m) = clean(&w, &[], &[]) {
        return fail("C10/scratch-left-behind", format!("after building: {}", m));
    }
    let mut classes: HashSet<std::mem::Discriminant<SQ>> = HashSet::new();
    let mut repeated = false;
    for (i, q) in case.queries.iter().enumerate() {
        let (mut es, mut ed) = (Vec::new(), Vec::new());
        let got = sdd_answer(&w, q, &mut es, &mut ed);
        if let Some(m) = clean(&w, &es, &ed) {
            return fail("C10/scratch-left-behind", format!("after query #{} {:?}: {}", i, q, m));
        }
        let want = fresh_sdd_answer(case, dn, q, &case.queries[..i]);
        ensure!(
            got == want,
            "C10/answer-depends-on-history:sdd-or-ddnnf",
            "query #{} {:?} answered {:?} after the earlier queries {:?}, but {:?} on a freshly built copy",
            i,
            q,
            got,
            &case.queries[..i],
            want
        );
        classes.insert(std::mem::discriminant(q));
        if case.queries[..i].contains(q) {
            repeated = true;
        }
        absorb(&mut w, es, ed);
    }
    st.flag("repeated_query", repeated);
    if classes.len() >= 2 && repeated {
        st.mark_nontrivial();
    }
    Ok(())
}

fn sq_strategy() -> BoxedStrategy<SQ> {
    let i = || idx_strategy();
    prop_oneof![
        3 => (i(), sel_strategy()).prop_map(|(a, s)| SQ::WmcReal(a, s)),
        2 => (i(), sel_strategy()).prop_map(|(a, s)| SQ::WmcFf64(a, s)),
        2 => (i(), sel_strategy()).prop_map(|(a, s)| SQ::WmcEu(a, s)),
        3 => i().prop_map(SQ::CountNodes),
        2 => i().prop_map(SQ::SemHash64),
        2 => (i(), any::<u8>()).prop_map(|(a, b)| SQ::Evaluate(a, b)),
        3 => (i(), any::<u8>(), any::<bool>()).prop_map(|(a, v, b)| SQ::Condition(a, v, b)),
        1 => (i(), sel_strategy()).prop_map(|(a, s)| SQ::WmcFf32(a, s)),
        1 => i().prop_map(SQ::SemHash32),
        1 => (i(), sel_strategy()).prop_map(|(a, s)| SQ::SemHash64Map(a, s)),
        1 => i().prop_map(SQ::DSemHash32),
        1 => (i(), sel_strategy()).prop_map(|(k, s)| SQ::DSemHash64Map(k, s)),
        1 => (i(), sel_strategy()).prop_map(|(a, s)| SQ::WmcComplex(a, s)),
        1 => (i(), sel_strategy()).prop_map(|(a, s)| SQ::WmcPoly(a, s)),
        1 => (i(), sel_strategy()).prop_map(|(a, s)| SQ::WmcBool(a, s)),
        2 => (i(), any::<u8>()).prop_map(|(a, v)| SQ::Exists(a, v)),
        2 => (i(), sel_strategy()).prop_map(|(k, s)| SQ::DWmcReal(k, s)),
        1 => (i(), sel_strategy()).prop_map(|(k, s)| SQ::DWmcEu(k, s)),
        2 => i().prop_map(SQ::DCountNodes),
        2 => (i(), any::<u8>(), any::<bool>()).prop_map(|(k, v, b)| SQ::DCondition(k, v, b)),
        1 => (i(), any::<u8>(), any::<bool>()).prop_map(|(k, v, b)| SQ::DConditionNeg(k, v, b)),
        1 => i().prop_map(SQ::DSemHash64),
        1 => (i(), any::<u8>()).prop_map(|(k, b)| SQ::DEvaluate(k, b)),
        1 => (i(), any::<u8>(), sel_strategy()).prop_map(|(k, m, s)| SQ::DMarginalMap(k, m, s)),
        1 => (i(), any::<u8>(), sel_strategy()).prop_map(|(k, m, s)| SQ::DMeu(k, m, s)),
        1 => (i(), any::<u8>(), sel_strategy()).prop_map(|(k, m, s)| SQ::DBbReal(k, m, s)),
    ]
    .boxed()
}

impl SubCheckT for SddQueries {
    type Case = SddCase;
    const NAME: &'static str = "sdd_ddnnf_queries";
    const RULE: &'static str = "an SDD pool (compressing builder, random vtree over <=5 variables, <=20 ops) and a top-down compiled d-DNNF of a random CNF, compiled with the standard and the hash-identified store, then <=20 queries (SDD: counts in seven semirings, count_nodes, semantic_hash, evaluate, condition, exists; top-down: real / expected-utility counts, count_nodes, semantic_hash, evaluate, marginal_map, meu, bb, condition of a diagram and of its negation through the owning store) with repetitions, diagrams produced by condition / exists joining the pools and being queried in turn: every answer equals the same single query on freshly built copies, and no reachable node keeps scratch data after any call. Non-trivial: >=2 kinds of query and a repeated query";
    fn cases(tier: Tier) -> u32 {
        tier.pick(1200, 40_000)
    }
    fn strategy(_tier: Tier) -> BoxedStrategy<SddCase> {
        (
            vtree_case_strategy(5, false),
            proptest::collection::vec(sop_strategy(true, false), 0..=20),
            sat_cnf_strategy(),
            (
                proptest::collection::vec(sq_strategy(), 1..=16),
                proptest::collection::vec((any::<u16>(), any::<u16>()), 0..=5),
                proptest::collection::vec((any::<u16>(), any::<bool>()), 0..=2),
            )
                .prop_map(|(mut qs, reps, companions)| {
                    for (from, at) in reps {
                        let f = pick(from, qs.len());
                        let q = qs[f].clone();
                        let a = pick(at, qs.len() + 1);
                        qs.insert(a, q);
                    }
                    // the same conditioning asked of a diagram and of its negation, next to each other
                    for (from, before) in companions {
                        let start = pick(from, qs.len());
                        if let Some(p) = (start..qs.len()).chain(0..start).find(|p| matches!(qs[*p], SQ::DCondition(..))) {
                            if let SQ::DCondition(k, v, b) = qs[p].clone() {
                                qs.insert(if before { p } else { p + 1 }, SQ::DConditionNeg(k, v, b));
                            }
                        }
                    }
                    qs
                }),
        )
            .prop_map(|(vt, ops, cnf, queries)| SddCase { vt, ops, cnf, queries })
            .boxed()
    }
    fn run(case: &SddCase, st: &mut Stats) -> CaseResult {
        run_sdd(case, st)
    }
}

// ---------------------------------------------------------------------------
// very long query sequences on one builder
// ---------------------------------------------------------------------------

#[derive(Clone, Debug, Serialize, Deserialize)]
pub struct LongCase {
    pub n: u8,
    pub bits: [u64; 4],
    /// queries that produce no diagram (counts, hashes, evaluation, optimisation)
    pub queries: Vec<Q>,
    /// how many queries are issued in all
    pub count: u32,
    pub seed: u64,
}

pub struct ManyQueries;

fn long_pool<'a>(b: &'a RobddBuilder<'a, rsdd::builder::cache::AllIteTable<BddPtr<'a>>>, case: &LongCase, n: usize) -> Vec<(BddPtr<'a>, Tt)> {
    let restrict = |w: u64| {
        let mut t = Tt([w, w.rotate_left(17), !w, w ^ 0x5555_5555_5555_5555]);
        for v in n..crate::tt::NV {
            t = t.cofactor(v, false);
        }
        t
    };
    let (t1, t2) = (restrict(case.bits[0]), restrict(case.bits[1]));
    let f = crate::semi::bdd_from_tt(b, t1, n);
    let g = crate::semi::bdd_from_tt(b, t2, n);
    vec![(f, t1), (g, t2), (b.and(f, g), t1.and(t2)), (b.or(f, g.neg()), t1.or(t2.not()))]
}

pub fn run_long(case: &LongCase, st: &mut Stats) -> CaseResult {
    let n = (case.n as usize).clamp(2, 6);
    let queries: Vec<&Q> = case.queries.iter().filter(|q| !matches!(q, Q::Smooth(..) | Q::Condition(..) | Q::ConditionModel(..) | Q::Exists(..))).collect();
    if queries.len() < 2 {
        return Ok(());
    }
    // reference: each query alone on a freshly built copy
    let mut expected: Vec<Ans> = Vec::new();
    for q in queries.iter() {
        let b0 = RobddBuilder::<rsdd::builder::cache::AllIteTable<BddPtr>>::new(VarOrder::linear_order(n));
        let pool0 = long_pool(&b0, case, n);
        expected.push(answer(&b0, &pool0, n, q, &mut Vec::new()));
    }
    let b = RobddBuilder::<rsdd::builder::cache::AllIteTable<BddPtr>>::new(VarOrder::linear_order(n));
    let pool = long_pool(&b, case, n);
    let total = case.count as u64;
    for i in 0..total {
        let k = (splitmix(case.seed ^ i.wrapping_mul(0x9E37_79B9_7F4A_7C15)) % queries.len() as u64) as usize;
        let got = answer(&b, &pool, n, queries[k], &mut Vec::new());
        ensure!(
            got == expected[k],
            "C10/answer-depends-on-history:long-sequence",
            "query #{} of a sequence on one builder ({:?}) answered {:?}; alone on a freshly built copy the answer is {:?}",
            i,
            queries[k],
            got,
            expected[k]
        );
        if i % 4096 == 4095 || i + 1 == total {
            for (p, _) in pool.iter() {
                for nd in bdd_nodes(*p) {
                    ensure!(
                        BddPtr::Reg(nd).is_scratch_cleared(),
                        "C10/scratch-left-behind",
                        "after {} queries a node on variable {} still holds scratch data",
                        i + 1,
                        nd.var.value()
                    );
                }
            }
        }
    }
    // aligned gaps: a counter of public calls kept in a byte or a 16-bit word comes round again after exactly 2^8 or
    // 2^16 calls. 32 small diagrams on variables of their own are each queried once under one weight table, then
    // another diagram (again on its own variables) is queried F times, then the 32 are queried in turn under a
    // second table: for F = 2^16 - 32 (2^15 - 32, should a query count twice; 2^8 - 32) each of them is asked
    // exactly 2^16 (2^15, 2^8) calls after its first query
    {
        const M: usize = 32;
        let nv = 2 * M + 2;
        let b2 = RobddBuilder::<rsdd::builder::cache::AllIteTable<BddPtr>>::new(VarOrder::linear_order(nv));
        let table = |salt: u64| -> (WmcParams<RealSemiring>, Vec<(f64, f64)>) {
            let mut p = WmcParams::<RealSemiring>::default();
            let mut w = Vec::new();
            for v in 0..nv {
                let k = (splitmix(case.seed ^ salt ^ (v as u64) << 20) % 7 + 1) as f64 / 8.0;
                p.set_weight(VarLabel::new_usize(v), RealSemiring(1.0 - k), RealSemiring(k));
                w.push((1.0 - k, k));
            }
            (p, w)
        };
        let (p1, w1) = table(0x11);
        let (p2, w2) = table(0x22);
        let lit = |v: usize| b2.var(VarLabel::new_usize(v), true);
        let diagrams: Vec<BddPtr> = (0..M).map(|i| if i % 2 == 0 { b2.xor(lit(2 * i), lit(2 * i + 1)) } else { b2.or(lit(2 * i), lit(2 * i + 1).neg()) }).collect();
        let want = |i: usize, w: &Vec<(f64, f64)>| -> f64 {
            let (a, c) = (w[2 * i], w[2 * i + 1]);
            if i % 2 == 0 {
                a.1 * c.0 + a.0 * c.1
            } else {
                // x | !y = 1 - (!x & y)
                a.1 * c.0 + a.1 * c.1 + a.0 * c.0
            }
        };
        let filler = b2.and(lit(2 * M), lit(2 * M + 1));
        let filler_want = w1[2 * M].1 * w1[2 * M + 1].1;
        // every count is one public call, so with gap - M filler calls each of the M diagrams is asked again exactly
        // `gap` calls after its first query; a few neighbouring filler lengths are tried as well
        for (gap, d) in [(1usize << 16, 0isize), (1 << 16, -1), (1 << 16, 1), (1 << 16, -2), (1 << 16, 2), (1 << 15, 0), (1 << 8, 0), (1 << 8, 1), (1 << 8, -1)] {
            for (i, d) in diagrams.iter().enumerate() {
                let got = d.unsmoothed_wmc(&p1).0;
                ensure!(got == want(i, &w1), "C10/answer-depends-on-history:long-sequence", "count of a two-variable diagram is {} instead of {}", got, want(i, &w1));
            }
            for k in 0..(gap as isize - M as isize + d) as usize {
                let got = filler.unsmoothed_wmc(&p1).0;
                ensure!(got == filler_want, "C10/answer-depends-on-history:long-sequence", "call #{} of the same count on one diagram returned {} instead of {}", k, got, filler_want);
            }
            for (j, d) in diagrams.iter().enumerate() {
                let got = d.unsmoothed_wmc(&p2).0;
                ensure!(
                    got == want(j, &w2),
                    "C10/answer-depends-on-history:long-sequence",
                    "a two-variable diagram queried about {} public calls after its first query, now under other weights, counts {}; the sum over its models is {} (under the earlier weights it was {})",
                    gap,
                    got,
                    want(j, &w2),
                    want(j, &w1)
                );
            }
        }
        st.bump("long.aligned_gap_experiments");
    }
    st.add("long.queries_issued", total);
    st.flag("long.more_than_65536_queries", total > 65_536);
    let classes: BTreeSet<&'static str> = queries.iter().map(|q| q.class()).collect();
    if total > 65_536 && classes.len() >= 2 {
        st.mark_nontrivial();
    }
    Ok(())
}

impl SubCheckT for ManyQueries {
    type Case = LongCase;
    const NAME: &'static str = "many_queries_on_one_builder";
    const RULE: &'static str = "four BDDs sharing nodes over 2..6 variables and 4..16 distinct queries without diagram results (counts in seven semirings, evaluate, count_nodes, semantic hashes, marginal_map, meu, bb), issued 66 000 .. 140 000 times in a pseudo-random order on one builder (beyond 2^16 calls, where a narrow per-call counter would wrap): every answer equals the answer of that query alone on a freshly built copy, and every 4096 calls every node reports an empty scratch slot; then 32 two-variable diagrams on variables of their own are queried once, another diagram 2^16 - 32 times (also one or two calls more or fewer; 2^15 - 32; 2^8 - 32), and the 32 again under other weights, so that each is asked exactly 2^16 (2^15, 2^8) calls after its first query. Non-trivial: more than 65 536 calls of at least two result types";
    fn cases(tier: Tier) -> u32 {
        tier.pick(6, 60)
    }
    fn strategy(_tier: Tier) -> BoxedStrategy<LongCase> {
        (2u8..=6, any::<[u64; 4]>(), proptest::collection::vec(q_strategy(), 8..=24), 66_000u32..=140_000, any::<u64>())
            .prop_map(|(n, bits, queries, count, seed)| LongCase { n, bits, queries, count, seed })
            .boxed()
    }
    fn run(case: &LongCase, st: &mut Stats) -> CaseResult {
        run_long(case, st)
    }
}

// ---------------------------------------------------------------------------
// one diagram with tens of thousands to 130 000 nodes, queried repeatedly
// ---------------------------------------------------------------------------

#[derive(Clone, Debug, Serialize, Deserialize)]
pub struct LargeCase {
    /// number of pairs: the diagram of OR_i (x_i & y_pi(i)) under the order x.., y.. has about 2^(m+1) nodes
    pub m: u8,
    pub seed: u64,
    /// conjunction of disjunctions instead
    pub dual: bool,
}

pub struct LargeDiagrams;

pub fn run_large(case: &LargeCase, st: &mut Stats) -> CaseResult {
    const P: u128 = primes::U64_LARGEST;
    let m = (case.m as usize).clamp(8, 16);
    let nv = 2 * m;
    let pi = crate::big::permutation(case.seed ^ 0x9A1, m);
    let pol = |v: usize| splitmix(case.seed ^ 0x70 ^ (v as u64) << 8) & 1 == 1;
    fn make<'a>(b: &'a RobddBuilder<'a, rsdd::builder::cache::AllIteTable<BddPtr<'a>>>, m: usize, pi: &[usize], pol: &dyn Fn(usize) -> bool, dual: bool) -> BddPtr<'a> {
        let mut f = if dual { b.true_ptr() } else { b.false_ptr() };
        // pairs are added from the deepest x upwards so that every step works on the top of the diagram
        for i in (0..m).rev() {
            let x = b.var(VarLabel::new_usize(i), pol(i));
            let y = b.var(VarLabel::new_usize(m + pi[i]), pol(m + pi[i]));
            f = if dual { b.and(b.or(x, y), f) } else { b.or(b.and(x, y), f) };
        }
        f
    }
    let b = RobddBuilder::<rsdd::builder::cache::AllIteTable<BddPtr>>::new(VarOrder::linear_order(nv));
    let f = make(&b, m, &pi, &pol, case.dual);
    // own evaluation of the intended function; the diagram is read back on probes (a mismatch is C01's concern)
    let intended = |a: &[bool]| -> bool {
        let lit = |v: usize| a[v] == pol(v);
        if case.dual {
            (0..m).all(|i| lit(i) || lit(m + pi[i]))
        } else {
            (0..m).any(|i| lit(i) && lit(m + pi[i]))
        }
    };
    let probes: Vec<Vec<bool>> = (0..24u64)
        .map(|k| {
            let mut a = crate::big::assignment(case.seed ^ 0xA55, k, nv);
            if k % 3 == 0 {
                // a near miss: every pair broken (or satisfied) except possibly one
                for i in 0..m {
                    a[i] = pol(i) == case.dual;
                    a[m + pi[i]] = pol(m + pi[i]) != case.dual;
                }
                let j = (splitmix(case.seed ^ k) as usize) % m;
                a[j] = !a[j];
            }
            a
        })
        .collect();
    if probes.iter().any(|a| crate::big::bdd_eval(f, a) != intended(a)) {
        st.bump("large.builder_made_another_function(C01's concern)");
        return Ok(());
    }
    let weights = |salt: u64| -> Vec<(u128, u128)> {
        (0..nv)
            .map(|v| {
                let x = splitmix(case.seed ^ salt ^ (v as u64).wrapping_mul(0xD134_2543_DE82_EF95)) as u128 % P;
                ((P + 1 - x) % P, x)
            })
            .collect()
    };
    let closed = |w: &Vec<(u128, u128)>| -> u128 {
        // Pr[OR (x & y)] = 1 - prod (1 - p q); Pr[AND (x | y)] = prod (1 - (1-p)(1-q)), p = weight of the literal's own side
        let own = |v: usize| if pol(v) { w[v].1 } else { w[v].0 };
        let mut prod = 1u128;
        for i in 0..m {
            let (p, q) = (own(i), own(m + pi[i]));
            let term = if case.dual { (P + 1 - crate::oracle::mulmod((P + 1 - p) % P, (P + 1 - q) % P, P)) % P } else { (P + 1 - crate::oracle::mulmod(p, q, P)) % P };
            prod = crate::oracle::mulmod(prod, term, P);
        }
        if case.dual {
            prod
        } else {
            (P + 1 - prod) % P
        }
    };
    let params = |w: &Vec<(u128, u128)>| -> WmcParams<FiniteField<P>> {
        let mut p = WmcParams::<FiniteField<P>>::default();
        for (v, (l, h)) in w.iter().enumerate() {
            p.set_weight(VarLabel::new_usize(v), FiniteField::new(*l), FiniteField::new(*h));
        }
        p
    };
    let scratch = |what: &str, d: BddPtr| -> CaseResult {
        for nd in bdd_nodes(d) {
            ensure!(BddPtr::Reg(nd).is_scratch_cleared(), "C10/scratch-left-behind", "after {} a node on variable {} of a diagram of {} variables still holds scratch data", what, nd.var.value(), nv);
        }
        Ok(())
    };
    // the first answer of each kind is the answer on a freshly built diagram
    let nodes0 = f.count_nodes();
    scratch("count_nodes", f)?;
    let (w1, w2) = (weights(0x111), weights(0x222));
    let c1 = f.unsmoothed_wmc(&params(&w1)).value();
    ensure!(c1 == closed(&w1), "C10/answer-depends-on-history:large-diagram", "first count of a diagram of {} nodes is {}; the closed form gives {}", nodes0, c1, closed(&w1));
    scratch("a weighted count", f)?;
    for (k, a) in probes.iter().enumerate() {
        let got = f.evaluate(a);
        ensure!(got == intended(a), "C10/answer-depends-on-history:large-diagram", "evaluate #{} on a diagram of {} nodes (after a count and {} evaluations) = {}, the function is {} there", k, nodes0, k, got, intended(a));
    }
    scratch("evaluate", f)?;
    let c2 = f.unsmoothed_wmc(&params(&w2)).value();
    ensure!(c2 == closed(&w2), "C10/answer-depends-on-history:large-diagram", "a second count, under other weights, of a diagram of {} nodes is {}; the closed form gives {} (the first count was {})", nodes0, c2, closed(&w2), c1);
    let nodes1 = f.count_nodes();
    ensure!(nodes1 == nodes0, "C10/answer-depends-on-history:large-diagram", "count_nodes returned {} at first and {} after other queries", nodes0, nodes1);
    // a diagram sharing most of its nodes: the cofactor on the first variable; its count under the second table
    let g = b.condition(f, VarLabel::new_usize(0), pol(0) != case.dual);
    scratch("condition", f)?;
    let b2 = RobddBuilder::<rsdd::builder::cache::AllIteTable<BddPtr>>::new(VarOrder::linear_order(nv));
    let f2 = make(&b2, m, &pi, &pol, case.dual);
    let g2 = b2.condition(f2, VarLabel::new_usize(0), pol(0) != case.dual);
    let (cg, cg2) = (g.unsmoothed_wmc(&params(&w2)).value(), g2.unsmoothed_wmc(&params(&w2)).value());
    ensure!(cg == cg2, "C10/answer-depends-on-history:large-diagram", "count of a cofactor sharing nodes with a queried diagram of {} nodes is {}; on a freshly built copy it is {}", nodes0, cg, cg2);
    ensure!(g.count_nodes() == g2.count_nodes() && f.count_nodes() == f2.count_nodes(), "C10/answer-depends-on-history:large-diagram", "count_nodes of the diagram / its cofactor: {} / {} after queries, {} / {} on a freshly built copy", f.count_nodes(), g.count_nodes(), f2.count_nodes(), g2.count_nodes());
    scratch("the last query", f)?;
    scratch("the last query", g)?;
    st.flag(
        match nodes0 {
            0..=4095 => "large.nodes.lt4096",
            4096..=65535 => "large.nodes.4096-65535",
            _ => "large.nodes.ge65536",
        },
        true,
    );
    if nodes0 >= 4096 {
        st.mark_nontrivial();
    }
    Ok(())
}

impl SubCheckT for LargeDiagrams {
    type Case = LargeCase;
    const NAME: &'static str = "large_diagrams";
    const RULE: &'static str = "OR_i (x_i & y_pi(i)) or AND_i (x_i | y_pi(i)) over 2m variables with every x above every y (m = 11..16: about 2^(m+1) nodes, up to 131 070), random polarities and pairing: count_nodes, a finite-field count, 24 evaluations, a count under other weights, count_nodes again, conditioning, the count of the cofactor (which shares most nodes) and node counts once more; counts equal the closed form, evaluations the function, repeated answers the first ones and those on a freshly built second copy, and after every call every node reports an empty scratch slot. Non-trivial: >= 4096 nodes";
    fn cases(tier: Tier) -> u32 {
        tier.pick(8, 96)
    }
    fn strategy(_tier: Tier) -> BoxedStrategy<LargeCase> {
        (prop_oneof![1 => 11u8..=13, 1 => 14u8..=15, 2 => Just(16u8)], any::<u64>(), any::<bool>()).prop_map(|(m, seed, dual)| LargeCase { m, seed, dual }).boxed()
    }
    fn run(case: &LargeCase, st: &mut Stats) -> CaseResult {
        run_large(case, st)
    }
}

pub fn property() -> Property {
    Property {
        id: "C10",
        subs: vec![sub::<BddQueries>(), sub::<SddQueries>(), sub::<ManyQueries>(), sub::<LargeDiagrams>()],
        fuzz: vec![FuzzSpec { target: "queries", runs: 10000, max_len: 400 }],
        assumptions: vec![
            "debug assertions are compiled in: a tripped debug_assert!(is_scratch_cleared()) is a violation",
            "cached_semantic_hash is not part of the interleavings (its memo is per builder and prime by design; C11 covers it); the fold-based semantic_hash is",
            "diagram-valued answers are compared by truth table (and by a count for smoothing)",
        ],
        nt_floor_percent: 15,
    }
}
