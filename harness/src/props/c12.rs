//! C12 — marginal MAP, MEU and the generic branch-and-bound return true optima.
use crate::walk::{bdd_tt, set_label_map};
use crate::bddi::{order_keys_strategy, perm_from_keys};
use crate::engine::*;
use crate::fnsrc::*;
use crate::semi::*;
use crate::tt::Tt;
use proptest::prelude::*;
use rsdd::builder::bdd::RobddBuilder;
use rsdd::builder::cache::AllIteTable;
use rsdd::repr::{BddPtr, PartialModel, VarLabel, VarOrder, WmcParams};
use rsdd::util::semirings::{ExpectedUtility, RealSemiring};
use serde::{Deserialize, Serialize};
use std::collections::BTreeSet;

fn model_of(pm: &PartialModel, labels: &[usize]) -> Vec<Option<bool>> {
    labels.iter().map(|l| pm.get(VarLabel::new_usize(*l))).collect()
}

/// Embedding of the case's n variables into a builder with `total` variables: `labels[v]` plays variable v; the
/// builder's order is a pseudo-random order of all labels in which the n relevant ones keep the relative order
/// `rel` (given as variables, first to last). Without an embedding: labels = identity, order = rel.
struct Embedding {
    labels: Vec<usize>,
    order: Vec<usize>,
    total: usize,
}

fn embedding(embed: Option<(u8, u64)>, n: usize, rel: &[usize]) -> Embedding {
    match embed {
        None => Embedding { labels: (0..n).collect(), order: rel.to_vec(), total: n },
        Some((t, seed)) => {
            let total = (t as usize).max(n);
            let mut labels = crate::big::permutation(seed ^ 0xC12_5EED, total);
            labels.truncate(n);
            let mut order = crate::big::permutation(seed, total);
            // positions that hold relevant labels, in order; refill them in the wanted relative order
            let pos: Vec<usize> = order.iter().enumerate().filter(|(_, l)| labels.contains(l)).map(|(i, _)| i).collect();
            for (k, v) in rel.iter().enumerate() {
                order[pos[k]] = labels[*v];
            }
            let mut map: Vec<Option<usize>> = vec![None; total];
            for (v, l) in labels.iter().enumerate() {
                map[*l] = Some(v);
            }
            set_label_map(Some(map));
            Embedding { labels, order, total }
        }
    }
}

fn cofactor_all(mut t: Tt, q: &[(usize, bool)]) -> Tt {
    for (v, b) in q {
        t = t.cofactor(*v, *b);
    }
    t
}

// ---------------------------------------------------------------------------
// marginal MAP and bb::<RealSemiring>
// ---------------------------------------------------------------------------

#[derive(Clone, Debug, Serialize, Deserialize)]
pub struct MapCase {
    pub src: FnSrc,
    pub order: Vec<u16>,
    /// query variables: selection mask + ordering keys
    pub qmask: u8,
    pub qkeys: Vec<u16>,
    /// weights k/8: (low, high) selectors per variable
    pub w: Vec<(u8, u8)>,
    /// the num_vars argument of the queries is n + extra_vars % 4 (sizes the returned partial model only)
    #[serde(default)]
    pub extra_vars: u8,
    /// weights are powers of two down to 2^-7 (and their complements) instead of eighths: values as small as
    /// 2^-42 and gaps between candidates far below any fixed tolerance, still exact in f64
    #[serde(default)]
    pub tiny: bool,
    /// Some((total, seed)): the function lives in a builder with `total` variables (labels scattered, crossing 32 /
    /// 64 / 128), pseudo-random order
    #[serde(default)]
    pub embed: Option<(u8, u64)>,
    /// which diagram of the function is queried (when not embedded): 1 = the canonical BDD smoothed over a prefix
    /// of the order (don't-care nodes), 2 = the top-down compilation of the CNF source (unreduced nodes with
    /// constant children), else the canonical BDD
    #[serde(default)]
    pub kind: u8,
}

pub struct Map;

pub fn run_map(case: &MapCase, st: &mut Stats) -> CaseResult {
    let n = case.src.n();
    let t = case.src.tt();
    let order = perm_from_keys(&case.order, n);
    let emb = embedding(case.embed, n, &order);
    let b = RobddBuilder::<AllIteTable<BddPtr>>::new(VarOrder::new(&emb.order.iter().map(|v| VarLabel::new_usize(*v)).collect::<Vec<_>>()));
    let f = bdd_from_tt_labels(&b, t, &emb.labels);
    // other diagrams of the same function: smoothed (every path tests a whole prefix of the order) or compiled top-down
    let td_order = VarOrder::new(&order.iter().map(|v| VarLabel::new_usize(*v)).collect::<Vec<_>>());
    let td = rsdd::builder::decision_nnf::StandardDecisionNNFBuilder::new(td_order);
    let f = match (case.kind % 4, case.embed.is_none() && n > 0) {
        (1, true) => {
            let deepest = order.iter().rposition(|v| t.depends(*v)).map(|p| p + 1).unwrap_or(0);
            let ns = n - (case.extra_vars as usize / 4) % (n - deepest + 1);
            st.bump("map.diagram.smoothed");
            b.smooth(f, ns)
        }
        (2, true) if !t.is_const() => {
            // the function as a CNF: the source's own, or one maximal clause per falsifying assignment (merged
            // pairwise where two of them differ in one variable only, so that clauses of several lengths occur)
            st.bump("map.diagram.top_down");
            let cnf = match case.src.cnf() {
                Some(c) => c.to_rsdd(),
                None => {
                    let mut clauses: Vec<Vec<(usize, bool)>> = Vec::new();
                    let mut used = vec![false; 1 << n];
                    for a in 0..(1usize << n) {
                        if t.get(a) || used[a] {
                            continue;
                        }
                        // merge with a falsifying neighbour that differs in the lowest possible variable
                        let nb = (0..n).map(|v| a ^ (1 << v)).find(|b2| *b2 > a && !t.get(*b2) && !used[*b2]);
                        let drop = nb.map(|b2| (a ^ b2).trailing_zeros() as usize);
                        if let Some(b2) = nb {
                            used[b2] = true;
                        }
                        clauses.push((0..n).filter(|v| Some(*v) != drop).map(|v| (v, (a >> v) & 1 == 0)).collect());
                    }
                    // every variable must be mentioned so that the CNF has n variables
                    clauses.push(vec![(n - 1, true), (n - 1, false)]);
                    rsdd::repr::Cnf::new(
                        &clauses.iter().map(|c| c.iter().map(|(v, p)| rsdd::repr::Literal::new(VarLabel::new_usize(*v), *p)).collect::<Vec<_>>()).collect::<Vec<_>>(),
                    )
                }
            };
            rsdd::builder::decision_nnf::DecisionNNFBuilder::compile_cnf_topdown(&td, &cnf)
        }
        _ => {
            st.bump("map.diagram.canonical");
            f
        }
    };
    // the optimum is taken over the function the diagram denotes (whether the builder produced the requested
    // one is C01's / C06's / C08's concern)
    let t = bdd_tt(f);
    // three rounds on the same diagram: the case's query set and weights with marginal_map then bb; a second query
    // set and the weights shifted by one variable with bb then marginal_map; a third with marginal_map alone (so two
    // marginal_map calls follow each other directly with different query sets and weights): an optimum may not
    // depend on what was asked before
    let rounds: [(u8, usize, &str); 3] = [(case.qmask, 0, "mb"), (case.qmask.rotate_left(3) ^ 0x2D, 1, "bm"), (!case.qmask ^ (case.extra_vars >> 2), 2, "m")];
    for (round, (qmask, wrot, calls)) in rounds.iter().copied().enumerate() {
        // query set in an arbitrary order
        let mut q: Vec<usize> = (0..n).filter(|v| (qmask >> v) & 1 == 1).collect();
        let qk: Vec<u16> = q.iter().map(|v| case.qkeys.get(*v).copied().unwrap_or(0)).collect();
        let mut idx: Vec<usize> = (0..q.len()).collect();
        idx.sort_by_key(|i| qk[*i]);
        q = idx.iter().map(|i| q[*i]).collect();
        let qset: BTreeSet<usize> = q.iter().copied().collect();
        // weights: non-query normalised k/8, query arbitrary in [0,1]
        let w = |v: usize, bit: bool| -> f64 {
            let (l, h) = case.w.get((v + wrot) % case.w.len().max(1)).copied().unwrap_or((4, 4));
            if case.tiny {
                let pw2 = |k: u8| (0.5f64).powi((k % 8) as i32);
                return if qset.contains(&v) {
                    // query variables: any power of two down to 2^-15 (a power-of-two factor never costs precision), so
                    // that whole families of candidates lie below 1e-9
                    let j = if bit { (h as i32 * 9 + l as i32 + 5) % 16 } else { (l as i32 * 9 + h as i32) % 16 };
                    (0.5f64).powi(j)
                } else {
                    // normalised: (2^-k, 1 - 2^-k), which side is the small one depends on l
                    let p = pw2(1 + h % 7);
                    if bit == (l & 1 == 1) {
                        p
                    } else {
                        1.0 - p
                    }
                };
            }
            if qset.contains(&v) {
                (if bit { h % 9 } else { l % 9 }) as f64 / 8.0
            } else {
                let k = (h % 9) as f64 / 8.0;
                if bit {
                    k
                } else {
                    1.0 - k
                }
            }
        };
        let mut params = WmcParams::<RealSemiring>::default();
        for l in 0..emb.total {
            match emb.labels.iter().position(|x| *x == l) {
                Some(v) => params.set_weight(VarLabel::new_usize(l), RealSemiring(w(v, false)), RealSemiring(w(v, true))),
                None => params.set_weight(VarLabel::new_usize(l), RealSemiring(0.5), RealSemiring(0.5)),
            }
        }
        let fops = Ops::<f64> { zero: 0.0, one: 1.0, add: &|a, b| a + b, mul: &|a, b| a * b };
        let all: Vec<usize> = (0..n).collect();
        // value(q) = sum over models consistent with q of the product of all weights
        let value = |asg: &[(usize, bool)]| -> f64 {
            let mut g = t;
            for (v, bit) in asg {
                g = g.and(Tt::lit(*v, *bit));
            }
            brute_force(g, &all, &w, &fops)
        };
        let mut best = f64::NEG_INFINITY;
        let mut values: Vec<f64> = Vec::new();
        for a in 0..(1usize << q.len()) {
            let asg: Vec<(usize, bool)> = q.iter().enumerate().map(|(i, v)| (*v, (a >> i) & 1 == 1)).collect();
            let val = value(&asg);
            values.push(val);
            if val > best {
                best = val;
            }
        }
        let qlbl: Vec<VarLabel> = q.iter().map(|v| VarLabel::new_usize(emb.labels[*v])).collect();
        let check = |name: &str, got: f64, pm: &PartialModel| -> CaseResult {
            let m = model_of(pm, &emb.labels);
            ensure!(
                got == best,
                format!("C12/{}-value-not-the-maximum", name),
                "{} over query {:?} returned {} but the maximum over all query assignments is {} (values {:?}); function {:?}, order {:?}",
                name,
                q,
                got,
                best,
                values,
                t,
                order
            );
            ensure!(
                q.iter().all(|v| m[*v].is_some()),
                format!("C12/{}-assignment-incomplete", name),
                "{} returned the assignment {:?} which leaves a query variable of {:?} unassigned",
                name,
                m,
                q
            );
            let asg: Vec<(usize, bool)> = q.iter().map(|v| (*v, m[*v].unwrap())).collect();
            let val = value(&asg);
            ensure!(
                val == best,
                format!("C12/{}-assignment-does-not-attain-the-value", name),
                "{} returned the assignment {:?} whose value is {} while the maximum is {}",
                name,
                asg,
                val,
                best
            );
            Ok(())
        };
        let nv = emb.total + (case.extra_vars % 4) as usize;
        st.flag("map.embedded_in_a_larger_builder", case.embed.is_some());
        st.flag("map.query_label_at_or_above_64", q.iter().any(|v| emb.labels[*v] >= 64));
        for call in calls.chars() {
            if call == 'm' {
                let (v1, m1) = f.marginal_map(&qlbl, nv, &params);
                check("marginal_map", v1, &m1)?;
            } else {
                let (v2, m2) = f.bb::<RealSemiring>(&qlbl, nv, &params);
                check("bb-real", v2.0, &m2)?;
            }
        }
        if round > 0 {
            st.bump("map.later_round_on_the_same_diagram(other query set, other weights)");
            continue;
        }
        let in_support = q.iter().filter(|v| t.depends(**v)).count();
        let mut dv = values.clone();
        dv.sort_by(|a, b| a.partial_cmp(b).unwrap());
        dv.dedup();
        st.flag("map.tiny_weights", case.tiny);
        st.flag("map.best_below_1e-9", best > 0.0 && best < 1e-9);
        st.flag("map.two_candidates_closer_than_1e-9", {
            let mut d = values.clone();
            d.sort_by(|a, b| a.partial_cmp(b).unwrap());
            d.windows(2).any(|p| p[1] != p[0] && p[1] - p[0] < 1e-9)
        });
        st.flag("map.empty_query", q.is_empty());
        st.flag("map.all_query", q.len() == n);
        st.flag("map.query_outside_support", q.iter().any(|v| !t.depends(*v)));
        st.flag("map.tie_for_maximum", values.iter().filter(|v| **v == best).count() >= 2);
        if in_support >= 2 && dv.len() >= 2 {
            st.mark_nontrivial();
        }
    }
    Ok(())
}

impl SubCheckT for Map {
    type Case = MapCase;
    const NAME: &'static str = "marginal_map";
    const RULE: &'static str = "random function over <=6 variables under a random order (in a quarter of the cases inside a builder with 9..198 variables, its variables scattered over labels that cross 32 / 64 / 128); query set = any subset in any order (empty, all, variables outside the support); weights k/8 in [0,1] (or, in a third of the cases, powers of two down to 2^-7 and their complements, with query weights any power of two down to 2^-15, so that values go far below 1e-9 and candidates lie closer than any fixed tolerance), normalised on non-query variables, arbitrary on query variables; the diagram queried is the canonical BDD or, when not embedded, that BDD smoothed over a prefix of the order, or the top-down compilation of a CNF of the function: marginal_map and bb::<RealSemiring> return exactly the maximum over all query assignments of the weighted count restricted to the assignment (exhaustive enumeration, exact dyadic arithmetic), the returned model assigns every query variable and attains that value (any maximiser accepted on ties); num_vars = n..n+3. Non-trivial: >=2 query variables in the support and >=2 distinct values among query assignments";
    fn cases(tier: Tier) -> u32 {
        tier.pick(30_000, 300_000)
    }
    fn strategy(_tier: Tier) -> BoxedStrategy<MapCase> {
        (
            fnsrc_bits_strategy(),
            order_keys_strategy(),
            prop_oneof![6 => any::<u8>(), 1 => Just(0u8), 1 => Just(0xFFu8)],
            proptest::collection::vec(any::<u16>(), 8),
            proptest::collection::vec((0u8..9, 0u8..9), 8),
        )
            .prop_map(|(src, order, qmask, qkeys, w)| {
                let x = qkeys.iter().fold(0u16, |a, b| a ^ b);
                // low two bits: extra variables; the bits above: how far the smoothed prefix extends
                let extra_vars = (x % 4) as u8 | ((((x >> 9) % 8) as u8) << 2);
                let kind = ((x >> 12) % 4) as u8;
                let tiny = (x >> 2) % 3 == 0;
                let embed = if (x >> 5) % 4 == 0 { Some((9 + ((x >> 7) % 190) as u8, 0x9E37_79B9u64.wrapping_mul(x as u64 + 1))) } else { None };
                MapCase { src, order, qmask, qkeys, w, extra_vars, tiny, embed, kind }
            })
            .boxed()
    }
    fn run(case: &MapCase, st: &mut Stats) -> CaseResult {
        run_map(case, st)
    }
}

// ---------------------------------------------------------------------------
// MEU and bb::<ExpectedUtility>
// ---------------------------------------------------------------------------

#[derive(Clone, Debug, Serialize, Deserialize)]
pub struct MeuCase {
    pub src: FnSrc,
    pub order: Vec<u16>,
    /// role per variable: 0 decision, 1 chance, 2 utility (indicator style), 3 utility (probabilistic style)
    pub roles: Vec<u8>,
    pub dkeys: Vec<u16>,
    /// (p selector, u0, u1)
    pub w: Vec<(u8, u8, u8)>,
    /// the num_vars argument of the queries is n + extra_vars % 4
    #[serde(default)]
    pub extra_vars: u8,
    /// probabilities are powers of two down to 2^-7 (and complements) instead of eighths
    #[serde(default)]
    pub tiny: bool,
    /// as in MapCase
    #[serde(default)]
    pub embed: Option<(u8, u64)>,
}

pub struct Meu;

pub fn run_meu(case: &MeuCase, st: &mut Stats) -> CaseResult {
    let n = case.src.n();
    let t = case.src.tt();
    let roles: Vec<u8> = (0..n).map(|v| case.roles.get(v).copied().unwrap_or(1) % 4).collect();
    // construction, not rejection: utility-bearing variables that the random permutation puts before the
    // last decision variable are moved to just after it (relative order kept)
    let order = {
        let perm = perm_from_keys(&case.order, n);
        match perm.iter().rposition(|v| roles[*v] == 0) {
            None => perm,
            Some(ld) => {
                let mut head: Vec<usize> = Vec::new();
                let mut moved: Vec<usize> = Vec::new();
                for v in perm[..=ld].iter() {
                    if roles[*v] >= 2 {
                        moved.push(*v);
                    } else {
                        head.push(*v);
                    }
                }
                head.extend(moved);
                head.extend(perm[ld + 1..].iter().copied());
                head
            }
        }
    };
    let mut d: Vec<usize> = (0..n).filter(|v| roles[*v] == 0).collect();
    let dk: Vec<u16> = d.iter().map(|v| case.dkeys.get(*v).copied().unwrap_or(0)).collect();
    let mut idx: Vec<usize> = (0..d.len()).collect();
    idx.sort_by_key(|i| dk[*i]);
    d = idx.iter().map(|i| d[*i]).collect();
    let w = |v: usize, bit: bool| -> (f64, f64) {
        let (ps, u0, u1) = case.w.get(v).copied().unwrap_or((4, 1, 1));
        let p = if case.tiny {
            let q = (0.5f64).powi(1 + (ps % 7) as i32);
            if ps & 8 == 0 {
                q
            } else {
                1.0 - q
            }
        } else {
            (ps % 9) as f64 / 8.0
        };
        let (u0, u1) = ((u0 % 5) as f64, (u1 % 5) as f64);
        match roles[v] {
            0 => (1.0, 0.0),
            1 => {
                if bit {
                    (p, 0.0)
                } else {
                    (1.0 - p, 0.0)
                }
            }
            2 => {
                if bit {
                    (1.0, u0)
                } else {
                    (1.0, 0.0)
                }
            }
            _ => {
                if bit {
                    (p, p * u0)
                } else {
                    (1.0 - p, (1.0 - p) * u1)
                }
            }
        }
    };
    let emb = embedding(case.embed, n, &order);
    let mut params = WmcParams::<ExpectedUtility>::default();
    for l in 0..emb.total {
        match emb.labels.iter().position(|x| *x == l) {
            Some(v) => {
                let (lo, hi) = (w(v, false), w(v, true));
                params.set_weight(VarLabel::new_usize(l), ExpectedUtility(lo.0, lo.1), ExpectedUtility(hi.0, hi.1));
            }
            None => params.set_weight(VarLabel::new_usize(l), ExpectedUtility(0.5, 0.0), ExpectedUtility(0.5, 0.0)),
        }
    }
    let eops = Ops::<(f64, f64)> {
        zero: (0.0, 0.0),
        one: (1.0, 0.0),
        add: &|a, b| (a.0 + b.0, a.1 + b.1),
        mul: &|a, b| (a.0 * b.0, a.0 * b.1 + a.1 * b.0),
    };
    let b = RobddBuilder::<AllIteTable<BddPtr>>::new(VarOrder::new(&emb.order.iter().map(|v| VarLabel::new_usize(*v)).collect::<Vec<_>>()));
    let f = bdd_from_tt_labels(&b, t, &emb.labels);
    // the optimum is taken over the function the diagram denotes (whether the builder produced the requested
    // one is C01's concern)
    let t = bdd_tt(f);
    let value = |asg: &[(usize, bool)]| -> (f64, f64) { order_aware_unsmoothed(cofactor_all(t, asg), &order, &w, &eops) };
    let mut best = f64::NEG_INFINITY;
    let mut values: Vec<f64> = Vec::new();
    for a in 0..(1usize << d.len()) {
        let asg: Vec<(usize, bool)> = d.iter().enumerate().map(|(i, v)| (*v, (a >> i) & 1 == 1)).collect();
        let val = value(&asg).1;
        values.push(val);
        if val > best {
            best = val;
        }
    }
    let dl: Vec<VarLabel> = d.iter().map(|v| VarLabel::new_usize(emb.labels[*v])).collect();
    let check = |name: &str, got: ExpectedUtility, pm: &PartialModel| -> CaseResult {
        let m = model_of(pm, &emb.labels);
        ensure!(
            got.1 == best,
            format!("C12/{}-value-not-the-maximum", name),
            "{} over decisions {:?} returned expected utility {} but the maximum over all decision assignments is {} (values {:?}); function {:?}, order {:?}, roles {:?}",
            name,
            d,
            got.1,
            best,
            values,
            t,
            order,
            roles
        );
        ensure!(
            d.iter().all(|v| m[*v].is_some()),
            format!("C12/{}-assignment-incomplete", name),
            "{} returned the assignment {:?} which leaves a decision variable of {:?} unassigned",
            name,
            m,
            d
        );
        let asg: Vec<(usize, bool)> = d.iter().map(|v| (*v, m[*v].unwrap())).collect();
        let full = value(&asg);
        let val = full.1;
        ensure!(
            val == best,
            format!("C12/{}-assignment-does-not-attain-the-value", name),
            "{} returned the decisions {:?} whose expected utility is {} while the maximum is {}",
            name,
            asg,
            val,
            best
        );
        // the returned value is the weighted count of the function restricted to the returned assignment: both
        // components (probability mass, expected utility)
        ensure!(
            got.0 == full.0,
            format!("C12/{}-value-is-not-the-count-under-the-returned-assignment", name),
            "{} returned ({}, {}) with decisions {:?}, under which the restricted count is ({}, {})",
            name,
            got.0,
            got.1,
            asg,
            full.0,
            full.1
        );
        Ok(())
    };
    let nv = emb.total + (case.extra_vars % 4) as usize;
    st.flag("meu.embedded_in_a_larger_builder", case.embed.is_some());
    let (v1, m1) = f.meu(&dl, nv, &params);
    check("meu", v1, &m1)?;
    let (v2, m2) = f.bb::<ExpectedUtility>(&dl, nv, &params);
    check("bb-expected-utility", v2, &m2)?;
    let in_support = d.iter().filter(|v| t.depends(**v)).count();
    let mut dv = values.clone();
    dv.sort_by(|a, b| a.partial_cmp(b).unwrap());
    dv.dedup();
    st.flag("meu.no_decision", d.is_empty());
    st.flag("meu.has_indicator_utility", roles.iter().any(|r| *r == 2));
    st.flag("meu.has_probabilistic_utility", roles.iter().any(|r| *r == 3));
    st.flag("meu.decision_outside_support", d.iter().any(|v| !t.depends(*v)));
    if in_support >= 2 && dv.len() >= 2 {
        st.mark_nontrivial();
    }
    Ok(())
}

impl SubCheckT for Meu {
    type Case = MeuCase;
    const NAME: &'static str = "meu";
    const RULE: &'static str = "random function over <=6 variables (in a quarter of the cases inside a builder with 9..198 variables); variables are decisions (unit weight), chance (p,0)/(1-p,0) or utility-bearing (indicator style (1,0)/(1,u) or probabilistic (p,p*u0)/(1-p,(1-p)*u1), u>=0), the order being built so that every utility-bearing variable follows all decision variables; meu and bb::<ExpectedUtility> return exactly the maximum over decision assignments of the expected-utility component of the order-aware unsmoothed count of the restricted function (exhaustive, exact dyadics), with a complete decision assignment that attains it and under which the restricted count equals the returned pair; num_vars = n..n+3. Non-trivial: >=2 decision variables in the support and >=2 distinct values";
    fn cases(tier: Tier) -> u32 {
        tier.pick(30_000, 300_000)
    }
    fn strategy(_tier: Tier) -> BoxedStrategy<MeuCase> {
        (
            fnsrc_bits_strategy(),
            order_keys_strategy(),
            proptest::collection::vec(prop_oneof![5 => Just(0u8), 2 => Just(1u8), 2 => Just(2u8), 2 => Just(3u8)], 8),
            proptest::collection::vec(any::<u16>(), 8),
            proptest::collection::vec((0u8..9, 0u8..5, 0u8..5), 8),
        )
            .prop_map(|(src, order, roles, dkeys, w)| {
                let x = dkeys.iter().fold(0u16, |a, b| a ^ b);
                let extra_vars = (x % 4) as u8;
                let tiny = (x >> 2) % 3 == 0;
                let embed = if (x >> 5) % 4 == 0 { Some((9 + ((x >> 7) % 190) as u8, 0x9E37_79B9u64.wrapping_mul(x as u64 + 1))) } else { None };
                MeuCase { src, order, roles, dkeys, w, extra_vars, tiny, embed }
            })
            .boxed()
    }
    fn run(case: &MeuCase, st: &mut Stats) -> CaseResult {
        run_meu(case, st)
    }
}

pub fn property() -> Property {
    Property {
        id: "C12",
        subs: vec![sub::<Map>(), sub::<Meu>()],
        fuzz: vec![],
        assumptions: vec![
            "weights k/8 or 2^-k (k <= 7) and their complements, small integer utilities, <= 6 variables: every product and sum is an exactly representable dyadic (at most 2^-42 resolution below 64), compared with ==",
            "MEU domain as stated: decision variables carry unit weight, utilities are non-negative, every utility-bearing variable is ordered after all decision variables (built that way by the generator)",
            "on ties any maximiser is accepted",
        ],
        nt_floor_percent: 10,
    }
}
