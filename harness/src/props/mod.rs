use crate::engine::Property;

pub mod c01;
pub mod c02;
pub mod c03;
pub mod c04;
pub mod c05;
pub mod c06;
pub mod c07;
pub mod c08;
pub mod c09;
pub mod c10;
pub mod c11;
pub mod c12;
pub mod c13;
pub mod c14;
pub mod c15;
pub mod c16;
pub mod c17;
pub mod c18;
pub mod c19;

pub fn all() -> Vec<Property> {
    vec![
        c01::property(),
        c02::property(),
        c03::property(),
        c04::property(),
        c05::property(),
        c06::property(),
        c07::property(),
        c08::property(),
        c09::property(),
        c10::property(),
        c11::property(),
        c12::property(),
        c13::property(),
        c14::property(),
        c15::property(),
        c16::property(),
        c17::property(),
        c18::property(),
        c19::property(),
    ]
}
