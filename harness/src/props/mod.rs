use crate::engine::Property;

pub mod c01;
pub mod c02;

pub fn all() -> Vec<Property> {
    vec![c01::property(), c02::property()]
}
