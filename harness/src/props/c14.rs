//! C14 — orders, dtrees and vtrees derived from a formula are well formed.
use crate::bddi::{order_keys_strategy, perm_from_keys};
use crate::cnfgen::*;
use crate::engine::*;
use crate::vtgen::*;
use proptest::prelude::*;
use rsdd::repr::{Cnf, DTree, SddPtr, VTree, VTreeManager, VarLabel, VarOrder, VarSet};
use rsdd::util::btree::{BTree, LeastCommonAncestor};
use serde::{Deserialize, Serialize};
use std::collections::{BTreeMap, BTreeSet};

// ---------------------------------------------------------------------------
// orders
// ---------------------------------------------------------------------------

pub fn check_order(o: &VarOrder, n: usize, what: &str) -> CaseResult {
    ensure!(
        o.num_vars() == n,
        "C14/order-num-vars",
        "{}: num_vars() = {} but the formula has {} variables",
        what,
        o.num_vars(),
        n
    );
    let seq: Vec<usize> = o.in_order_iter().map(|v| v.value_usize()).collect();
    let mut sorted = seq.clone();
    sorted.sort_unstable();
    ensure!(
        sorted == (0..n).collect::<Vec<_>>(),
        "C14/order-not-a-permutation",
        "{}: in_order_iter yields {:?}, not a permutation of 0..{}",
        what,
        seq,
        n
    );
    let rev: Vec<usize> = o.reverse_in_order_iter().map(|v| v.value_usize()).collect();
    ensure!(
        rev.iter().rev().copied().collect::<Vec<_>>() == seq,
        "C14/order-reverse-iter",
        "{}: reverse_in_order_iter {:?} is not the reverse of in_order_iter {:?}",
        what,
        rev,
        seq
    );
    for i in 0..n {
        let v = o.var_at_level(i);
        ensure!(
            v.value_usize() == seq[i] && o.get(v) == i,
            "C14/order-maps-not-inverse",
            "{}: var_at_level({}) = {}, get of it = {}, in_order_iter[{}] = {}",
            what,
            i,
            v.value(),
            o.get(v),
            i,
            seq[i]
        );
    }
    for v in 0..n {
        let l = VarLabel::new_usize(v);
        ensure!(
            o.var_at_level(o.get(l)) == l,
            "C14/order-maps-not-inverse",
            "{}: var_at_level(get({})) = {}",
            what,
            v,
            o.var_at_level(o.get(l)).value()
        );
    }
    let pos: BTreeMap<usize, usize> = seq.iter().enumerate().map(|(i, v)| (*v, i)).collect();
    for a in 0..n {
        let la = VarLabel::new_usize(a);
        for b in 0..n {
            let lb = VarLabel::new_usize(b);
            ensure!(
                o.lt(la, lb) == (pos[&a] < pos[&b]) && o.lte(la, lb) == (pos[&a] <= pos[&b]),
                "C14/order-lt",
                "{}: lt({},{}) = {}, lte = {}, positions {} and {}",
                what,
                a,
                b,
                o.lt(la, lb),
                o.lte(la, lb),
                pos[&a],
                pos[&b]
            );
        }
        let above = if pos[&a] == 0 { None } else { Some(seq[pos[&a] - 1]) };
        let below = if pos[&a] + 1 >= n { None } else { Some(seq[pos[&a] + 1]) };
        ensure!(
            o.above(la).map(|v| v.value_usize()) == above && o.below(la).map(|v| v.value_usize()) == below,
            "C14/order-above-below",
            "{}: above({}) = {:?} (expected {:?}), below = {:?} (expected {:?})",
            what,
            a,
            o.above(la),
            above,
            o.below(la),
            below
        );
    }
    if n > 0 {
        ensure!(
            o.last_var().value_usize() == seq[n - 1],
            "C14/order-last-var",
            "{}: last_var() = {} but the order ends with {}",
            what,
            o.last_var().value(),
            seq[n - 1]
        );
    }
    Ok(())
}

#[derive(Clone, Debug, Serialize, Deserialize)]
pub struct OrderCase {
    pub cnf: CnfCase,
    pub perm_keys: Vec<u16>,
    pub extra: u8,
}

pub struct Orders;

fn force_ok(c: &CnfCase) -> bool {
    !c.clauses.is_empty() && !c.has_empty_clause()
}

pub fn run_orders(case: &OrderCase, st: &mut Stats) -> CaseResult {
    let cnf = case.cnf.to_rsdd();
    let n = cnf.num_vars();
    check_order(&cnf.linear_order(), n, "linear_order")?;
    check_order(&cnf.min_fill_order(), n, "min_fill_order")?;
    if force_ok(&case.cnf) {
        check_order(&cnf.force_order(), n, "force_order")?;
        st.bump("orders.force");
    } else {
        st.bump("orders.force_excluded_no_clause_or_empty_clause");
    }
    let perm = perm_from_keys(&case.perm_keys, n);
    let lbls: Vec<VarLabel> = perm.iter().map(|v| VarLabel::new_usize(*v)).collect();
    let mut o = VarOrder::new(&lbls);
    check_order(&o, n, "VarOrder::new(permutation)")?;
    let seq0: Vec<usize> = o.in_order_iter().map(|v| v.value_usize()).collect();
    ensure!(seq0 == perm, "C14/order-new", "VarOrder::new({:?}) iterates as {:?}", perm, seq0);
    let k = (case.extra % 4) as usize;
    for j in 0..k {
        let l = o.new_last();
        ensure!(
            l.value_usize() == n + j,
            "C14/order-new-last-label",
            "new_last() returned label {} for an order over {} variables",
            l.value(),
            n + j
        );
        check_order(&o, n + j + 1, "after new_last")?;
        ensure!(
            o.last_var() == l && o.get(l) == n + j,
            "C14/order-new-last-position",
            "the new label {} is at position {} (expected last, {})",
            l.value(),
            o.get(l),
            n + j
        );
        let seq: Vec<usize> = o.in_order_iter().map(|v| v.value_usize()).collect();
        ensure!(
            seq[..n] == perm[..],
            "C14/order-new-last-disturbed-prefix",
            "after new_last the order is {:?}, the original prefix was {:?}",
            seq,
            perm
        );
    }
    st.flag("orders.unused_index", case.cnf.mentioned_vars().len() < n);
    st.flag("orders.extended", k > 0);
    if case.cnf.clauses.iter().filter(|c| c.len() >= 2).count() >= 3 && n >= 3 {
        st.mark_nontrivial();
    }
    Ok(())
}

impl SubCheckT for Orders {
    type Case = OrderCase;
    const NAME: &'static str = "orders";
    const RULE: &'static str = "random CNF: linear_order, min_fill_order, force_order (only for >=1 clause and no empty clause), VarOrder::new(random permutation) followed by 0..3 new_last(): num_vars, in_order_iter is a permutation, get/var_at_level mutually inverse, lt/lte/above/below/last_var/reverse iteration consistent with positions, new labels appended at the end without disturbing the prefix. Non-trivial: >=3 clauses with >=2 literals over >=3 variables";
    fn cases(tier: Tier) -> u32 {
        tier.pick(12_000, 150_000)
    }
    fn strategy(_tier: Tier) -> BoxedStrategy<OrderCase> {
        (prop_oneof![60 => cnf_strategy(), 1 => big_cnf_strategy()], order_keys_strategy(), any::<u8>())
            .prop_map(|(cnf, perm_keys, extra)| OrderCase { cnf, perm_keys, extra })
            .boxed()
    }
    fn run(case: &OrderCase, st: &mut Stats) -> CaseResult {
        run_orders(case, st)
    }
}

// ---------------------------------------------------------------------------
// dtrees and derived vtrees
// ---------------------------------------------------------------------------

#[derive(Clone, Debug, Serialize, Deserialize)]
pub struct DtreeCase {
    pub cnf: CnfCase,
    /// 0 linear, 1 min-fill, 2 FORCE (falls back to linear when excluded), 3 random permutation
    pub order_kind: u8,
    pub perm_keys: Vec<u16>,
}

pub struct Dtrees;

fn varset(v: &VarSet) -> BTreeSet<usize> {
    v.iter().map(|l| l.value_usize()).collect()
}

struct DWalk {
    leaves: Vec<BTreeSet<(usize, bool)>>,
    max_internal_cutset: usize,
    nonempty_internal_cutset: bool,
    leaf_cutset_differs: bool,
}

fn walk_dtree(d: &DTree, ancestors: &BTreeSet<usize>, w: &mut DWalk) -> Result<BTreeSet<usize>, Failure> {
    match d {
        DTree::Leaf { clause, cutset, vars } => {
            let lits: BTreeSet<(usize, bool)> = clause.iter().map(|l| (l.label().value_usize(), l.polarity())).collect();
            let cv: BTreeSet<usize> = lits.iter().map(|l| l.0).collect();
            ensure!(
                varset(vars) == cv,
                "C14/dtree-leaf-vars",
                "leaf for clause {:?} has vars {:?}",
                lits,
                varset(vars)
            );
            let want: BTreeSet<usize> = cv.difference(ancestors).copied().collect();
            // the property defines cutsets through "the children": a leaf has none, so the leaf convention
            // (variables not cut above) is recorded only; a leaf cutset that loses a variable shows up in the
            // derived vtree, which is checked
            if varset(cutset) != want {
                w.leaf_cutset_differs = true;
            }
            w.leaves.push(lits);
            Ok(cv)
        }
        DTree::Node { l, r, cutset, vars } => {
            // children first need this node's cutset: compute from the children's variable sets, which
            // the harness derives itself (not from the children's `vars` fields)
            fn vars_of(d: &DTree) -> BTreeSet<usize> {
                match d {
                    DTree::Leaf { clause, .. } => clause.iter().map(|l| l.label().value_usize()).collect(),
                    DTree::Node { l, r, .. } => {
                        let mut s = vars_of(l);
                        s.extend(vars_of(r));
                        s
                    }
                }
            }
            let vl = vars_of(l);
            let vr = vars_of(r);
            let union: BTreeSet<usize> = vl.union(&vr).copied().collect();
            ensure!(
                varset(vars) == union,
                "C14/dtree-node-vars",
                "internal node has vars {:?} but its children mention {:?}",
                varset(vars),
                union
            );
            let want: BTreeSet<usize> = vl.intersection(&vr).copied().filter(|v| !ancestors.contains(v)).collect();
            ensure!(
                varset(cutset) == want,
                "C14/dtree-node-cutset",
                "internal node over {:?}: cutset {:?}, expected (vars(l) & vars(r)) minus ancestor cutsets = {:?}",
                union,
                varset(cutset),
                want
            );
            w.max_internal_cutset = w.max_internal_cutset.max(want.len());
            if !want.is_empty() {
                w.nonempty_internal_cutset = true;
            }
            let mut anc = ancestors.clone();
            anc.extend(want.iter().copied());
            walk_dtree(l, &anc, w)?;
            walk_dtree(r, &anc, w)?;
            Ok(union)
        }
    }
}

fn vtree_leaves(v: &VTree, out: &mut Vec<usize>) {
    match v {
        BTree::Leaf(l) => out.push(l.value_usize()),
        BTree::Node((), l, r) => {
            vtree_leaves(l, out);
            vtree_leaves(r, out);
        }
    }
}

pub fn run_dtree(case: &DtreeCase, st: &mut Stats) -> CaseResult {
    if case.cnf.clauses.is_empty() {
        st.bump("dtree.excluded_no_clause");
        return Ok(());
    }
    let cnf: Cnf = case.cnf.to_rsdd();
    let n = cnf.num_vars();
    // what is done with a CNF takes the Cnf object as its input (whether Cnf::new kept the generating list is
    // C15's concern): the clause list is read back through clauses()
    let seen = CnfCase::read_back(&cnf);
    st.flag("cnf_object_differs_from_generating_list(C15's concern)", seen.clauses != case.cnf.clauses);

    let order = match case.order_kind % 4 {
        0 => cnf.linear_order(),
        1 => cnf.min_fill_order(),
        2 if force_ok(&seen) => cnf.force_order(),
        2 => cnf.linear_order(),
        _ => {
            let perm = perm_from_keys(&case.perm_keys, n);
            VarOrder::new(&perm.iter().map(|v| VarLabel::new_usize(*v)).collect::<Vec<_>>())
        }
    };
    st.bump(&format!("dtree.order_kind.{}", case.order_kind % 4));
    let d = DTree::from_cnf(&cnf, &order);
    let mut w = DWalk {
        leaves: Vec::new(),
        max_internal_cutset: 0,
        nonempty_internal_cutset: false,
        leaf_cutset_differs: false,
    };
    walk_dtree(&d, &BTreeSet::new(), &mut w)?;
    let mut got = w.leaves.clone();
    got.sort();
    let mut want: Vec<BTreeSet<(usize, bool)>> = seen
        .clauses
        .iter()
        .map(|c| c.iter().map(|(v, p)| (*v as usize, *p)).collect())
        .collect();
    want.sort();
    ensure!(
        got == want,
        "C14/dtree-leaves-are-not-the-clauses",
        "dtree leaves {:?} differ from the CNF's clauses {:?}",
        got,
        want
    );
    // cutwidth() is not part of the property: recorded only
    st.flag("dtree.cutwidth_differs_from_largest_internal_cutset(recorded only)", d.cutwidth() != w.max_internal_cutset);
    st.flag("dtree.leaf_cutset_differs_from_vars_minus_ancestors(recorded only)", w.leaf_cutset_differs);
    let mentioned = seen.mentioned_vars();
    match VTree::from_dtree(&d) {
        None => ensure!(
            mentioned.is_empty(),
            "C14/vtree-from-dtree-missing",
            "VTree::from_dtree returned None although the CNF mentions variables {:?}",
            mentioned
        ),
        Some(v) => {
            let mut leaves = Vec::new();
            vtree_leaves(&v, &mut leaves);
            let mut sorted = leaves.clone();
            sorted.sort_unstable();
            ensure!(
                sorted == mentioned,
                "C14/vtree-from-dtree-leaves",
                "vtree derived from the dtree has leaves {:?}; the CNF mentions exactly {:?} (each must occur once)",
                leaves,
                mentioned
            );
        }
    }
    // disconnected components?
    let comps = {
        let mut comp: Vec<BTreeSet<usize>> = Vec::new();
        for c in seen.clauses.iter() {
            let vs: BTreeSet<usize> = c.iter().map(|l| l.0 as usize).collect();
            let (mut hit, rest): (Vec<_>, Vec<_>) = comp.into_iter().partition(|k| !k.is_disjoint(&vs));
            let mut merged = vs;
            for h in hit.drain(..) {
                merged.extend(h);
            }
            comp = rest;
            comp.push(merged);
        }
        comp.len()
    };
    st.flag("dtree.disconnected", comps >= 2);
    st.flag("dtree.has_empty_clause", seen.has_empty_clause());
    if seen.clauses.len() >= 3 && w.nonempty_internal_cutset {
        st.mark_nontrivial();
    }
    Ok(())
}

impl SubCheckT for Dtrees {
    type Case = DtreeCase;
    const NAME: &'static str = "dtree";
    const RULE: &'static str = "random CNF with >=1 clause x elimination order in {linear, min-fill, FORCE, random permutation}: leaf clauses = the CNF's clauses (multiset of literal sets), leaf vars = clause variables, node vars = union of the variables below (recomputed by the harness), cutsets of internal nodes = (vars(l) & vars(r)) minus ancestors' cutsets (leaf cutsets and cutwidth() are compared with their conventions and recorded only); VTree::from_dtree is None iff no variable is mentioned, else its leaves are exactly the mentioned variables, once each. Non-trivial: >=3 clauses and a non-empty internal cutset";
    fn cases(tier: Tier) -> u32 {
        tier.pick(12_000, 150_000)
    }
    fn strategy(_tier: Tier) -> BoxedStrategy<DtreeCase> {
        (prop_oneof![60 => cnf_strategy(), 1 => big_cnf_strategy()], 0u8..4, order_keys_strategy())
            .prop_map(|(cnf, order_kind, perm_keys)| DtreeCase {
                cnf,
                order_kind,
                perm_keys,
            })
            .boxed()
    }
    fn run(case: &DtreeCase, st: &mut Stats) -> CaseResult {
        run_dtree(case, st)
    }
}

// ---------------------------------------------------------------------------
// vtree manager
// ---------------------------------------------------------------------------

/// vtrees with 17..150 leaves (Euler tours beyond 64 and 256 entries), random shapes and leaf orders
fn big_vtree_case_strategy() -> BoxedStrategy<VtreeCase> {
    (17u8..=150, proptest::collection::vec(any::<u16>(), 150), 0u8..5, proptest::collection::vec(any::<u16>(), 150))
        .prop_map(|(k, keys, kind, splits)| VtreeCase { k, keys, kind, splits, stride: 1, offset: 0 })
        .boxed()
}

pub struct Manager;

pub fn run_manager(case: &VtreeCase, st: &mut Stats) -> CaseResult {
    let shape = case.shape();
    let info = ShapeInfo::new(&shape);
    let vt = shape.to_vtree();
    let m = VTreeManager::new(vt.clone());
    let n = info.len();
    let leaves = shape.leaves();
    // in-order indices of leaves, subtree lookup
    let mut idx_of_label: BTreeMap<usize, rsdd::repr::VTreeIndex> = BTreeMap::new();
    for i in 0..n {
        if let Some(lbl) = info.leaf_label[i] {
            let vi = m.var_index(VarLabel::new_usize(lbl));
            ensure!(
                vi.value() == i,
                "C14/vtree-var-index",
                "var_index({}) = {} but the leaf is at in-order position {}",
                lbl,
                vi.value(),
                i
            );
            idx_of_label.insert(lbl, vi);
        }
    }
    // obtain a VTreeIndex for every node: leaves directly, internal nodes as lca of their outermost leaves
    let mut vidx: Vec<Option<rsdd::repr::VTreeIndex>> = vec![None; n];
    for i in 0..n {
        let below = &info.vars_below[i];
        let a = idx_of_label[&below[0]];
        let b = idx_of_label[below.last().unwrap()];
        let l = m.lca(a, b);
        ensure!(
            l.value() == i,
            "C14/vtree-lca",
            "lca of leaves {} and {} (the outermost leaves below in-order node {}) = {}",
            below[0],
            below.last().unwrap(),
            i,
            l.value()
        );
        vidx[i] = Some(l);
    }
    for i in 0..n {
        let vi = vidx[i].unwrap();
        ensure!(
            *m.vtree(vi) == info.sub[i].to_vtree(),
            "C14/vtree-lookup",
            "vtree({}) is not the subtree at in-order position {}",
            i,
            i
        );
        for j in 0..n {
            let vj = vidx[j].unwrap();
            let l = m.lca(vi, vj);
            ensure!(
                l.value() == info.lca(i, j),
                "C14/vtree-lca",
                "lca({}, {}) = {} but the shape gives {}",
                i,
                j,
                l.value(),
                info.lca(i, j)
            );
            ensure!(
                m.is_prime_index(vi, vj) == info.prime_to(i, j),
                "C14/vtree-prime-relation",
                "is_prime_index({}, {}) = {} but by the shape of the tree it is {}",
                i,
                j,
                m.is_prime_index(vi, vj),
                info.prime_to(i, j)
            );
        }
    }
    for a in leaves.iter() {
        for b in leaves.iter() {
            let (ia, ib) = (info.index_of_label(*a).unwrap(), info.index_of_label(*b).unwrap());
            let want = info.prime_to(ia, ib);
            let (la, lb) = (VarLabel::new_usize(*a), VarLabel::new_usize(*b));
            ensure!(
                m.is_prime_var(la, lb) == want && m.is_prime(SddPtr::Var(la, true), SddPtr::Var(lb, false)) == want,
                "C14/vtree-prime-relation",
                "is_prime_var({}, {}) = {}, is_prime on literals = {}, shape says {}",
                a,
                b,
                m.is_prime_var(la, lb),
                m.is_prime(SddPtr::Var(la, true), SddPtr::Var(lb, false)),
                want
            );
        }
    }
    // is_prime on decision nodes (their recorded vtree position, not a label lookup): nodes built over this vtree
    if leaves.len() >= 2 {
        use rsdd::builder::sdd::{CompressionSddBuilder, SddBuilder};
        use rsdd::builder::BottomUpBuilder;
        let sb = CompressionSddBuilder::new(vt.clone());
        let mut nodes: Vec<SddPtr> = Vec::new();
        for (t, key) in case.keys.iter().take(6).enumerate() {
            let a = leaves[pick(*key, leaves.len())];
            let b = leaves[pick(case.splits.get(t).copied().unwrap_or(0), leaves.len())];
            if a == b {
                continue;
            }
            let (xa, xb) = (sb.var(VarLabel::new_usize(a), true), sb.var(VarLabel::new_usize(b), t % 2 == 0));
            let nd = if t % 3 == 0 { sb.xor(xa, xb) } else { sb.and(xa, xb) };
            if !nd.is_const() && !nd.is_var() {
                nodes.push(if t % 2 == 1 { sb.negate(nd) } else { nd });
            }
        }
        for x in nodes.iter() {
            for y in nodes.iter() {
                let (ix, iy) = (x.vtree().value(), y.vtree().value());
                ensure!(
                    m.is_prime(*x, *y) == info.prime_to(ix, iy) && sb.vtree_manager().is_prime(*x, *y) == info.prime_to(ix, iy),
                    "C14/vtree-prime-relation",
                    "is_prime on decision nodes at in-order positions {} and {} = {}, the shape says {}",
                    ix,
                    iy,
                    m.is_prime(*x, *y),
                    info.prime_to(ix, iy)
                );
            }
            // a decision node against a literal
            let l0 = VarLabel::new_usize(leaves[0]);
            let i0 = info.index_of_label(leaves[0]).unwrap();
            ensure!(
                m.is_prime(*x, SddPtr::Var(l0, true)) == info.prime_to(x.vtree().value(), i0) && m.is_prime(SddPtr::Var(l0, false), *x) == info.prime_to(i0, x.vtree().value()),
                "C14/vtree-prime-relation",
                "is_prime between a decision node at position {} and the literal of x{} disagrees with the shape",
                x.vtree().value(),
                leaves[0]
            );
        }
        st.add("vtree.is_prime_on_decision_nodes", nodes.len() as u64);
    }
    let k = leaves.len();
    let nv = m.num_vars();
    if case.contiguous() {
        ensure!(
            nv == k,
            "C14/vtree-num-vars",
            "num_vars() = {} for a vtree with the {} leaves {:?}",
            nv,
            k,
            leaves
        );
    } else {
        let maxp1 = leaves.iter().max().unwrap() + 1;
        ensure!(
            nv == k || nv == maxp1,
            "C14/vtree-num-vars",
            "num_vars() = {} for leaves {:?} (neither the leaf count {} nor largest label + 1 = {})",
            nv,
            leaves,
            k,
            maxp1
        );
    }
    {
        let maxp1 = leaves.iter().max().unwrap() + 1;
        ensure!(
            vt.num_vars() == maxp1 || (!case.contiguous() && vt.num_vars() == k),
            "C14/vtree-num-vars",
            "VTree::num_vars() = {} for leaves {:?}",
            vt.num_vars(),
            leaves
        );
    }
    st.flag("vtree.right_linear", shape.is_right_linear_everywhere());
    st.flag("vtree.left_linear", shape.is_left_linear_everywhere());
    st.flag("vtree.sparse_labels", !case.contiguous());
    st.flag("vtree.more_than_16_leaves", leaves.len() > 16);
    st.flag("vtree.more_than_64_leaves", leaves.len() > 64);
    if k >= 4 && !shape.is_right_linear_everywhere() && !shape.is_left_linear_everywhere() {
        st.mark_nontrivial();
    }
    Ok(())
}

impl SubCheckT for Manager {
    type Case = VtreeCase;
    const NAME: &'static str = "vtree_manager";
    const RULE: &'static str = "random vtrees with 1..12 leaves, and now and then 17..150 leaves (right-linear, left-linear, balanced, random splits; labels a permutation of 0..k-1, sometimes non-contiguous): var_index = in-order position, vtree(idx) = that subtree, lca for all node pairs, is_prime_index / is_prime_var / is_prime on literals and on decision nodes built over the vtree = the relation read off the shape (x is in the left part at the least common ancestor), num_vars = number of leaves. Non-trivial: >=4 leaves and neither right- nor left-linear";
    fn cases(tier: Tier) -> u32 {
        tier.pick(12_000, 150_000)
    }
    fn strategy(_tier: Tier) -> BoxedStrategy<VtreeCase> {
        prop_oneof![80 => vtree_case_strategy(12, true), 1 => big_vtree_case_strategy()].boxed()
    }
    fn run(case: &VtreeCase, st: &mut Stats) -> CaseResult {
        run_manager(case, st)
    }
}

// ---------------------------------------------------------------------------
// LeastCommonAncestor driven directly
// ---------------------------------------------------------------------------

pub struct Lca;

pub fn run_lca(case: &VtreeCase, st: &mut Stats) -> CaseResult {
    let shape = case.shape();
    // BTree<usize, usize> labelled with arbitrary payloads
    fn to_btree(s: &Shape, c: &mut usize) -> BTree<usize, usize> {
        match s {
            Shape::Leaf(l) => BTree::Leaf(*l),
            Shape::Node(l, r) => {
                *c += 1;
                let me = *c;
                BTree::Node(me, Box::new(to_btree(l, c)), Box::new(to_btree(r, c)))
            }
        }
    }
    let t = to_btree(&shape, &mut 0);
    let lca = LeastCommonAncestor::new(&t);
    // BFS numbering and parents computed by the harness
    let mut nodes: Vec<(&BTree<usize, usize>, Option<usize>)> = vec![(&t, None)];
    let mut i = 0;
    while i < nodes.len() {
        if let BTree::Node(_, l, r) = nodes[i].0 {
            nodes.push((l, Some(i)));
            nodes.push((r, Some(i)));
        }
        i += 1;
    }
    // depth of every node, then the textbook climb: lift the deeper node, then both, until they meet
    let mut depth = vec![0usize; nodes.len()];
    for x in 1..nodes.len() {
        depth[x] = depth[nodes[x].1.unwrap()] + 1;
    }
    let climb = |mut a: usize, mut b: usize| -> usize {
        while depth[a] > depth[b] {
            a = nodes[a].1.unwrap();
        }
        while depth[b] > depth[a] {
            b = nodes[b].1.unwrap();
        }
        while a != b {
            a = nodes[a].1.unwrap();
            b = nodes[b].1.unwrap();
        }
        a
    };
    for a in 0..nodes.len() {
        for b in 0..nodes.len() {
            let want = climb(a, b);
            let got = lca.lca(a, b);
            ensure!(
                got == want,
                "C14/btree-lca",
                "LeastCommonAncestor::lca({}, {}) = {} (breadth-first indices), expected {}",
                a,
                b,
                got,
                want
            );
        }
    }
    st.flag("lca.more_than_33_nodes", nodes.len() > 33);
    st.flag("lca.more_than_129_nodes", nodes.len() > 129);
    if nodes.len() >= 7 && !shape.is_right_linear_everywhere() && !shape.is_left_linear_everywhere() {
        st.mark_nontrivial();
    }
    Ok(())
}

impl SubCheckT for Lca {
    type Case = VtreeCase;
    const NAME: &'static str = "btree_lca";
    const RULE: &'static str = "LeastCommonAncestor built on random binary trees (1..12 leaves, now and then 17..150 leaves) and queried for all ordered pairs of breadth-first indices against the ancestor-chain definition. Non-trivial: >=7 nodes, neither linear shape";
    fn cases(tier: Tier) -> u32 {
        tier.pick(8000, 100_000)
    }
    fn strategy(_tier: Tier) -> BoxedStrategy<VtreeCase> {
        prop_oneof![80 => vtree_case_strategy(12, false), 1 => big_vtree_case_strategy()].boxed()
    }
    fn run(case: &VtreeCase, st: &mut Stats) -> CaseResult {
        run_lca(case, st)
    }
}

// ---------------------------------------------------------------------------
// orders, dtrees and derived vtrees of formulas over several hundred variables
// ---------------------------------------------------------------------------

/// a formula over `n` variables (labels beyond one byte and beyond 1024), generated from a seed
#[derive(Clone, Debug, Serialize, Deserialize)]
pub struct HugeCase {
    pub n: u16,
    /// 0 implication chain, 1 grid, 2 random 3-CNF (about 1.4 n clauses), 3 disjoint small gadgets with unused
    /// labels in between, 4 chain with unit and duplicate clauses and a few long clauses
    pub family: u8,
    pub seed: u64,
    /// 0 linear, 1 min-fill (where affordable, else FORCE), 2 FORCE, 3 random permutation
    pub order_kind: u8,
}

pub fn huge_clauses(case: &HugeCase) -> Vec<Vec<(usize, bool)>> {
    let n = case.n as usize;
    let r = |k: u64| splitmix(case.seed ^ k.wrapping_mul(0x9E37_79B9_7F4A_7C15));
    let mut out: Vec<Vec<(usize, bool)>> = Vec::new();
    match case.family % 5 {
        0 => {
            for i in 0..n.saturating_sub(1) {
                out.push(vec![(i, r(i as u64) & 1 == 1), (i + 1, r(i as u64) & 2 == 2)]);
            }
        }
        1 => {
            let w = ((n as f64).sqrt() as usize).max(2);
            for i in 0..n {
                if (i % w) + 1 < w && i + 1 < n {
                    out.push(vec![(i, r(i as u64) & 1 == 1), (i + 1, r(i as u64) & 2 == 2)]);
                }
                if i + w < n {
                    out.push(vec![(i, r(i as u64) & 4 == 4), (i + w, r(i as u64) & 8 == 8)]);
                }
            }
        }
        2 => {
            let m = n * 7 / 5;
            for c in 0..m {
                let x = r(c as u64);
                // local clauses (labels close together) with a few long-range ones, so that the interaction
                // graph stays sparse and min-fill stays affordable
                let a = (x % n as u64) as usize;
                let span = if (x >> 60) == 0 { n } else { 12 };
                let b = (a + 1 + ((x >> 20) as usize % span)) % n;
                let d = (a + 1 + ((x >> 40) as usize % span)) % n;
                out.push(vec![(a, x & 1 == 1), (b, x & 2 == 2), (d, x & 4 == 4)]);
            }
        }
        3 => {
            let mut i = 0usize;
            let mut k = 0u64;
            while i + 3 < n {
                let x = r(k);
                out.push(vec![(i, x & 1 == 1), (i + 1, x & 2 == 2)]);
                out.push(vec![(i + 1, x & 4 == 4), (i + 2, x & 8 == 8)]);
                out.push(vec![(i, x & 16 == 16), (i + 2, x & 32 == 32)]);
                i += 3 + (x >> 8) as usize % 4;
                k += 1;
            }
            if n >= 1 {
                out.push(vec![(n - 1, true)]);
            }
        }
        _ => {
            for i in 0..n.saturating_sub(1) {
                let x = r(i as u64);
                out.push(vec![(i, x & 1 == 1), (i + 1, x & 2 == 2)]);
                if x >> 61 == 0 {
                    out.push(vec![(i, x & 4 == 4)]);
                }
                if x >> 61 == 1 {
                    out.push(vec![(i, x & 1 == 1), (i + 1, x & 2 == 2)]);
                }
                if x >> 58 == 5 {
                    out.push((0..6).map(|j| ((i + j * 7) % n, (x >> (10 + j)) & 1 == 1)).collect());
                }
            }
        }
    }
    out
}

pub struct HugeOrders;

pub fn run_huge(case: &HugeCase, st: &mut Stats) -> CaseResult {
    let gen = huge_clauses(case);
    if gen.is_empty() {
        return Ok(());
    }
    let cnf = Cnf::new(
        &gen.iter()
            .map(|c| c.iter().map(|(v, p)| rsdd::repr::Literal::new(VarLabel::new_usize(*v), *p)).collect::<Vec<_>>())
            .collect::<Vec<_>>(),
    );
    let n = cnf.num_vars();
    // the clause list as the Cnf object holds it (whether Cnf::new kept the generating list is C15's concern)
    let seen: Vec<BTreeSet<(usize, bool)>> =
        cnf.clauses().iter().map(|c| c.iter().map(|l| (l.label().value_usize(), l.polarity())).collect()).collect();
    let mentioned: Vec<usize> = seen.iter().flat_map(|c| c.iter().map(|l| l.0)).collect::<BTreeSet<usize>>().into_iter().collect();
    ensure!(
        mentioned.last().map(|m| m + 1).unwrap_or(0) <= n,
        "C14/order-num-vars",
        "a CNF mentioning label {:?} reports {} variables",
        mentioned.last(),
        n
    );
    st.bump(&format!("huge.family.{}", case.family % 5));
    st.bump(match n {
        0..=255 => "huge.vars.upto_255",
        256..=257 => "huge.vars.256_257",
        258..=511 => "huge.vars.258_511",
        512..=1023 => "huge.vars.512_1023",
        1024..=1025 => "huge.vars.1024_1025",
        _ => "huge.vars.above_1025",
    });
    let lin = cnf.linear_order();
    check_order(&lin, n, "linear_order (many variables)")?;
    let force = cnf.force_order();
    check_order(&force, n, "force_order (many variables)")?;
    // min-fill is cubic in dense neighbourhoods: asked where it stays affordable (sparse families up to about
    // 420 variables, the random family up to 300), which includes the sizes just beyond one byte of labels
    let minfill_ok = n <= if case.family % 5 == 2 { 300 } else { 420 };
    let minfill = if minfill_ok {
        let o = cnf.min_fill_order();
        check_order(&o, n, "min_fill_order (many variables)")?;
        st.bump("huge.min_fill_asked");
        if n > 256 {
            st.bump("huge.min_fill_asked_beyond_256_variables");
        }
        Some(o)
    } else {
        None
    };
    let perm = crate::big::permutation(case.seed, n);
    let mut random = VarOrder::new(&perm.iter().map(|v| VarLabel::new_usize(*v)).collect::<Vec<_>>());
    check_order(&random, n, "VarOrder::new(permutation, many variables)")?;
    let seq0: Vec<usize> = random.in_order_iter().map(|v| v.value_usize()).collect();
    ensure!(seq0 == perm, "C14/order-new", "VarOrder::new of a permutation of {} labels iterates differently", n);
    let order = match case.order_kind % 4 {
        0 => lin,
        1 => minfill.unwrap_or_else(|| force.clone()),
        2 => force,
        _ => random.clone(),
    };
    st.bump(&format!("huge.dtree_order_kind.{}", case.order_kind % 4));
    // run-time extension
    let l = random.new_last();
    ensure!(l.value_usize() == n, "C14/order-new-last-label", "new_last() returned label {} for an order over {} variables", l.value(), n);
    check_order(&random, n + 1, "after new_last (many variables)")?;
    ensure!(
        random.last_var() == l && random.get(l) == n,
        "C14/order-new-last-position",
        "the new label {} is at position {} (expected last, {})",
        l.value(),
        random.get(l),
        n
    );

    let d = DTree::from_cnf(&cnf, &order);
    let mut w = DWalk {
        leaves: Vec::new(),
        max_internal_cutset: 0,
        nonempty_internal_cutset: false,
        leaf_cutset_differs: false,
    };
    walk_dtree_fast(&d, &BTreeSet::new(), &mut w)?;
    let mut got = w.leaves.clone();
    got.sort();
    let mut want = seen.clone();
    want.sort();
    ensure!(
        got == want,
        "C14/dtree-leaves-are-not-the-clauses",
        "dtree of a CNF with {} clauses over {} variables: its {} leaves are not the CNF's clauses",
        want.len(),
        n,
        got.len()
    );
    match VTree::from_dtree(&d) {
        None => ensure!(mentioned.is_empty(), "C14/vtree-from-dtree-missing", "VTree::from_dtree returned None for a CNF over {} variables", n),
        Some(v) => {
            let mut leaves = Vec::new();
            vtree_leaves(&v, &mut leaves);
            leaves.sort_unstable();
            ensure!(
                leaves == mentioned,
                "C14/vtree-from-dtree-leaves",
                "vtree derived from the dtree of a CNF mentioning {} variables has {} leaves; missing {:?}, not mentioned or repeated {:?}",
                mentioned.len(),
                leaves.len(),
                mentioned.iter().filter(|m| leaves.binary_search(m).is_err()).take(8).collect::<Vec<_>>(),
                {
                    let mut extra: Vec<usize> = leaves.windows(2).filter(|p| p[0] == p[1]).map(|p| p[0]).collect();
                    extra.extend(leaves.iter().filter(|l| mentioned.binary_search(l).is_err()));
                    extra.truncate(8);
                    extra
                }
            );
        }
    }
    // the vtree manager on the derived vtree (deep, up to some 1300 leaves): leaf indices, least common ancestors of
    // sampled leaf pairs and of the resulting internal nodes with further leaves, prime relation of sampled leaves;
    // the reference is the harness's own in-order numbering with a parent climb
    if let Some(v) = VTree::from_dtree(&d) {
        fn number(v: &VTree, depth: usize, nodes: &mut Vec<(Option<usize>, usize)>, leaf: &mut BTreeMap<usize, usize>) -> usize {
            match v {
                BTree::Leaf(l) => {
                    nodes.push((None, depth));
                    leaf.insert(l.value_usize(), nodes.len() - 1);
                    nodes.len() - 1
                }
                BTree::Node((), l, r) => {
                    let li = number(l, depth + 1, nodes, leaf);
                    nodes.push((None, depth));
                    let me = nodes.len() - 1;
                    let ri = number(r, depth + 1, nodes, leaf);
                    nodes[li].0 = Some(me);
                    nodes[ri].0 = Some(me);
                    me
                }
            }
        }
        let mut nodes: Vec<(Option<usize>, usize)> = Vec::new();
        let mut leaf: BTreeMap<usize, usize> = BTreeMap::new();
        number(&v, 0, &mut nodes, &mut leaf);
        let climb = |mut a: usize, mut b: usize| -> usize {
            while a != b {
                if nodes[a].1 >= nodes[b].1 {
                    a = nodes[a].0.unwrap();
                } else {
                    b = nodes[b].0.unwrap();
                }
            }
            a
        };
        let m = VTreeManager::new(v.clone());
        let labels: Vec<usize> = leaf.keys().copied().collect();
        let depth = nodes.iter().map(|x| x.1).max().unwrap_or(0);
        st.bump(match depth {
            0..=255 => "huge.derived_vtree_depth.upto_255",
            256..=1023 => "huge.derived_vtree_depth.256_1023",
            _ => "huge.derived_vtree_depth.from_1024",
        });
        for k in 0..200u64 {
            let x = splitmix(case.seed ^ 0x1CA ^ k);
            let (a, b, c) = (labels[x as usize % labels.len()], labels[(x >> 20) as usize % labels.len()], labels[(x >> 40) as usize % labels.len()]);
            let (ia, ib, ic) = (m.var_index(VarLabel::new_usize(a)), m.var_index(VarLabel::new_usize(b)), m.var_index(VarLabel::new_usize(c)));
            ensure!(
                ia.value() == leaf[&a] && ib.value() == leaf[&b],
                "C14/vtree-var-index",
                "derived vtree with {} leaves: var_index({}) = {}, var_index({}) = {}; the leaves are at in-order positions {} and {}",
                labels.len(),
                a,
                ia.value(),
                b,
                ib.value(),
                leaf[&a],
                leaf[&b]
            );
            let l1 = m.lca(ia, ib);
            ensure!(
                l1.value() == climb(leaf[&a], leaf[&b]),
                "C14/vtree-lca",
                "derived vtree with {} leaves and depth {}: lca of leaves {} and {} (in-order {} and {}) = {}; climbing the parents gives {}",
                labels.len(),
                depth,
                a,
                b,
                leaf[&a],
                leaf[&b],
                l1.value(),
                climb(leaf[&a], leaf[&b])
            );
            let l2 = m.lca(l1, ic);
            ensure!(
                l2.value() == climb(l1.value(), leaf[&c]),
                "C14/vtree-lca",
                "derived vtree with {} leaves and depth {}: lca of node {} and leaf {} (in-order {}) = {}; climbing the parents gives {}",
                labels.len(),
                depth,
                l1.value(),
                c,
                leaf[&c],
                l2.value(),
                climb(l1.value(), leaf[&c])
            );
            ensure!(
                m.is_prime_var(VarLabel::new_usize(a), VarLabel::new_usize(b)) == (leaf[&a] < leaf[&b]) && m.is_prime_index(l1, ic) == (l1.value() < leaf[&c]),
                "C14/vtree-prime-relation",
                "derived vtree with {} leaves: prime relation of leaves {} / {} or of node {} / leaf {} disagrees with the in-order positions",
                labels.len(),
                a,
                b,
                l1.value(),
                c
            );
        }
    }
    st.flag("huge.unused_labels", mentioned.len() < n);
    if n > 256 && w.nonempty_internal_cutset {
        st.mark_nontrivial();
    }
    Ok(())
}

/// as `walk_dtree`, with the variable sets computed once per node (the trees here have up to some 2000 leaves and
/// can be as deep)
fn walk_dtree_fast(d: &DTree, ancestors: &BTreeSet<usize>, w: &mut DWalk) -> Result<BTreeSet<usize>, Failure> {
    fn vars_of(d: &DTree, memo: &mut std::collections::HashMap<*const DTree, BTreeSet<usize>>) -> BTreeSet<usize> {
        if let Some(s) = memo.get(&(d as *const DTree)) {
            return s.clone();
        }
        let s: BTreeSet<usize> = match d {
            DTree::Leaf { clause, .. } => clause.iter().map(|l| l.label().value_usize()).collect(),
            DTree::Node { l, r, .. } => {
                let mut s = vars_of(l, memo);
                s.extend(vars_of(r, memo));
                s
            }
        };
        memo.insert(d as *const DTree, s.clone());
        s
    }
    fn go(
        d: &DTree,
        ancestors: &BTreeSet<usize>,
        w: &mut DWalk,
        memo: &mut std::collections::HashMap<*const DTree, BTreeSet<usize>>,
    ) -> Result<(), Failure> {
        match d {
            DTree::Leaf { clause, cutset, vars } => {
                let lits: BTreeSet<(usize, bool)> = clause.iter().map(|l| (l.label().value_usize(), l.polarity())).collect();
                let cv: BTreeSet<usize> = lits.iter().map(|l| l.0).collect();
                ensure!(varset(vars) == cv, "C14/dtree-leaf-vars", "leaf for clause {:?} has vars {:?}", lits, varset(vars));
                if varset(cutset) != cv.difference(ancestors).copied().collect::<BTreeSet<usize>>() {
                    w.leaf_cutset_differs = true;
                }
                w.leaves.push(lits);
                Ok(())
            }
            DTree::Node { l, r, cutset, vars } => {
                let vl = vars_of(l, memo);
                let vr = vars_of(r, memo);
                let union: BTreeSet<usize> = vl.union(&vr).copied().collect();
                ensure!(
                    varset(vars) == union,
                    "C14/dtree-node-vars",
                    "internal node has {} vars but its children mention {} ({:?} differ)",
                    varset(vars).len(),
                    union.len(),
                    varset(vars).symmetric_difference(&union).take(8).collect::<Vec<_>>()
                );
                let want: BTreeSet<usize> = vl.intersection(&vr).copied().filter(|v| !ancestors.contains(v)).collect();
                ensure!(
                    varset(cutset) == want,
                    "C14/dtree-node-cutset",
                    "internal node over {} variables: cutset {:?}, expected (vars(l) & vars(r)) minus ancestor cutsets = {:?}",
                    union.len(),
                    varset(cutset),
                    want
                );
                w.max_internal_cutset = w.max_internal_cutset.max(want.len());
                if !want.is_empty() {
                    w.nonempty_internal_cutset = true;
                }
                let mut anc = ancestors.clone();
                anc.extend(want.iter().copied());
                go(l, &anc, w, memo)?;
                go(r, &anc, w, memo)
            }
        }
    }
    let mut memo = std::collections::HashMap::new();
    go(d, ancestors, w, &mut memo)?;
    Ok(vars_of(d, &mut memo))
}

impl SubCheckT for HugeOrders {
    type Case = HugeCase;
    const NAME: &'static str = "orders_and_dtrees_many_variables";
    const RULE: &'static str = "formula over 130..1300 variables generated from a seed (implication chain, grid, local random 3-CNF, disjoint gadgets with unused labels, chain with unit / duplicate / long clauses; sizes concentrated around 256 and 1024): linear_order, force_order, VarOrder::new(random permutation) + new_last, and min_fill_order where affordable (<= 420 variables, <= 300 for the random family) are checked as in `orders`; the dtree of one of these orders is checked as in `dtree` (leaves = clauses, vars, internal cutsets) and the derived vtree has exactly the mentioned variables as leaves; a VTreeManager built on that vtree (depth beyond 255 and 1023 for chains) is held to the harness's in-order numbering on 200 sampled leaf / node pairs (var_index, lca, prime relation). Non-trivial: more than 256 variables and a non-empty internal cutset";
    fn cases(tier: Tier) -> u32 {
        tier.pick(96, 1200)
    }
    fn strategy(_tier: Tier) -> BoxedStrategy<HugeCase> {
        let n = prop_oneof![
            4 => 255u16..=262,
            3 => 257u16..=420,
            1 => 130u16..=256,
            2 => 421u16..=1020,
            1 => 1021u16..=1030,
            1 => 1031u16..=1300,
        ];
        (n, 0u8..5, any::<u64>(), 0u8..4).prop_map(|(n, family, seed, order_kind)| HugeCase { n, family, seed, order_kind }).boxed()
    }
    fn run(case: &HugeCase, st: &mut Stats) -> CaseResult {
        run_huge(case, st)
    }
}

pub fn property() -> Property {
    Property {
        id: "C14",
        subs: vec![sub::<Orders>(), sub::<Dtrees>(), sub::<Manager>(), sub::<Lca>(), sub::<HugeOrders>()],
        fuzz: vec![],
        assumptions: vec![
            "CNFs over <= 7 variables, in about 2 % of the order / dtree cases 20..130 variables, and in a sub-check of its own 130..1300 variables (min-fill asked up to 420: its cost grows cubically, 1000 variables take minutes); vtrees with <= 12 leaves, and in about 1 % of the cases 17..150 leaves",
            "excluded by construction and counted: CNFs without clauses for DTree::from_cnf (asserted by the library) and for force_order (its loop never terminates on NaN: a hang is reported as inconclusive, not as a violation); CNFs with an empty clause for force_order (usize underflow in the span computation, outside the listed domain)",
            "for non-contiguous leaf labels VTreeManager::num_vars may be the leaf count or largest label + 1 (doc comment and VTree::num_vars disagree)",
        ],
        nt_floor_percent: 10,
    }
}
