//! C06 — top-down CNF compilation to decision-DNNF is exact.
use crate::bddi::perm_from_keys;
use crate::cnfgen::*;
use crate::engine::*;
use crate::tt::Tt;
use crate::walk::*;
use proptest::prelude::*;
use rsdd::builder::decision_nnf::{DecisionNNFBuilder, SemanticDecisionNNFBuilder, StandardDecisionNNFBuilder};
use rsdd::builder::TopDownBuilder;
use rsdd::constants::primes;
use rsdd::repr::{BddPtr, Cnf, DDNNFPtr, VarLabel, VarOrder};
use serde::{Deserialize, Serialize};

#[derive(Clone, Debug, Serialize, Deserialize)]
pub struct Case {
    pub cnf: CnfCase,
    pub order_keys: Vec<u16>,
    pub table_cap: Option<u16>,
    /// further CNFs compiled afterwards in the same two builders: clause subsets of the first one (bit i of a
    /// mask keeps clause i mod 16), padded with a tautology on the last variable so that the variable count stays
    #[serde(default)]
    pub more: Vec<u16>,
}

pub struct TopDown;

fn check_result<'a>(
    store: &str,
    r: BddPtr<'a>,
    expect: Tt,
    n: usize,
    cond: &dyn Fn(BddPtr<'a>, usize, bool) -> BddPtr<'a>,
    st: &mut Stats,
) -> CaseResult {
    ensure!(
        r.is_false() == expect.is_false(),
        format!("C06/false-constant-iff-unsat:{}", store),
        "CNF is {} but the compiler returned {} (is_false() = {})",
        if expect.is_false() { "unsatisfiable" } else { "satisfiable" },
        r.to_string_debug(),
        r.is_false()
    );
    let got = bdd_tt(r);
    ensure!(
        got == expect,
        format!("C06/wrong-function:{}", store),
        "models differ: CNF denotes {:?}, diagram denotes {:?} ({})",
        expect,
        got,
        r.to_string_debug()
    );
    match bdd_paths(r, 200_000) {
        Some(paths) => {
            for p in paths {
                let mut seen = [false; 16];
                for v in p.iter() {
                    ensure!(
                        !seen[*v],
                        format!("C06/variable-decided-twice:{}", store),
                        "path {:?} decides variable {} twice ({})",
                        p,
                        v,
                        r.to_string_debug()
                    );
                    seen[*v] = true;
                }
            }
        }
        None => st.bump("paths_capped"),
    }
    for v in 0..n {
        for b in [false, true] {
            let c = cond(r, v, b);
            let want = expect.cofactor(v, b);
            let got = bdd_tt(c);
            ensure!(
                got == want,
                format!("C06/condition:{}", store),
                "condition(result, x{} = {}) denotes {:?}, the restricted function is {:?}; result = {}",
                v,
                b,
                got,
                want,
                r.to_string_debug()
            );
            let cn = cond(r.neg(), v, b);
            let gotn = bdd_tt(cn);
            ensure!(
                gotn == want.not(),
                format!("C06/condition-of-negation:{}", store),
                "condition(NOT result, x{} = {}) denotes {:?}, the restricted negation is {:?}; result = {}",
                v,
                b,
                gotn,
                want.not(),
                r.to_string_debug()
            );
            st.add("conditionings", 2);
        }
    }
    Ok(())
}

pub fn run_case(case: &Case, st: &mut Stats) -> CaseResult {
    let cnf: Cnf = case.cnf.to_rsdd();
    let n = cnf.num_vars();
    // the compiler's input is the Cnf object: its clause list as read through clauses()
    let seen = CnfCase::read_back(&cnf);
    st.flag("cnf_object_differs_from_generating_list(C15's concern)", seen.tt() != case.cnf.tt() || n != case.cnf.num_vars());
    if n > crate::tt::NV || seen.num_vars() > n {
        return Ok(());
    }
    let perm = perm_from_keys(&case.order_keys, n);
    let order_lbls: Vec<VarLabel> = perm.iter().map(|v| VarLabel::new_usize(*v)).collect();
    let expect = seen.tt();

    rsdd::verif_hooks::set_unique_table_capacity(case.table_cap.map(|c| c as usize));
    let std_b = StandardDecisionNNFBuilder::new(VarOrder::new(&order_lbls));
    let sem_b = SemanticDecisionNNFBuilder::<{ primes::U64_LARGEST }>::new(VarOrder::new(&order_lbls));
    rsdd::verif_hooks::set_unique_table_capacity(None);

    let r1 = std_b.compile_cnf_topdown(&cnf);
    check_result(
        "standard",
        r1,
        expect,
        n,
        &|p, v, b| std_b.condition(p, VarLabel::new_usize(v), b),
        st,
    )?;
    let r2 = sem_b.compile_cnf_topdown(&cnf);
    check_result(
        "semantic",
        r2,
        expect,
        n,
        &|p, v, b| sem_b.condition(p, VarLabel::new_usize(v), b),
        st,
    )?;
    // conditioning twice in a row (the second call starts from a conditioned diagram)
    if n >= 2 {
        for (store, r) in [("standard", r1), ("semantic", r2)] {
            for v1 in 0..n.min(3) {
                let v2 = (v1 + 1 + (case.order_keys.first().copied().unwrap_or(0) as usize) % (n - 1)) % n;
                if v2 == v1 {
                    continue;
                }
                for (b1, b2) in [(false, true), (true, false), (true, true)] {
                    let c = if store == "standard" {
                        std_b.condition(std_b.condition(r, VarLabel::new_usize(v1), b1), VarLabel::new_usize(v2), b2)
                    } else {
                        sem_b.condition(sem_b.condition(r, VarLabel::new_usize(v1), b1), VarLabel::new_usize(v2), b2)
                    };
                    let want = expect.cofactor(v1, b1).cofactor(v2, b2);
                    ensure!(
                        bdd_tt(c) == want,
                        format!("C06/condition:{}", store),
                        "condition(condition(result, x{} = {}), x{} = {}) denotes {:?}, the restricted function is {:?}",
                        v1,
                        b1,
                        v2,
                        b2,
                        bdd_tt(c),
                        want
                    );
                    st.add("chained_conditionings", 1);
                }
            }
        }
    }
    // further compilations in the same builders (the stores, and the semantic store's hash table of nodes,
    // now hold nodes of the earlier results)
    if n >= 1 && !seen.clauses.is_empty() {
        for mask in case.more.iter().take(3) {
            let mut cl: Vec<Vec<Lit>> = seen.clauses.iter().enumerate().filter(|(i, _)| (mask >> (i % 16)) & 1 == 1).map(|(_, c)| c.clone()).collect();
            cl.push(vec![((n - 1) as u8, true), ((n - 1) as u8, false)]);
            let sub = CnfCase { clauses: cl };
            let sub_obj = sub.to_rsdd();
            let sub_seen = CnfCase::read_back(&sub_obj);
            if sub_obj.num_vars() != n {
                continue;
            }
            let e2 = sub_seen.tt();
            let a = std_b.compile_cnf_topdown(&sub_obj);
            check_result("standard", a, e2, n, &|p, v, b| std_b.condition(p, VarLabel::new_usize(v), b), st).map_err(|mut f| {
                f.detail = format!("{} [compiled after {:?} in the same builder: {:?}]", f.detail, seen.clauses, sub_seen.clauses);
                f
            })?;
            let c = sem_b.compile_cnf_topdown(&sub_obj);
            check_result("semantic", c, e2, n, &|p, v, b| sem_b.condition(p, VarLabel::new_usize(v), b), st).map_err(|mut f| {
                f.detail = format!("{} [compiled after {:?} in the same builder: {:?}]", f.detail, seen.clauses, sub_seen.clauses);
                f
            })?;
            // the earlier results still denote what they did
            ensure!(bdd_tt(r1) == expect && bdd_tt(r2) == expect, "C06/wrong-function:earlier-result-changed", "a later compilation changed an earlier result");
            st.bump("further_compilations_in_the_same_builder");
        }
    }
    // scratch left behind by conditioning is C10's concern: recorded only
    let dirty = bdd_nodes(r1).into_iter().chain(bdd_nodes(r2)).any(|nd| !BddPtr::Reg(nd).is_scratch_cleared());
    st.flag("scratch_left_behind(C10's concern)", dirty);
    st.flag("unsat", expect.is_false());
    st.flag("tautology", expect.is_true());
    st.flag("unsat_without_empty_clause", expect.is_false() && !case.cnf.has_empty_clause());
    st.flag("shared_node", bdd_shared_nodes(r1) > 0);
    st.flag("compl_edges", bdd_compl_edges(r1) > 0);
    st.flag("has_unit_clause", case.cnf.clauses.iter().any(|c| c.len() == 1));
    st.flag("has_empty_clause", case.cnf.has_empty_clause());
    st.flag("no_clauses", case.cnf.clauses.is_empty());
    st.flag("nonlinear_order", perm.iter().enumerate().any(|(i, v)| i != *v));
    if !expect.is_const() && expect.support_size() >= 3 {
        st.mark_nontrivial();
    }
    Ok(())
}

impl SubCheckT for TopDown {
    type Case = Case;
    const NAME: &'static str = "topdown";
    const RULE: &'static str = "random CNF (n<=7, incl. empty formula, empty/unit/duplicate/tautological clauses, repeated gadgets on disjoint blocks) x random permutation of its variables as decision order x {standard, semantic(64-bit)} node store: result is the false constant iff brute force finds no model; truth table (walked) = CNF's; no path repeats a variable; condition(r,v,b) and condition(not r,v,b) denote the cofactor / its negation for every v,b, chained conditionings the double cofactor; up to 2 further CNFs (clause subsets) are compiled in the same builders and held to the same checks. Non-trivial: satisfiable, non-tautological, support >= 3";
    fn cases(tier: Tier) -> u32 {
        tier.pick(12_000, 200_000)
    }
    fn strategy(_tier: Tier) -> BoxedStrategy<Case> {
        (
            cnf_strategy(),
            crate::bddi::order_keys_strategy(),
            prop_oneof![1 => Just(None), 6 => (1u16..=64).prop_map(Some)],
            proptest::collection::vec(any::<u16>(), 0..=2),
        )
            .prop_map(|(cnf, order_keys, table_cap, more)| Case {
                cnf,
                order_keys,
                table_cap,
                more,
            })
            .boxed()
    }
    fn run(case: &Case, st: &mut Stats) -> CaseResult {
        run_case(case, st)
    }
}

pub fn property() -> Property {
    Property {
        id: "C06",
        subs: vec![sub::<TopDown>()],
        fuzz: vec![],
        assumptions: vec![
            "CNFs over <= 7 variables, <= 12 clauses",
            "the decision order is a permutation of 0..Cnf::num_vars() (largest label + 1), as every caller in the repository passes",
            "the semantic store is exercised over the 64-bit prime only (a 2^-64 hash collision is treated as impossible)",
        ],
        nt_floor_percent: 20,
    }
}
