//! C06 — top-down CNF compilation to decision-DNNF is exact.
use crate::bddi::perm_from_keys;
use crate::cnfgen::*;
use crate::engine::*;
use crate::tt::Tt;
use crate::walk::*;
use proptest::prelude::*;
use rsdd::builder::decision_nnf::{DecisionNNFBuilder, SemanticDecisionNNFBuilder, StandardDecisionNNFBuilder};
use rsdd::builder::TopDownBuilder;
use rsdd::constants::primes;
use rsdd::repr::{BddPtr, Cnf, DDNNFPtr, VarLabel, VarOrder};
use serde::{Deserialize, Serialize};

#[derive(Clone, Debug, Serialize, Deserialize)]
pub struct Case {
    pub cnf: CnfCase,
    pub order_keys: Vec<u16>,
    pub table_cap: Option<u16>,
    /// further CNFs compiled afterwards in the same two builders: clause subsets of the first one (bit i of a
    /// mask keeps clause i mod 16), padded with a tautology on the last variable so that the variable count stays
    #[serde(default)]
    pub more: Vec<u16>,
}

pub struct TopDown;

fn check_result<'a>(
    store: &str,
    r: BddPtr<'a>,
    expect: Tt,
    n: usize,
    cond: &dyn Fn(BddPtr<'a>, usize, bool) -> BddPtr<'a>,
    st: &mut Stats,
) -> CaseResult {
    ensure!(
        r.is_false() == expect.is_false(),
        format!("C06/false-constant-iff-unsat:{}", store),
        "CNF is {} but the compiler returned {} (is_false() = {})",
        if expect.is_false() { "unsatisfiable" } else { "satisfiable" },
        r.to_string_debug(),
        r.is_false()
    );
    let got = bdd_tt(r);
    ensure!(
        got == expect,
        format!("C06/wrong-function:{}", store),
        "models differ: CNF denotes {:?}, diagram denotes {:?} ({})",
        expect,
        got,
        r.to_string_debug()
    );
    match bdd_paths(r, 200_000) {
        Some(paths) => {
            for p in paths {
                let mut seen = [false; 16];
                for v in p.iter() {
                    ensure!(
                        !seen[*v],
                        format!("C06/variable-decided-twice:{}", store),
                        "path {:?} decides variable {} twice ({})",
                        p,
                        v,
                        r.to_string_debug()
                    );
                    seen[*v] = true;
                }
            }
        }
        None => st.bump("paths_capped"),
    }
    for v in 0..n {
        for b in [false, true] {
            let c = cond(r, v, b);
            let want = expect.cofactor(v, b);
            let got = bdd_tt(c);
            ensure!(
                got == want,
                format!("C06/condition:{}", store),
                "condition(result, x{} = {}) denotes {:?}, the restricted function is {:?}; result = {}",
                v,
                b,
                got,
                want,
                r.to_string_debug()
            );
            let cn = cond(r.neg(), v, b);
            let gotn = bdd_tt(cn);
            ensure!(
                gotn == want.not(),
                format!("C06/condition-of-negation:{}", store),
                "condition(NOT result, x{} = {}) denotes {:?}, the restricted negation is {:?}; result = {}",
                v,
                b,
                gotn,
                want.not(),
                r.to_string_debug()
            );
            st.add("conditionings", 2);
        }
    }
    Ok(())
}

pub fn run_case(case: &Case, st: &mut Stats) -> CaseResult {
    let cnf: Cnf = case.cnf.to_rsdd();
    let n = cnf.num_vars();
    // the compiler's input is the Cnf object: its clause list as read through clauses()
    let seen = CnfCase::read_back(&cnf);
    st.flag("cnf_object_differs_from_generating_list(C15's concern)", seen.tt() != case.cnf.tt() || n != case.cnf.num_vars());
    if n > crate::tt::NV || seen.num_vars() > n {
        return Ok(());
    }
    let perm = perm_from_keys(&case.order_keys, n);
    let order_lbls: Vec<VarLabel> = perm.iter().map(|v| VarLabel::new_usize(*v)).collect();
    let expect = seen.tt();

    rsdd::verif_hooks::set_unique_table_capacity(case.table_cap.map(|c| c as usize));
    let std_b = StandardDecisionNNFBuilder::new(VarOrder::new(&order_lbls));
    let sem_b = SemanticDecisionNNFBuilder::<{ primes::U64_LARGEST }>::new(VarOrder::new(&order_lbls));
    rsdd::verif_hooks::set_unique_table_capacity(None);

    let r1 = std_b.compile_cnf_topdown(&cnf);
    check_result(
        "standard",
        r1,
        expect,
        n,
        &|p, v, b| std_b.condition(p, VarLabel::new_usize(v), b),
        st,
    )?;
    let r2 = sem_b.compile_cnf_topdown(&cnf);
    check_result(
        "semantic",
        r2,
        expect,
        n,
        &|p, v, b| sem_b.condition(p, VarLabel::new_usize(v), b),
        st,
    )?;
    // conditioning twice in a row (the second call starts from a conditioned diagram)
    if n >= 2 {
        for (store, r) in [("standard", r1), ("semantic", r2)] {
            for v1 in 0..n.min(3) {
                let v2 = (v1 + 1 + (case.order_keys.first().copied().unwrap_or(0) as usize) % (n - 1)) % n;
                if v2 == v1 {
                    continue;
                }
                for (b1, b2) in [(false, true), (true, false), (true, true)] {
                    let c = if store == "standard" {
                        std_b.condition(std_b.condition(r, VarLabel::new_usize(v1), b1), VarLabel::new_usize(v2), b2)
                    } else {
                        sem_b.condition(sem_b.condition(r, VarLabel::new_usize(v1), b1), VarLabel::new_usize(v2), b2)
                    };
                    let want = expect.cofactor(v1, b1).cofactor(v2, b2);
                    ensure!(
                        bdd_tt(c) == want,
                        format!("C06/condition:{}", store),
                        "condition(condition(result, x{} = {}), x{} = {}) denotes {:?}, the restricted function is {:?}",
                        v1,
                        b1,
                        v2,
                        b2,
                        bdd_tt(c),
                        want
                    );
                    st.add("chained_conditionings", 1);
                }
            }
        }
    }
    // further compilations in the same builders (the stores, and the semantic store's hash table of nodes,
    // now hold nodes of the earlier results)
    if n >= 1 && !seen.clauses.is_empty() {
        for mask in case.more.iter().take(3) {
            let mut cl: Vec<Vec<Lit>> = seen.clauses.iter().enumerate().filter(|(i, _)| (mask >> (i % 16)) & 1 == 1).map(|(_, c)| c.clone()).collect();
            cl.push(vec![((n - 1) as u8, true), ((n - 1) as u8, false)]);
            let sub = CnfCase { clauses: cl };
            let sub_obj = sub.to_rsdd();
            let sub_seen = CnfCase::read_back(&sub_obj);
            if sub_obj.num_vars() != n {
                continue;
            }
            let e2 = sub_seen.tt();
            let a = std_b.compile_cnf_topdown(&sub_obj);
            check_result("standard", a, e2, n, &|p, v, b| std_b.condition(p, VarLabel::new_usize(v), b), st).map_err(|mut f| {
                f.detail = format!("{} [compiled after {:?} in the same builder: {:?}]", f.detail, seen.clauses, sub_seen.clauses);
                f
            })?;
            let c = sem_b.compile_cnf_topdown(&sub_obj);
            check_result("semantic", c, e2, n, &|p, v, b| sem_b.condition(p, VarLabel::new_usize(v), b), st).map_err(|mut f| {
                f.detail = format!("{} [compiled after {:?} in the same builder: {:?}]", f.detail, seen.clauses, sub_seen.clauses);
                f
            })?;
            // the earlier results still denote what they did
            ensure!(bdd_tt(r1) == expect && bdd_tt(r2) == expect, "C06/wrong-function:earlier-result-changed", "a later compilation changed an earlier result");
            st.bump("further_compilations_in_the_same_builder");
        }
    }
    // scratch left behind by conditioning is C10's concern: recorded only
    let dirty = bdd_nodes(r1).into_iter().chain(bdd_nodes(r2)).any(|nd| !BddPtr::Reg(nd).is_scratch_cleared());
    st.flag("scratch_left_behind(C10's concern)", dirty);
    st.flag("unsat", expect.is_false());
    st.flag("tautology", expect.is_true());
    st.flag("unsat_without_empty_clause", expect.is_false() && !case.cnf.has_empty_clause());
    st.flag("shared_node", bdd_shared_nodes(r1) > 0);
    st.flag("compl_edges", bdd_compl_edges(r1) > 0);
    st.flag("has_unit_clause", case.cnf.clauses.iter().any(|c| c.len() == 1));
    st.flag("has_empty_clause", case.cnf.has_empty_clause());
    st.flag("no_clauses", case.cnf.clauses.is_empty());
    st.flag("nonlinear_order", perm.iter().enumerate().any(|(i, v)| i != *v));
    if !expect.is_const() && expect.support_size() >= 3 {
        st.mark_nontrivial();
    }
    Ok(())
}

impl SubCheckT for TopDown {
    type Case = Case;
    const NAME: &'static str = "topdown";
    const RULE: &'static str = "random CNF (n<=7, incl. empty formula, empty/unit/duplicate/tautological clauses, repeated gadgets on disjoint blocks) x random permutation of its variables as decision order x {standard, semantic(64-bit)} node store: result is the false constant iff brute force finds no model; truth table (walked) = CNF's; no path repeats a variable; condition(r,v,b) and condition(not r,v,b) denote the cofactor / its negation for every v,b, chained conditionings the double cofactor; up to 2 further CNFs (clause subsets) are compiled in the same builders and held to the same checks. Non-trivial: satisfiable, non-tautological, support >= 3";
    fn cases(tier: Tier) -> u32 {
        tier.pick(12_000, 200_000)
    }
    fn strategy(_tier: Tier) -> BoxedStrategy<Case> {
        (
            cnf_strategy(),
            crate::bddi::order_keys_strategy(),
            prop_oneof![1 => Just(None), 6 => (1u16..=64).prop_map(Some)],
            proptest::collection::vec(any::<u16>(), 0..=2),
        )
            .prop_map(|(cnf, order_keys, table_cap, more)| Case {
                cnf,
                order_keys,
                table_cap,
                more,
            })
            .boxed()
    }
    fn run(case: &Case, st: &mut Stats) -> CaseResult {
        run_case(case, st)
    }
}

// ---------------------------------------------------------------------------
// CNFs over 8..34 variables: thousands of component-cache entries per compilation
// ---------------------------------------------------------------------------

#[derive(Clone, Debug, Serialize, Deserialize)]
pub struct BigTopDownCase {
    pub nv: u8,
    pub clauses: Vec<Vec<(u8, bool)>>,
    pub seed: u64,
}

pub struct TopDownLarge;

pub fn run_large(case: &BigTopDownCase, st: &mut Stats) -> CaseResult {
    use crate::big::*;
    use rsdd::builder::bdd::RobddBuilder;
    use rsdd::builder::cache::AllIteTable;
    use rsdd::builder::BottomUpBuilder;
    let nv = case.nv as usize;
    let mut clauses: Vec<Clause> = case.clauses.iter().map(|c| c.iter().map(|(v, p)| ((*v as usize) % nv, *p)).collect()).collect();
    // make sure the variable count is nv (a tautology on the last variable changes nothing else)
    clauses.push(vec![(nv - 1, true), (nv - 1, false)]);
    let lits: Vec<Vec<rsdd::repr::Literal>> = clauses.iter().map(|c| c.iter().map(|(v, p)| rsdd::repr::Literal::new(VarLabel::new_usize(*v), *p)).collect()).collect();
    let cnf = Cnf::new(&lits);
    let n = cnf.num_vars();
    if n != nv {
        return Ok(());
    }
    let order = if case.seed & 3 == 0 { (0..n).collect::<Vec<_>>() } else { permutation(case.seed, n) };
    let labels: Vec<VarLabel> = order.iter().map(|v| VarLabel::new_usize(*v)).collect();
    let std_b = StandardDecisionNNFBuilder::new(VarOrder::new(&labels));
    let sem_b = SemanticDecisionNNFBuilder::<{ primes::U64_LARGEST }>::new(VarOrder::new(&labels));
    // reference: the bottom-up compilation of the same CNF under the same order (another compiler altogether)
    let ref_b = RobddBuilder::<AllIteTable<BddPtr>>::new(VarOrder::new(&labels));
    let reference = ref_b.compile_cnf(&cnf);
    let ref_measure = bdd_measure(reference);
    let mut probes: Vec<Vec<bool>> = (0..32).map(|k| assignment(case.seed, k, n)).collect();
    for (ci, c) in clauses.iter().enumerate().take(64) {
        probes.push(falsifying(case.seed, ci as u64, n, c));
    }
    for (store, r) in [("standard", std_b.compile_cnf_topdown(&cnf)), ("semantic", sem_b.compile_cnf_topdown(&cnf))] {
        ensure!(
            r.is_false() == (ref_measure == 0.0),
            format!("C06/false-constant-iff-unsat:{}", store),
            "{}-variable CNF: the compiler returned {} but the CNF has {} (bottom-up reference measure {})",
            n,
            if r.is_false() { "the false constant" } else { "a non-false diagram" },
            if ref_measure == 0.0 { "no model" } else { "models" },
            ref_measure
        );
        let m = bdd_measure(r);
        ensure!(
            m == ref_measure,
            format!("C06/wrong-function:{}", store),
            "{}-variable CNF {:?} (order seed {}): the top-down diagram is satisfied by a fraction {} of all assignments, the bottom-up compilation of the same CNF by {}",
            n,
            case.clauses,
            case.seed,
            m,
            ref_measure
        );
        for a in probes.iter() {
            let want = cnf_eval(&clauses, a);
            ensure!(
                bdd_eval(r, a) == want,
                format!("C06/wrong-function:{}", store),
                "{}-variable CNF {:?}: the top-down diagram is {} on an assignment where the CNF is {}",
                n,
                case.clauses,
                !want,
                want
            );
            // no path decides a variable twice: the path this assignment takes
            let mut seen = vec![false; n];
            let mut cur = r;
            loop {
                let node = match cur {
                    BddPtr::Reg(x) | BddPtr::Compl(x) => x,
                    _ => break,
                };
                let v = node.var.value_usize();
                ensure!(!seen[v], format!("C06/variable-decided-twice:{}", store), "a path of the {}-variable diagram decides variable {} twice", n, v);
                seen[v] = true;
                cur = if a[v] { node.high } else { node.low };
            }
        }
    }
    // conditioning at sizes the truth-table part does not reach (the library's conditioning walks every path, so this
    // stays at <= 14 variables): the result and its negation conditioned on a few literals, against the clauses on the
    // probes and against the measure of the conditioned bottom-up reference
    if n <= 14 {
        let r = std_b.compile_cnf_topdown(&cnf);
        let r2 = sem_b.compile_cnf_topdown(&cnf);
        for k in 0..6u64 {
            let x = crate::engine::splitmix(case.seed ^ 0xC0D ^ k);
            let (v, val) = ((x as usize >> 8) % n, x & 1 == 1);
            let want_m = bdd_measure(ref_b.condition(reference, VarLabel::new_usize(v), val));
            for (store, c, neg) in [
                ("standard", std_b.condition(r, VarLabel::new_usize(v), val), false),
                ("standard", std_b.condition(r.neg(), VarLabel::new_usize(v), val), true),
                ("semantic", rsdd::builder::TopDownBuilder::condition(&sem_b, r2, VarLabel::new_usize(v), val), false),
                ("semantic", rsdd::builder::TopDownBuilder::condition(&sem_b, r2.neg(), VarLabel::new_usize(v), val), true),
            ] {
                let m = bdd_measure(c);
                ensure!(
                    m == if neg { 1.0 - want_m } else { want_m },
                    format!("C06/condition{}:{}", if neg { "-of-negation" } else { "" }, store),
                    "{}-variable CNF: the {}diagram conditioned on x{} = {} is satisfied by a fraction {} of all assignments, the conditioned bottom-up reference by {}",
                    n,
                    if neg { "negated " } else { "" },
                    v,
                    val,
                    m,
                    want_m
                );
                for a in probes.iter().take(24) {
                    let mut a2 = a.clone();
                    a2[v] = val;
                    ensure!(
                        bdd_eval(c, a) == (cnf_eval(&clauses, &a2) ^ neg),
                        format!("C06/condition{}:{}", if neg { "-of-negation" } else { "" }, store),
                        "{}-variable CNF: the {}diagram conditioned on x{} = {} disagrees with the clauses on an assignment",
                        n,
                        if neg { "negated " } else { "" },
                        v,
                        val
                    );
                }
            }
        }
        st.bump("large.conditionings_checked");
    }
    st.bump(match n {
        0..=14 => "large.vars.8_14",
        15..=19 => "large.vars.15_19",
        20..=25 => "large.vars.20_25",
        _ => "large.vars.26_34",
    });
    st.flag("large.unsat", ref_measure == 0.0);
    st.add("large.reference_nodes", bdd_nodes(reference).len() as u64);
    if ref_measure > 0.0 && ref_measure < 1.0 {
        st.mark_nontrivial();
    }
    Ok(())
}

impl SubCheckT for TopDownLarge {
    type Case = BigTopDownCase;
    const NAME: &'static str = "topdown_many_variables";
    const RULE: &'static str = "random CNFs over 8..34 variables (mostly 26..34; up to 14 variables the result and its negation are also conditioned on six literals and held to the clauses and to the conditioned reference) with 1.08..2.0 (mostly below 1.35) clauses per variable (3 literals, some 2), linear or pseudo-random decision order, both node stores: thousands of residual components per compilation share the component cache, whose key is only a hash. The result must be the false constant iff the bottom-up BDD of the same CNF (same order) is, must be satisfied by exactly the same fraction of assignments (uniform measure computed by the harness on both diagrams, exact in f64), must agree with direct evaluation of the clauses on 32 pseudo-random and up to 64 clause-falsifying assignments, and the paths those assignments take must not repeat a variable. Non-trivial: satisfiable and not a tautology";
    fn cases(tier: Tier) -> u32 {
        tier.pick(480, 14_000)
    }
    fn strategy(_tier: Tier) -> BoxedStrategy<BigTopDownCase> {
        (prop_oneof![1 => 8u8..=19, 1 => 20u8..=25, 4 => 26u8..=34], prop_oneof![4 => 108u32..=135, 1 => 136u32..=200])
            .prop_flat_map(|(nv, ratio)| {
                let m = (nv as u32 * ratio / 100) as usize;
                (
                    Just(nv),
                    proptest::collection::vec(
                        prop_oneof![5 => proptest::collection::vec((any::<u8>(), any::<bool>()), 3), 1 => proptest::collection::vec((any::<u8>(), any::<bool>()), 2)],
                        m..=m + 4,
                    ),
                    any::<u64>(),
                )
            })
            .prop_map(|(nv, clauses, seed)| BigTopDownCase { nv, clauses, seed })
            .boxed()
    }
    fn run(case: &BigTopDownCase, st: &mut Stats) -> CaseResult {
        run_large(case, st)
    }
}

pub fn property() -> Property {
    Property {
        id: "C06",
        subs: vec![sub::<TopDown>(), sub::<TopDownLarge>()],
        fuzz: vec![],
        assumptions: vec![
            "truth-table oracle: CNFs over <= 7 variables; sub-check topdown_many_variables: 20..34 variables, held to the bottom-up compilation of the same CNF (measure) and to direct evaluation on sampled assignments",
            "the decision order is a permutation of 0..Cnf::num_vars() (largest label + 1), as every caller in the repository passes",
            "the semantic store is exercised over the 64-bit prime only (a 2^-64 hash collision is treated as impossible)",
        ],
        nt_floor_percent: 20,
    }
}
