//! C06 — top-down CNF compilation to decision-DNNF is exact.
use crate::bddi::perm_from_keys;
use crate::cnfgen::*;
use crate::engine::*;
use crate::tt::Tt;
use crate::walk::*;
use proptest::prelude::*;
use rsdd::builder::decision_nnf::{DecisionNNFBuilder, SemanticDecisionNNFBuilder, StandardDecisionNNFBuilder};
use rsdd::builder::TopDownBuilder;
use rsdd::constants::primes;
use rsdd::repr::{BddPtr, Cnf, DDNNFPtr, VarLabel, VarOrder};
use serde::{Deserialize, Serialize};

#[derive(Clone, Debug, Serialize, Deserialize)]
pub struct Case {
    pub cnf: CnfCase,
    pub order_keys: Vec<u16>,
    pub table_cap: Option<u16>,
}

pub struct TopDown;

fn check_result<'a>(
    store: &str,
    r: BddPtr<'a>,
    expect: Tt,
    n: usize,
    cond: &dyn Fn(BddPtr<'a>, usize, bool) -> BddPtr<'a>,
    st: &mut Stats,
) -> CaseResult {
    ensure!(
        r.is_false() == expect.is_false(),
        format!("C06/false-constant-iff-unsat:{}", store),
        "CNF is {} but the compiler returned {} (is_false() = {})",
        if expect.is_false() { "unsatisfiable" } else { "satisfiable" },
        r.to_string_debug(),
        r.is_false()
    );
    let got = bdd_tt(r);
    ensure!(
        got == expect,
        format!("C06/wrong-function:{}", store),
        "models differ: CNF denotes {:?}, diagram denotes {:?} ({})",
        expect,
        got,
        r.to_string_debug()
    );
    match bdd_paths(r, 200_000) {
        Some(paths) => {
            for p in paths {
                let mut seen = [false; 16];
                for v in p.iter() {
                    ensure!(
                        !seen[*v],
                        format!("C06/variable-decided-twice:{}", store),
                        "path {:?} decides variable {} twice ({})",
                        p,
                        v,
                        r.to_string_debug()
                    );
                    seen[*v] = true;
                }
            }
        }
        None => st.bump("paths_capped"),
    }
    for v in 0..n {
        for b in [false, true] {
            let c = cond(r, v, b);
            let want = expect.cofactor(v, b);
            let got = bdd_tt(c);
            ensure!(
                got == want,
                format!("C06/condition:{}", store),
                "condition(result, x{} = {}) denotes {:?}, the restricted function is {:?}; result = {}",
                v,
                b,
                got,
                want,
                r.to_string_debug()
            );
            let cn = cond(r.neg(), v, b);
            let gotn = bdd_tt(cn);
            ensure!(
                gotn == want.not(),
                format!("C06/condition-of-negation:{}", store),
                "condition(NOT result, x{} = {}) denotes {:?}, the restricted negation is {:?}; result = {}",
                v,
                b,
                gotn,
                want.not(),
                r.to_string_debug()
            );
            st.add("conditionings", 2);
        }
    }
    Ok(())
}

pub fn run_case(case: &Case, st: &mut Stats) -> CaseResult {
    let cnf: Cnf = case.cnf.to_rsdd();
    let n = cnf.num_vars();
    ensure!(n == case.cnf.num_vars(), "C06/harness-numvars", "Cnf::num_vars {} vs {}", n, case.cnf.num_vars());
    let perm = perm_from_keys(&case.order_keys, n);
    let order_lbls: Vec<VarLabel> = perm.iter().map(|v| VarLabel::new_usize(*v)).collect();
    let expect = case.cnf.tt();

    rsdd::verif_hooks::set_unique_table_capacity(case.table_cap.map(|c| c as usize));
    let std_b = StandardDecisionNNFBuilder::new(VarOrder::new(&order_lbls));
    let sem_b = SemanticDecisionNNFBuilder::<{ primes::U64_LARGEST }>::new(VarOrder::new(&order_lbls));
    rsdd::verif_hooks::set_unique_table_capacity(None);

    let r1 = std_b.compile_cnf_topdown(&cnf);
    check_result(
        "standard",
        r1,
        expect,
        n,
        &|p, v, b| std_b.condition(p, VarLabel::new_usize(v), b),
        st,
    )?;
    let r2 = sem_b.compile_cnf_topdown(&cnf);
    check_result(
        "semantic",
        r2,
        expect,
        n,
        &|p, v, b| sem_b.condition(p, VarLabel::new_usize(v), b),
        st,
    )?;
    // scratch must be clean afterwards (conditioning uses it)
    for nd in bdd_nodes(r1).into_iter().chain(bdd_nodes(r2)) {
        ensure!(
            BddPtr::Reg(nd).is_scratch_cleared(),
            "C06/scratch-left-behind",
            "a node of the result still has scratch data after conditioning"
        );
    }
    st.flag("unsat", expect.is_false());
    st.flag("tautology", expect.is_true());
    st.flag("unsat_without_empty_clause", expect.is_false() && !case.cnf.has_empty_clause());
    st.flag("shared_node", bdd_shared_nodes(r1) > 0);
    st.flag("compl_edges", bdd_compl_edges(r1) > 0);
    st.flag("has_unit_clause", case.cnf.clauses.iter().any(|c| c.len() == 1));
    st.flag("has_empty_clause", case.cnf.has_empty_clause());
    st.flag("no_clauses", case.cnf.clauses.is_empty());
    st.flag("nonlinear_order", perm.iter().enumerate().any(|(i, v)| i != *v));
    if !expect.is_const() && expect.support_size() >= 3 {
        st.mark_nontrivial();
    }
    Ok(())
}

impl SubCheckT for TopDown {
    type Case = Case;
    const NAME: &'static str = "topdown";
    const RULE: &'static str = "random CNF (n<=7, incl. empty formula, empty/unit/duplicate/tautological clauses, repeated gadgets on disjoint blocks) x random permutation of its variables as decision order x {standard, semantic(64-bit)} node store: result is the false constant iff brute force finds no model; truth table (walked) = CNF's; no path repeats a variable; condition(r,v,b) and condition(not r,v,b) denote the cofactor / its negation for every v,b. Non-trivial: satisfiable, non-tautological, support >= 3";
    fn cases(tier: Tier) -> u32 {
        tier.pick(12_000, 200_000)
    }
    fn strategy(_tier: Tier) -> BoxedStrategy<Case> {
        (
            cnf_strategy(),
            crate::bddi::order_keys_strategy(),
            prop_oneof![1 => Just(None), 6 => (1u16..=64).prop_map(Some)],
        )
            .prop_map(|(cnf, order_keys, table_cap)| Case {
                cnf,
                order_keys,
                table_cap,
            })
            .boxed()
    }
    fn run(case: &Case, st: &mut Stats) -> CaseResult {
        run_case(case, st)
    }
}

pub fn property() -> Property {
    Property {
        id: "C06",
        subs: vec![sub::<TopDown>()],
        fuzz: vec![],
        assumptions: vec![
            "CNFs over <= 7 variables, <= 12 clauses",
            "the decision order is a permutation of 0..Cnf::num_vars() (largest label + 1), as every caller in the repository passes",
            "the semantic store is exercised over the 64-bit prime only (a 2^-64 hash collision is treated as impossible)",
        ],
        nt_floor_percent: 20,
    }
}
