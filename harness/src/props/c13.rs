//! C13 — every shipped weight type obeys the semiring (and declared ring/lattice) laws.
use crate::engine::*;
use crate::oracle::{addmod, mulmod, submod};
use proptest::prelude::*;
use rsdd::constants::primes;
use rsdd::util::semirings::{
    BBSemiring, BooleanSemiring, Complex, ExpectedUtility, FiniteField, JoinSemilattice, MeetSemilattice, Polynomial,
    RationalSemiring, RealSemiring, Semiring, MAX_COEFFS,
};
use serde::{Deserialize, Serialize};
use serde_json::json;
use std::fmt::Debug;

pub const PRIME_LIST: [u128; 13] = [
    2,
    3,
    5,
    7,
    11,
    13,
    primes::U32_TINY,
    primes::U32_SMALL,
    primes::U64_LARGEST,
    primes::U128_LARGE_1,
    primes::U128_LARGE_2,
    primes::U128_LARGE_3,
    primes::U128_LARGE_4,
];

macro_rules! with_prime {
    ($idx:expr, $f:ident ( $($arg:expr),* )) => {
        match $idx {
            0 => $f::<2>($($arg),*),
            1 => $f::<3>($($arg),*),
            2 => $f::<5>($($arg),*),
            3 => $f::<7>($($arg),*),
            4 => $f::<11>($($arg),*),
            5 => $f::<13>($($arg),*),
            6 => $f::<{ primes::U32_TINY }>($($arg),*),
            7 => $f::<{ primes::U32_SMALL }>($($arg),*),
            8 => $f::<{ primes::U64_LARGEST }>($($arg),*),
            9 => $f::<{ primes::U128_LARGE_1 }>($($arg),*),
            10 => $f::<{ primes::U128_LARGE_2 }>($($arg),*),
            11 => $f::<{ primes::U128_LARGE_3 }>($($arg),*),
            _ => $f::<{ primes::U128_LARGE_4 }>($($arg),*),
        }
    };
}

/// generic law checker. `eq` is the type's notion of equality on exactly representable values.
pub fn semiring_laws<T: Semiring + Debug>(
    name: &str,
    a: T,
    b: T,
    c: T,
    eq: &dyn Fn(&T, &T) -> bool,
    commutative_mul: bool,
) -> CaseResult {
    macro_rules! law {
        ($l:expr, $r:expr, $what:expr) => {{
            let l = $l;
            let r = $r;
            if !eq(&l, &r) {
                return fail(
                    &format!("C13/{}:{}", name, $what),
                    format!("{} fails for a = {:?}, b = {:?}, c = {:?}: {:?} vs {:?}", $what, a, b, c, l, r),
                );
            }
        }};
    }
    law!((a + b) + c, a + (b + c), "add-associative");
    law!(a + b, b + a, "add-commutative");
    law!(a + T::zero(), a, "add-identity");
    law!(T::zero() + a, a, "add-identity");
    law!((a * b) * c, a * (b * c), "mul-associative");
    if commutative_mul {
        law!(a * b, b * a, "mul-commutative");
    }
    law!(a * T::one(), a, "mul-identity");
    law!(T::one() * a, a, "mul-identity");
    law!(a * T::zero(), T::zero(), "zero-annihilates");
    law!(T::zero() * a, T::zero(), "zero-annihilates");
    law!(a * (b + c), (a * b) + (a * c), "left-distributive");
    law!((a + b) * c, (a * c) + (b * c), "right-distributive");
    Ok(())
}

// ---------------------------------------------------------------------------
// finite fields
// ---------------------------------------------------------------------------

#[derive(Clone, Debug, Serialize, Deserialize)]
pub struct Res {
    pub sel: u8,
    pub hi: u64,
    pub lo: u64,
}

impl Res {
    pub fn raw(v: u64) -> Res {
        Res { sel: 255, hi: 0, lo: v }
    }
    pub fn value(&self, p: u128) -> u128 {
        let raw = ((self.hi as u128) << 64) | self.lo as u128;
        let bit = |k: u64| 1u128 << (k % 128);
        match self.sel % 16 {
            0 => 0,
            1 => 1 % p,
            2 => 2 % p,
            3 => p - 1,
            4 => (p - 2) % p,
            5 => p / 2,
            6 => (p / 2 + 1) % p,
            7 => (p / 2).saturating_sub(1),
            // structured operands: single bits, sparse words, long runs of zeros / ones
            8 => bit(self.lo) % p,
            9 => (bit(self.lo) | bit(self.hi)) % p,
            10 => (bit(self.lo) | bit(self.hi) | 1) % p,
            11 => (bit(self.lo).wrapping_sub(1)) % p,
            12 => ((raw % p) >> (self.hi % 96)) << (self.hi % 96),
            _ => raw % p,
        }
    }
    /// unreduced value for FiniteField::new (may exceed P)
    pub fn unreduced(&self) -> u128 {
        match self.sel % 6 {
            0 => u128::MAX,
            1 => u128::MAX - 1,
            _ => ((self.hi as u128) << 64) | self.lo as u128,
        }
    }
}

#[derive(Clone, Debug, Serialize, Deserialize)]
pub struct FfCase {
    pub prime_idx: u8,
    pub a: Res,
    pub b: Res,
    pub c: Res,
}

fn ff_check<const P: u128>(case: &FfCase, st: &mut Stats) -> CaseResult {
    let (x, y, z) = (case.a.value(P), case.b.value(P), case.c.value(P));
    let a = FiniteField::<P>::new(x);
    let b = FiniteField::<P>::new(y);
    let c = FiniteField::<P>::new(z);
    let name = format!("finite-field({})", P);
    ensure!(
        a.value() == x && b.value() == y && c.value() == z,
        format!("C13/{}:new", name),
        "FiniteField::new does not keep a reduced residue: {} {} {}",
        a.value(),
        b.value(),
        c.value()
    );
    // construction reduces modulo P
    let big = case.a.unreduced();
    ensure!(
        FiniteField::<P>::new(big).value() == big % P,
        format!("C13/{}:new-reduces", name),
        "FiniteField::new({}) = {} but {} mod P = {}",
        big,
        FiniteField::<P>::new(big).value(),
        big,
        big % P
    );
    // results equal integer arithmetic modulo P
    ensure!(
        (a + b).value() == addmod(x, y, P),
        format!("C13/{}:add-reference", name),
        "{} + {} = {} but integer arithmetic mod {} gives {}",
        x,
        y,
        (a + b).value(),
        P,
        addmod(x, y, P)
    );
    ensure!(
        (a * b).value() == mulmod(x, y, P),
        format!("C13/{}:mul-reference", name),
        "{} * {} = {} but integer arithmetic mod {} gives {}",
        x,
        y,
        (a * b).value(),
        P,
        mulmod(x, y, P)
    );
    ensure!(
        (a - b).value() == submod(x, y, P),
        format!("C13/{}:sub-reference", name),
        "{} - {} = {} but integer arithmetic mod {} gives {}",
        x,
        y,
        (a - b).value(),
        P,
        submod(x, y, P)
    );
    ensure!(
        ((a + b) - b) == a,
        format!("C13/{}:sub-inverts-add", name),
        "({} + {}) - {} = {:?}, expected {}",
        x,
        y,
        y,
        (a + b) - b,
        x
    );
    ensure!((a - a) == FiniteField::<P>::zero(), format!("C13/{}:a-minus-a", name), "{} - {} = {:?}", x, x, a - a);
    semiring_laws(&name, a, b, c, &|l, r| l == r, true)?;
    // classification
    let prod_bits = 256 - (x.leading_zeros() + y.leading_zeros());
    st.flag("ff.product_needs_more_than_64_bits", x.checked_mul(y).map(|v| v > u64::MAX as u128).unwrap_or(true));
    st.flag("ff.product_needs_more_than_128_bits", x.checked_mul(y).is_none());
    let _ = prod_bits;
    let nt = x != y && y != z && x != z && [x, y, z].iter().all(|v| *v > 1);
    if nt {
        st.mark_nontrivial();
    }
    Ok(())
}

pub fn run_ff(case: &FfCase, st: &mut Stats) -> CaseResult {
    let idx = (case.prime_idx as usize) % PRIME_LIST.len();
    st.bump(&format!("ff.prime.{}", PRIME_LIST[idx]));
    with_prime!(idx, ff_check(case, st))
}

pub struct FfRandom;

fn res_strategy() -> impl Strategy<Value = Res> {
    (any::<u8>(), any::<u64>(), any::<u64>()).prop_map(|(sel, hi, lo)| Res { sel, hi, lo })
}

impl SubCheckT for FfRandom {
    type Case = FfCase;
    const NAME: &'static str = "finite_field_primes";
    const RULE: &'static str = "for each of the 7 exported primes (and the small ones): triples of residues drawn from {0,1,2,P-1,P-2,P/2,P/2+-1}, structured values (single bits 2^k, sparse words 2^j+2^k(+1), 2^k-1, values with their low bits cleared) and uniformly random 128-bit values, all reduced mod P; add/mul/sub compared with the harness's overflow-free modular arithmetic, all semiring laws, (a+b)-b = a, a-a = 0, new(v) = v mod P for v up to u128::MAX. Non-trivial: pairwise distinct residues > 1";
    fn cases(tier: Tier) -> u32 {
        tier.pick(200_000, 2_000_000)
    }
    fn strategy(_tier: Tier) -> BoxedStrategy<FfCase> {
        (6u8..13, res_strategy(), res_strategy(), res_strategy())
            .prop_map(|(prime_idx, a, b, c)| FfCase { prime_idx, a, b, c })
            .boxed()
    }
    fn run(case: &FfCase, st: &mut Stats) -> CaseResult {
        run_ff(case, st)
    }
}

/// exhaustive over the small carriers: GF(2..13) all triples, all 12^3 boundary triples of every exported prime
pub struct FfExhaustive;

fn ff_exhaustive_worker(a: &WorkerArgs) -> WorkerReport {
    let mut col = Collector::new();
    col.report.exhaustive = true;
    if a.widx != 0 {
        // a finite enumeration: done once, by worker 0
        return col.finish();
    }
    let run_one = |case: FfCase, col: &mut Collector| -> bool {
        let mut st = Stats::default();
        let cj = serde_json::to_value(&case).unwrap();
        match run_guarded::<FfExhaustive>(&case, &mut st) {
            Ok(()) => {
                col.record(&cj, &st);
                true
            }
            Err(f) => {
                col.report.evaluations += 1;
                col.report.failure = Some(FailureReport {
                    signature: f.signature,
                    detail: f.detail,
                    case: cj,
                });
                false
            }
        }
    };
    for (idx, p) in PRIME_LIST.iter().enumerate().take(6) {
        let p = *p as u64;
        for x in 0..p {
            for y in 0..p {
                for z in 0..p {
                    let case = FfCase {
                        prime_idx: idx as u8,
                        a: Res::raw(x),
                        b: Res::raw(y),
                        c: Res::raw(z),
                    };
                    if !run_one(case, &mut col) {
                        return col.finish();
                    }
                }
            }
        }
    }
    for idx in 6..PRIME_LIST.len() {
        for sa in 0..8u8 {
            for sb in 0..8u8 {
                for sc in 0..8u8 {
                    let case = FfCase {
                        prime_idx: idx as u8,
                        a: Res { sel: sa, hi: 0, lo: 0 },
                        b: Res { sel: sb, hi: 0, lo: 0 },
                        c: Res { sel: sc, hi: 0, lo: 0 },
                    };
                    if !run_one(case, &mut col) {
                        return col.finish();
                    }
                }
            }
        }
    }
    col.finish()
}

impl SubCheckT for FfExhaustive {
    type Case = FfCase;
    const NAME: &'static str = "finite_field_exhaustive";
    const RULE: &'static str = "complete enumeration: all triples of GF(2), GF(3), GF(5), GF(7), GF(11), GF(13) and all 8^3 triples of boundary residues {0,1,2,P-1,P-2,P/2,P/2+1,P/2-1} for each of the 7 exported primes; same laws and reference arithmetic. Non-trivial: pairwise distinct residues > 1";
    fn cases(_tier: Tier) -> u32 {
        0
    }
    fn strategy(_tier: Tier) -> BoxedStrategy<FfCase> {
        Just(FfCase {
            prime_idx: 0,
            a: Res::raw(0),
            b: Res::raw(0),
            c: Res::raw(0),
        })
        .boxed()
    }
    fn run(case: &FfCase, st: &mut Stats) -> CaseResult {
        run_ff(case, st)
    }
}

// ---------------------------------------------------------------------------
// real, complex, Boolean, expected utility, rational
// ---------------------------------------------------------------------------

/// an exactly representable number: integer in [-64, 64] or dyadic k/8
#[derive(Clone, Debug, Serialize, Deserialize)]
pub struct Num {
    pub k: i16,
    pub dyadic: bool,
}

impl Num {
    pub fn f(&self) -> f64 {
        if self.dyadic {
            self.k as f64 / 8.0
        } else {
            self.k as f64
        }
    }
}

fn num_strategy() -> impl Strategy<Value = Num> {
    (prop_oneof![3 => -8i16..=8, 2 => -64i16..=64], any::<bool>()).prop_map(|(k, dyadic)| Num { k, dyadic })
}

#[derive(Clone, Debug, Serialize, Deserialize)]
pub struct NumCase {
    /// six numbers: (a.0,a.1,b.0,b.1,c.0,c.1) — second components used by pair types
    pub v: Vec<Num>,
    pub bools: (bool, bool, bool),
    pub nats: (u8, u8, u8),
}

pub struct Numeric;

fn nat(n: u8) -> RationalSemiring {
    let mut r = RationalSemiring::zero();
    for _ in 0..n {
        r = r + RationalSemiring::one();
    }
    r
}

fn lattice_laws<T: JoinSemilattice + MeetSemilattice + BBSemiring + rsdd::util::semirings::BBRing + PartialEq + Debug + Copy>(
    name: &str,
    a: T,
    b: T,
    c: T,
) -> CaseResult {
    macro_rules! law {
        ($l:expr, $r:expr, $what:expr) => {{
            let l = $l;
            let r = $r;
            if l != r {
                return fail(
                    &format!("C13/{}:{}", name, $what),
                    format!("{} fails for a = {:?}, b = {:?}, c = {:?}: {:?} vs {:?}", $what, a, b, c, l, r),
                );
            }
        }};
    }
    law!(a.join(&a), a, "join-idempotent");
    law!(a.meet(&a), a, "meet-idempotent");
    law!(a.join(&b), b.join(&a), "join-commutative");
    law!(a.meet(&b), b.meet(&a), "meet-commutative");
    law!(a.join(&b).join(&c), a.join(&b.join(&c)), "join-associative");
    law!(a.meet(&b).meet(&c), a.meet(&b.meet(&c)), "meet-associative");
    for (x, y) in [(a, b), (b, c), (a, c), (b, a), (c, b), (c, a)] {
        if x <= y {
            law!(x.join(&y), y, "join-returns-larger");
            law!(BBSemiring::choose(&x, &y), y, "choose-returns-larger");
            law!(BBSemiring::choose(&y, &x), y, "choose-returns-larger");
            law!(rsdd::util::semirings::BBRing::choose(&x, &y), y, "ring-choose-returns-larger");
            law!(rsdd::util::semirings::BBRing::choose(&y, &x), y, "ring-choose-returns-larger");
            law!(x.meet(&y), x, "meet-returns-smaller");
        }
    }
    Ok(())
}

pub fn run_numeric(case: &NumCase, st: &mut Stats) -> CaseResult {
    let f: Vec<f64> = (0..6).map(|i| case.v.get(i).map(|n| n.f()).unwrap_or(0.0)).collect();
    // real
    let (a, b, c) = (RealSemiring(f[0]), RealSemiring(f[2]), RealSemiring(f[4]));
    semiring_laws("real", a, b, c, &|l, r| l == r, true)?;
    ensure!(((a + b) - b) == a, "C13/real:sub-inverts-add", "({:?} + {:?}) - {:?} = {:?}", a, b, b, (a + b) - b);
    ensure!((a - a) == RealSemiring::zero(), "C13/real:a-minus-a", "{:?} - {:?} = {:?}", a, a, a - a);
    lattice_laws("real", a, b, c)?;
    // complex
    let (ca, cb, cc) = (
        Complex { re: f[0], im: f[1] },
        Complex { re: f[2], im: f[3] },
        Complex { re: f[4], im: f[5] },
    );
    semiring_laws("complex", ca, cb, cc, &|l, r| l == r, true)?;
    ensure!(((ca + cb) - cb) == ca, "C13/complex:sub-inverts-add", "({:?} + {:?}) - {:?} = {:?}", ca, cb, cb, (ca + cb) - cb);
    // expected utility
    let (ea, eb, ec) = (
        ExpectedUtility(f[0], f[1]),
        ExpectedUtility(f[2], f[3]),
        ExpectedUtility(f[4], f[5]),
    );
    semiring_laws("expected-utility", ea, eb, ec, &|l, r| l == r, true)?;
    ensure!(((ea + eb) - eb) == ea, "C13/expected-utility:sub-inverts-add", "({:?} + {:?}) - {:?} = {:?}", ea, eb, eb, (ea + eb) - eb);
    ensure!((ea - ea) == ExpectedUtility::zero(), "C13/expected-utility:a-minus-a", "{:?} - itself = {:?}", ea, ea - ea);
    lattice_laws("expected-utility", ea, eb, ec)?;
    // the order and the selections are also exercised where the gaps are tiny or the magnitudes extreme: the same
    // triples scaled by 2^-60 and 2^40 (exact), and values one or a few units in the last place apart
    // (0.75 + k * 2^-53, exact); comparisons and selections involve no rounding, so == stays the right test
    for (tag, g) in [
        ("scaled by 2^-60", (|x: f64| x * (0.5f64).powi(60)) as fn(f64) -> f64),
        ("scaled by 2^40", |x: f64| x * (2.0f64).powi(40)),
        ("a few ulps apart", |x: f64| 0.75 + x * (0.5f64).powi(53) * if x.fract() == 0.0 { 1.0 } else { 8.0 }),
    ] {
        let h: Vec<f64> = f.iter().map(|x| g(*x)).collect();
        if tag.starts_with("scaled") {
            // power-of-two scaling keeps every sum and product of the laws exact, so the arithmetic laws are held
            // to == at these magnitudes too (operands as small as 2^-63, products down to 2^-180)
            let tagged = |mut e: Failure| {
                e.detail = format!("{} [{}]", e.detail, tag);
                e
            };
            let (ra, rb, rc) = (RealSemiring(h[0]), RealSemiring(h[2]), RealSemiring(h[4]));
            semiring_laws("real", ra, rb, rc, &|l, r| l == r, true).map_err(tagged)?;
            ensure!(((ra + rb) - rb) == ra, "C13/real:sub-inverts-add", "({:?} + {:?}) - {:?} = {:?} [{}]", ra, rb, rb, (ra + rb) - rb, tag);
            let (xa, xb, xc) = (Complex { re: h[0], im: h[1] }, Complex { re: h[2], im: h[3] }, Complex { re: h[4], im: h[5] });
            semiring_laws("complex", xa, xb, xc, &|l, r| l == r, true).map_err(tagged)?;
            ensure!(((xa + xb) - xb) == xa, "C13/complex:sub-inverts-add", "({:?} + {:?}) - {:?} = {:?} [{}]", xa, xb, xb, (xa + xb) - xb, tag);
            ensure!((xa + Complex::zero()) == xa && (xa * Complex::one()) == xa, "C13/complex:identities", "{:?} + 0 or * 1 changed the value [{}]", xa, tag);
            let (ya, yb, yc) = (ExpectedUtility(h[0], h[1]), ExpectedUtility(h[2], h[3]), ExpectedUtility(h[4], h[5]));
            semiring_laws("expected-utility", ya, yb, yc, &|l, r| l == r, true).map_err(tagged)?;
            ensure!(((ya + yb) - yb) == ya, "C13/expected-utility:sub-inverts-add", "({:?} + {:?}) - {:?} = {:?} [{}]", ya, yb, yb, (ya + yb) - yb, tag);
        }
        lattice_laws("real", RealSemiring(h[0]), RealSemiring(h[2]), RealSemiring(h[4])).map_err(|mut e| {
            e.detail = format!("{} [{}]", e.detail, tag);
            e
        })?;
        lattice_laws("expected-utility", ExpectedUtility(h[0], h[1]), ExpectedUtility(h[2], h[3]), ExpectedUtility(h[4], h[5])).map_err(|mut e| {
            e.detail = format!("{} [{}]", e.detail, tag);
            e
        })?;
    }
    // complex numbers whose real and imaginary parts live at very different magnitudes (each component scaled by
    // its own power of two): the laws that hold for every pair of finite values without any rounding argument -
    // both identities, the annihilating zero, commutativity - must hold there too
    {
        let e = |i: usize| -> i32 { ((case.v.get(i).map(|n| n.k).unwrap_or(0) as i32).rem_euclid(7) - 3) * 20 };
        let sc = |x: f64, ex: i32| x * (2.0f64).powi(ex);
        let xs = [
            Complex { re: sc(f[0], e(1)), im: sc(f[1], e(0)) },
            Complex { re: sc(f[2], e(3)), im: sc(f[3], e(2)) },
            Complex { re: 1.0 + sc(f[4], -52), im: sc(f[5], e(4)) },
        ];
        let (one, zero) = (Complex::one(), Complex::zero());
        for x in xs.iter() {
            ensure!((*x * one) == *x && (one * *x) == *x, "C13/complex:mul-identity", "{:?} * one = {:?}, one * it = {:?}", x, *x * one, one * *x);
            ensure!((*x + zero) == *x && (zero + *x) == *x, "C13/complex:add-identity", "{:?} + zero = {:?}", x, *x + zero);
            ensure!((*x * zero) == zero && (zero * *x) == zero, "C13/complex:zero-annihilates", "{:?} * zero = {:?}", x, *x * zero);
        }
        for x in xs.iter() {
            for y in xs.iter() {
                ensure!((*x * *y) == (*y * *x), "C13/complex:mul-commutative", "{:?} * {:?} = {:?} but the other way round {:?}", x, y, *x * *y, *y * *x);
                ensure!((*x + *y) == (*y + *x), "C13/complex:add-commutative", "{:?} + {:?} is not commutative", x, y);
            }
        }
    }
    // Boolean
    let (ba, bb, bc) = (
        BooleanSemiring(case.bools.0),
        BooleanSemiring(case.bools.1),
        BooleanSemiring(case.bools.2),
    );
    semiring_laws("boolean", ba, bb, bc, &|l, r| l == r, true)?;
    // rational (only naturals are constructible from outside the crate)
    let (na, nb, nc) = (nat(case.nats.0 % 40), nat(case.nats.1 % 40), nat(case.nats.2 % 40));
    semiring_laws("rational", na, nb, nc, &|l, r| l == r, true)?;
    let distinct = f[0] != f[2] && f[2] != f[4] && f[0] != f[4];
    let nonid = [f[0], f[2], f[4]].iter().all(|x| *x != 0.0 && *x != 1.0);
    st.flag("numeric.ordered_eu_pair", ea <= eb || eb <= ea);
    st.flag("numeric.incomparable_eu_pair", !(ea <= eb) && !(eb <= ea));
    if distinct && nonid {
        st.mark_nontrivial();
    }
    Ok(())
}

impl SubCheckT for Numeric {
    type Case = NumCase;
    const NAME: &'static str = "real_complex_eu_bool_rational";
    const RULE: &'static str = "triples of exactly representable values (integers in [-64,64], dyadics k/8) for the real, complex and expected-utility types, all Boolean triples, naturals < 40 built from one()/zero() for the rational type: semiring laws with exact equality, ring subtraction inverts addition (also for the triples scaled by 2^-60 and 2^40, which keeps all sums and products exact; and identities, annihilation and commutativity for complex numbers whose components are scaled independently by 2^-60..2^60), join/meet idempotent/commutative/associative, and for every PartialOrd-related pair join = choose (both the semiring and the ring variant) = larger, meet = smaller, also for the triples scaled by 2^-60 / 2^40 and for values a few units in the last place apart. Non-trivial: first components pairwise distinct and none is 0 or 1";
    fn cases(tier: Tier) -> u32 {
        tier.pick(150_000, 1_500_000)
    }
    fn strategy(_tier: Tier) -> BoxedStrategy<NumCase> {
        (
            proptest::collection::vec(num_strategy(), 6),
            any::<(bool, bool, bool)>(),
            any::<(u8, u8, u8)>(),
        )
            .prop_map(|(v, bools, nats)| NumCase { v, bools, nats })
            .boxed()
    }
    fn run(case: &NumCase, st: &mut Stats) -> CaseResult {
        run_numeric(case, st)
    }
}

// ---------------------------------------------------------------------------
// truncated polynomials
// ---------------------------------------------------------------------------

#[derive(Clone, Debug, Serialize, Deserialize)]
pub struct PolyCase {
    pub a: Vec<i8>,
    pub b: Vec<i8>,
    pub c: Vec<i8>,
}

pub struct Poly;

fn poly_real(v: &[i8]) -> Polynomial<RealSemiring> {
    let mut p = Polynomial::<RealSemiring>::zero();
    for (i, x) in v.iter().enumerate().take(MAX_COEFFS) {
        p.coefficients[i] = RealSemiring(*x as f64);
    }
    p.len = v.len().min(MAX_COEFFS);
    p
}

fn poly_ff<const P: u128>(v: &[i8]) -> Polynomial<FiniteField<P>> {
    let mut p = Polynomial::<FiniteField<P>>::zero();
    for (i, x) in v.iter().enumerate().take(MAX_COEFFS) {
        let r = if *x >= 0 { *x as u128 } else { P - ((-(*x as i32)) as u128 % P) };
        p.coefficients[i] = FiniteField::new(r);
    }
    p.len = v.len().min(MAX_COEFFS);
    p
}

fn ref_mul(a: &[i8], b: &[i8]) -> Vec<i64> {
    let mut r = vec![0i64; MAX_COEFFS];
    for (i, x) in a.iter().enumerate() {
        for (j, y) in b.iter().enumerate() {
            if i + j < MAX_COEFFS {
                r[i + j] += (*x as i64) * (*y as i64);
            }
        }
    }
    r
}

fn ref_add(a: &[i8], b: &[i8]) -> Vec<i64> {
    let mut r = vec![0i64; MAX_COEFFS];
    for (i, x) in a.iter().enumerate() {
        r[i] += *x as i64;
    }
    for (i, x) in b.iter().enumerate() {
        r[i] += *x as i64;
    }
    r
}

fn poly_ff_laws<const P: u128>(case: &PolyCase) -> CaseResult {
    let (a, b, c) = (poly_ff::<P>(&case.a), poly_ff::<P>(&case.b), poly_ff::<P>(&case.c));
    let eq = |l: &Polynomial<FiniteField<P>>, r: &Polynomial<FiniteField<P>>| {
        (0..MAX_COEFFS).all(|i| l.coefficients[i] == r.coefficients[i])
    };
    semiring_laws(&format!("polynomial-over-GF({})", P), a, b, c, &eq, true)?;
    let m = a * b;
    let want = ref_mul(&case.a, &case.b);
    let sum = a + b;
    let wants = ref_add(&case.a, &case.b);
    for i in 0..MAX_COEFFS {
        let ws = if wants[i] >= 0 { wants[i] as u128 % P } else { (P - ((-wants[i]) as u128 % P)) % P };
        ensure!(
            sum.coefficients[i].value() == ws,
            format!("C13/polynomial-over-GF({}):add-reference", P),
            "coefficient {} of the sum is {} but the reference gives {}",
            i,
            sum.coefficients[i].value(),
            ws
        );
        let w = if want[i] >= 0 { want[i] as u128 % P } else { (P - ((-want[i]) as u128 % P)) % P };
        ensure!(
            m.coefficients[i].value() == w,
            format!("C13/polynomial-over-GF({}):mul-reference", P),
            "coefficient {} of the product is {} but the reference (truncated at {} coefficients) gives {}",
            i,
            m.coefficients[i].value(),
            MAX_COEFFS,
            w
        );
    }
    Ok(())
}

pub fn run_poly(case: &PolyCase, st: &mut Stats) -> CaseResult {
    let (a, b, c) = (poly_real(&case.a), poly_real(&case.b), poly_real(&case.c));
    let eq = |l: &Polynomial<RealSemiring>, r: &Polynomial<RealSemiring>| {
        (0..MAX_COEFFS).all(|i| l.coefficients[i] == r.coefficients[i])
    };
    semiring_laws("polynomial-over-reals", a, b, c, &eq, true)?;
    let m = a * b;
    let want = ref_mul(&case.a, &case.b);
    let s = a + b;
    let wants = ref_add(&case.a, &case.b);
    for i in 0..MAX_COEFFS {
        ensure!(
            m.coefficients[i].0 == want[i] as f64,
            "C13/polynomial-over-reals:mul-reference",
            "coefficient {} of the product is {} but the reference (truncated at {} coefficients) gives {}",
            i,
            m.coefficients[i].0,
            MAX_COEFFS,
            want[i]
        );
        ensure!(
            s.coefficients[i].0 == wants[i] as f64,
            "C13/polynomial-over-reals:add-reference",
            "coefficient {} of the sum is {} but the reference gives {}",
            i,
            s.coefficients[i].0,
            wants[i]
        );
    }
    poly_ff_laws::<7>(case)?;
    poly_ff_laws::<{ primes::U64_LARGEST }>(case)?;
    poly_ff_laws::<{ primes::U128_LARGE_2 }>(case)?;
    let trunc = case.a.len() + case.b.len() > MAX_COEFFS + 1;
    st.flag("poly.product_truncated", trunc);
    st.flag("poly.empty_operand", case.a.is_empty() || case.b.is_empty() || case.c.is_empty());
    if case.a.len() >= 2 && case.b.len() >= 2 && case.c.len() >= 2 {
        st.mark_nontrivial();
    }
    Ok(())
}

fn coeffs_strategy() -> impl Strategy<Value = Vec<i8>> {
    prop_oneof![
        4 => proptest::collection::vec(-3i8..=3, 0..=6),
        2 => proptest::collection::vec(-3i8..=3, 7..=20),
        2 => proptest::collection::vec(-2i8..=2, 21..=32),
    ]
}

impl SubCheckT for Poly {
    type Case = PolyCase;
    const NAME: &'static str = "polynomial";
    const RULE: &'static str = "triples of polynomials with 0..32 small integer coefficients (products that hit the 32-coefficient truncation included) over the reals and over GF(7), GF(2^64-59), GF(U128_LARGE_2): semiring laws coefficient-wise (the len field's trailing zeros are ignored) and product/sum against the harness's own truncated convolution. Non-trivial: all three operands have >= 2 coefficients";
    fn cases(tier: Tier) -> u32 {
        tier.pick(20_000, 200_000)
    }
    fn strategy(_tier: Tier) -> BoxedStrategy<PolyCase> {
        (coeffs_strategy(), coeffs_strategy(), coeffs_strategy())
            .prop_map(|(a, b, c)| PolyCase { a, b, c })
            .boxed()
    }
    fn run(case: &PolyCase, st: &mut Stats) -> CaseResult {
        run_poly(case, st)
    }
}

pub fn property() -> Property {
    let mut ex = sub::<FfExhaustive>();
    ex.worker = ff_exhaustive_worker;
    Property {
        id: "C13",
        subs: vec![ex, sub::<FfRandom>(), sub::<Numeric>(), sub::<Poly>()],
        fuzz: vec![],
        assumptions: vec![
            "exactly representable values only (small integers and dyadics), so f64 results are compared with ==",
            "RationalSemiring values are naturals built from one()/zero() (its field is private)",
            "FiniteField::negate() (1 - v, used by semantic hashing) is covered by C11, not treated as the additive inverse here",
            "an arithmetic-overflow panic inside an operation counts as a violation",
        ],
        nt_floor_percent: 10,
    }
}

#[allow(dead_code)]
fn _unused() {
    let _ = json!({});
}
