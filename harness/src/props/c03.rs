//! C03 — SDD operations compute exactly the Boolean function they name.
use crate::engine::*;
use crate::sddi::*;
use crate::tt::Tt;
use crate::vtgen::*;
use crate::walk::*;
use proptest::prelude::*;
use rsdd::builder::sdd::{CompressionSddBuilder, SddBuilder};
use rsdd::builder::BottomUpBuilder;
use rsdd::repr::SddPtr;
use serde::{Deserialize, Serialize};
use std::collections::{BTreeSet, HashMap};

#[derive(Clone, Debug, Serialize, Deserialize)]
pub struct Case {
    pub vt: VtreeCase,
    pub compress: bool,
    pub table_cap: Option<u16>,
    pub ops: Vec<SOp>,
    pub checkpoints: Vec<u16>,
    /// Some((total leaves, seed)): the vtree has `total` leaves and the oracle's variables are `vt.k` of them
    #[serde(default)]
    pub embed: Option<(u8, u64)>,
}

pub struct Hist;

fn recheck(pool: &[(SddPtr, Tt)], when: &str) -> CaseResult {
    let mut memo = HashMap::new();
    for (i, (p, t)) in pool.iter().enumerate() {
        let got = sdd_tt_m(*p, &mut memo);
        ensure!(
            got == *t,
            "C03/function-changed-later",
            "pool entry {} no longer denotes its function {}: expected {:?}, the SDD now reads {:?}",
            i,
            when,
            t,
            got
        );
    }
    Ok(())
}

pub fn make_builder<'a>(vt: &VtreeCase, compress: bool, cap: Option<u16>) -> CompressionSddBuilder<'a> {
    rsdd::verif_hooks::set_unique_table_capacity(cap.map(|c| c as usize));
    let mut b = CompressionSddBuilder::new(vt.to_vtree());
    rsdd::verif_hooks::set_unique_table_capacity(None);
    b.set_compression(compress);
    b
}

/// the vtree the builder is made for, and the labels of the oracle's variables if they are embedded in a larger one
pub fn effective_vtree(case: &Case) -> (VtreeCase, Option<Vec<usize>>) {
    match case.embed {
        Some((total, seed)) if case.vt.contiguous() => {
            let (big, labels) = embed_vtree(&case.vt, total, seed);
            (big, Some(labels))
        }
        _ => (case.vt.clone(), None),
    }
}

pub fn run_case(case: &Case, st: &mut Stats) -> CaseResult {
    let (vt, emb) = effective_vtree(case);
    let b = make_builder(&vt, case.compress, case.table_cap);
    let shape = vt.shape();
    let info = ShapeInfo::new(&shape);
    let mut run = match emb {
        Some(labels) => {
            st.bump("case.embedded_in_a_larger_vtree");
            st.bump(match vt.k {
                0..=16 => "case.embedded.leaves_9_16",
                17..=64 => "case.embedded.leaves_17_64",
                _ => "case.embedded.leaves_65_120",
            });
            SddRun::new_embedded(&b, labels)
        }
        None => SddRun::new(&b, shape.leaves()),
    };
    let cps: BTreeSet<usize> = if case.ops.is_empty() {
        BTreeSet::new()
    } else {
        case.checkpoints.iter().map(|c| pick(*c, case.ops.len())).collect()
    };
    let mut relations: BTreeSet<usize> = BTreeSet::new();
    for (i, op) in case.ops.iter().enumerate() {
        let stepped = run.step(op);
        if let Some((what, msg)) = run.sibling_fault.take() {
            return fail(&format!("C03/wrong-function:siblings:{}", what), format!("op #{} {:?}: {} (compression {})", i, op, msg, case.compress));
        }
        match stepped {
            None => st.bump("op_not_applicable"),
            Some(out) => {
                st.bump(&format!("op.{}", out.kind));
                let (p, t) = run.pool[out.idx];
                let got = sdd_tt(p);
                if let Some(l) = take_foreign_label() {
                    return fail(
                        &format!("C03/wrong-function:{}", out.kind),
                        format!("op #{} {:?} on pool entries {:?}: the returned SDD mentions variable {} which none of its operands mentions", i, op, out.args, l),
                    );
                }
                ensure!(
                    got == t,
                    format!("C03/wrong-function:{}", out.kind),
                    "op #{} {:?} on pool entries {:?}: expected {:?}, the returned SDD denotes {:?} (vtree leaves {:?}, shape {:?}, compression {})",
                    i,
                    op,
                    out.args,
                    t,
                    got,
                    shape.leaves(),
                    shape,
                    case.compress
                );
                if matches!(out.kind, "and" | "or") {
                    let (x, y) = (run.pool[out.args[0]].0, run.pool[out.args[1]].0);
                    if (sdd_is_internal(x) || sdd_is_internal(y)) && !x.is_const() && !y.is_const() {
                        let (px, py) = (sdd_position(x, &info).unwrap(), sdd_position(y, &info).unwrap());
                        let r = vtree_relation(&info, px, py);
                        relations.insert(r);
                        let (nx, ny) = match op {
                            SOp::AndDisjointNeg(_, _, a, b) | SOp::OrDisjointNeg(_, _, a, b) => (*a, *b),
                            _ => (false, false),
                        };
                        st.bump(&format!(
                            "apply.rel{}.{}{}",
                            r,
                            if sdd_is_compl(x) ^ nx { "c" } else { "r" },
                            if sdd_is_compl(y) ^ ny { "c" } else { "r" }
                        ));
                    }
                }
            }
        }
        if cps.contains(&i) {
            recheck(&run.pool, &format!("at checkpoint after op #{}", i))?;
        }
    }
    recheck(&run.pool, "at the end of the history")?;
    st.flag("case.compression_on", case.compress);
    st.flag("case.compression_off", !case.compress);
    st.bump(&format!("case.vtree_kind.{}", case.vt.kind % 5));
    if relations.len() >= 2 {
        st.mark_nontrivial();
    }
    Ok(())
}

pub fn case_strategy(max_ops: usize, rebuild: bool) -> BoxedStrategy<Case> {
    // without compression SDDs (and the library's structural comparison of nodes) blow up exponentially,
    // so that mode is explored on <= 4 variables and shorter histories: a case must never take minutes
    let on = (
        vtree_case_strategy(8, false),
        Just(true),
        proptest::collection::vec(sop_strategy_ext(true, rebuild, true), 0..=max_ops),
    );
    let off = (
        vtree_case_strategy(4, false),
        Just(false),
        proptest::collection::vec(sop_strategy_ext(true, rebuild, true), 0..=max_ops.min(24)),
    );
    // wide decision nodes: 7..8 variables, all but 2 or 3 of them left of the root, and a dense random function
    // first (decision nodes with more than 20 elements arise there and in the operations that follow)
    let wide = (
        (7u8..=8, proptest::collection::vec(any::<u16>(), 12), proptest::collection::vec(any::<u16>(), 12)).prop_map(|(k, keys, splits)| VtreeCase {
            k,
            keys,
            kind: 4,
            splits,
            stride: 1,
            offset: 0,
        }),
        Just(true),
        (any::<[u64; 4]>(), proptest::collection::vec(sop_strategy_ext(true, rebuild, true), 0..=max_ops.min(16))).prop_map(|(bits, mut ops)| {
            ops.insert(0, SOp::Dense(bits));
            ops
        }),
    );
    // non-contiguous leaf labels (holes in the vtree manager's label table): <= 3 leaves, labels i*stride+offset <= 7
    let sparse = (
        (1u8..=3, proptest::collection::vec(any::<u16>(), 12), 0u8..5, proptest::collection::vec(any::<u16>(), 12), 2u8..=3, 0u8..=1).prop_map(
            |(k, keys, kind, splits, stride, offset)| VtreeCase { k, keys, kind, splits, stride, offset },
        ),
        any::<bool>(),
        proptest::collection::vec(sop_strategy_ext(true, rebuild, true), 0..=max_ops.min(24)),
    );
    (
        prop_oneof![9 => on.boxed(), 3 => off.boxed(), 1 => wide.boxed(), 1 => sparse.boxed()],
        prop_oneof![2 => Just(None), 6 => (1u16..=32).prop_map(Some)],
        proptest::collection::vec(any::<u16>(), 3),
        embed_strategy(),
    )
        .prop_map(|((vt, compress, ops), table_cap, checkpoints, embed)| Case {
            embed: if compress && vt.contiguous() { embed } else { None },
            vt,
            compress,
            table_cap,
            ops,
            checkpoints,
        })
        .boxed()
}

/// one case in six: the vtree gets 9..120 leaves of which the case's own leaves are the oracle's variables
pub fn embed_strategy() -> BoxedStrategy<Option<(u8, u64)>> {
    prop_oneof![
        5 => Just(None),
        1 => (prop_oneof![3 => 9u8..=16, 3 => 17u8..=64, 1 => 65u8..=120], any::<u64>()).prop_map(Some),
    ]
    .boxed()
}

impl SubCheckT for Hist {
    type Case = Case;
    const NAME: &'static str = "history";
    const RULE: &'static str = "random vtree over 1..8 variables, in one case of six (compression on) embedded at random leaves of a vtree with 9..120 leaves of the same shape family (right-linear, left-linear, balanced, random splits, wide root; random leaf order; a family with non-contiguous labels over <=3 leaves) x compression on (<=8 variables) / off (<=4 variables, <=24 ops) x unique tables default or 1..32 slots x <=40 operations (literals, not, and, or, xor, iff, ite, condition, exists, compose, and dense functions given by a whole random truth table and built by Shannon expansion, so that decision nodes with >20 elements occur): every returned SDD is read element by element (prime/sub pairs, binary nodes, complement bits) into a truth table and compared with the oracle; the pool is re-read at 3 checkpoints and at the end. Non-trivial: and/or applications with a decision-node operand and a non-constant second operand in >=2 of the four vtree relations (same node, left descendant, right descendant, independent), the relation being computed from the vtree shape";
    fn cases(tier: Tier) -> u32 {
        tier.pick(20_000, 250_000)
    }
    fn strategy(_tier: Tier) -> BoxedStrategy<Case> {
        case_strategy(40, false)
    }
    fn run(case: &Case, st: &mut Stats) -> CaseResult {
        run_case(case, st)
    }
}

// ---------------------------------------------------------------------------
// histories over more variables than the truth-table oracle holds
// ---------------------------------------------------------------------------

pub struct BigHist;

struct SddOps<'a>(&'a CompressionSddBuilder<'a>);

impl<'a> crate::bighist::BigOps<SddPtr<'a>> for SddOps<'a> {
    fn lit(&self, v: usize, p: bool) -> SddPtr<'a> {
        self.0.var(rsdd::repr::VarLabel::new_usize(v), p)
    }
    fn not(&self, a: SddPtr<'a>) -> SddPtr<'a> {
        self.0.negate(a)
    }
    fn and(&self, a: SddPtr<'a>, b: SddPtr<'a>) -> SddPtr<'a> {
        self.0.and(a, b)
    }
    fn or(&self, a: SddPtr<'a>, b: SddPtr<'a>) -> SddPtr<'a> {
        self.0.or(a, b)
    }
    fn xor(&self, a: SddPtr<'a>, b: SddPtr<'a>) -> SddPtr<'a> {
        self.0.xor(a, b)
    }
    fn iff(&self, a: SddPtr<'a>, b: SddPtr<'a>) -> SddPtr<'a> {
        self.0.iff(a, b)
    }
    fn ite(&self, a: SddPtr<'a>, b: SddPtr<'a>, c: SddPtr<'a>) -> SddPtr<'a> {
        self.0.ite(a, b, c)
    }
    fn cond(&self, a: SddPtr<'a>, v: usize, val: bool) -> SddPtr<'a> {
        self.0.condition(a, rsdd::repr::VarLabel::new_usize(v), val)
    }
    fn exists(&self, a: SddPtr<'a>, v: usize) -> SddPtr<'a> {
        self.0.exists(a, rsdd::repr::VarLabel::new_usize(v))
    }
    fn compose(&self, a: SddPtr<'a>, v: usize, g: SddPtr<'a>) -> SddPtr<'a> {
        self.0.compose(a, rsdd::repr::VarLabel::new_usize(v), g)
    }
    fn eval(&self, a: SddPtr<'a>, asg: &[bool]) -> bool {
        crate::big::sdd_eval(a, asg)
    }
    fn size(&self, a: SddPtr<'a>) -> usize {
        sdd_nodes(a).len()
    }
}

pub fn run_big_hist(case: &crate::bighist::BigHistCase, st: &mut Stats) -> CaseResult {
    let n = (case.nv as usize).clamp(10, 14);
    let vt = VtreeCase {
        k: n as u8,
        keys: (0..n as u64).map(|i| (splitmix(case.seed ^ (i + 1)) >> 48) as u16).collect(),
        kind: [3u8, 2, 0][(case.shape % 3) as usize],
        splits: (0..n as u64).map(|i| (splitmix(case.seed ^ (i + 77)) >> 48) as u16).collect(),
        stride: 1,
        offset: 0,
    };
    let b = make_builder(&vt, true, case.table_cap);
    st.bump(&format!("bighist.vtree_kind.{}", vt.kind));
    crate::bighist::run_big_hist(&SddOps(&b), case, n, "C03", true, st)
}

impl SubCheckT for BigHist {
    type Case = crate::bighist::BigHistCase;
    const NAME: &'static str = "histories_on_many_variables";
    const RULE: &'static str = "compressing builder over 10..14 variables (random / balanced / right-linear vtree, random leaf order, unique table default or 1..64 slots); a pool grown from parity-like seeds by 8..24 operations (and, or, xor, iff, ite, not, condition, and up to five exists / compose), every entry paired with a node of an expression DAG that records how it was made; after every operation, and for the whole pool at the end, the SDD read by the harness's own walk and the harness's evaluation of the DAG agree on 20 sampled assignments. Non-trivial: a diagram of more than 64 nodes took part";
    fn cases(tier: Tier) -> u32 {
        tier.pick(600, 12_000)
    }
    fn strategy(_tier: Tier) -> BoxedStrategy<crate::bighist::BigHistCase> {
        crate::bighist::big_hist_strategy(14, 24)
    }
    fn run(case: &crate::bighist::BigHistCase, st: &mut Stats) -> CaseResult {
        run_big_hist(case, st)
    }
}

pub fn property() -> Property {
    Property {
        id: "C03",
        subs: vec![sub::<Hist>(), sub::<BigHist>()],
        fuzz: vec![FuzzSpec { target: "sdd_ops", runs: 6000, max_len: 300 }],
        assumptions: vec![
            "functions of <= 8 variables (in one case of six the vtree has 9..120 leaves, of which <= 8 are used), <= 40 operations per history",
            "the SDD walker reads SddPtr variants, BinarySDD accessors and SddOr::iter(); truth-table oracle as in C01",
        ],
        nt_floor_percent: 10,
    }
}
