//! C11 — semantic hashing is denotational; hash-identified builders stay correct.
use crate::bddi::{order_keys_strategy, perm_from_keys};
use crate::cnfgen::*;
use crate::engine::*;
use crate::fnsrc::*;
use crate::oracle::mulmod;
use crate::semi::*;
use crate::sddi::*;
use crate::tt::Tt;
use crate::vtgen::*;
use crate::walk::*;
use proptest::prelude::*;
use rsdd::builder::bdd::RobddBuilder;
use rsdd::builder::cache::AllIteTable;
use rsdd::builder::decision_nnf::{DecisionNNFBuilder, SemanticDecisionNNFBuilder, StandardDecisionNNFBuilder};
use rsdd::builder::sdd::{CompressionSddBuilder, SddBuilder, SemanticSddBuilder};
use rsdd::builder::BottomUpBuilder;
use rsdd::constants::primes;
use rsdd::repr::{create_semantic_hash_map, BddPtr, DDNNFPtr, SddPtr, VarLabel, VarOrder, WmcParams};
use rsdd::util::semirings::FiniteField;
use serde::{Deserialize, Serialize};

#[derive(Clone, Debug, Serialize, Deserialize)]
pub struct HashCase {
    pub src: FnSrc,
    pub orders: Vec<Vec<u16>>,
    pub vts: Vec<VtreeCase>,
    /// a second function used for "further operations" between the two cached-hash reads
    pub other_bits: u64,
}

pub struct Hash;

fn defining_sum<const P: u128>(t: Tt, n: usize, map: &WmcParams<FiniteField<P>>) -> u128 {
    let ops = Ops::<u128> {
        zero: 0,
        one: 1 % P,
        add: &|a, b| (a + b) % P,
        mul: &|a, b| mulmod(*a, *b, P),
    };
    let w = |v: usize, b: bool| -> u128 {
        let (l, h) = map.var_weight(VarLabel::new_usize(v));
        if b {
            h.value()
        } else {
            l.value()
        }
    };
    brute_force(t, &(0..n).collect::<Vec<_>>(), &w, &ops)
}

fn hash_part<const P: u128>(case: &HashCase, cached_slot: usize, st: &mut Stats) -> CaseResult {
    let n = case.src.n();
    let t = case.src.tt();
    // maps for many variables keep the documented shape too (low + high = 1 mod P on every variable; a prefix of a
    // longer map is the shorter map): checked on a size drawn from the case, up to 4000 variables (fewer where the
    // library's own precondition on the field size says so)
    {
        // the library requires num_vars * 1000 < P (an assertion at the top of create_semantic_hash_map): at most 1000
        // variables over the 20-bit prime
        let cap = (((P - 1) / 1000) as usize).saturating_sub(1).max(1);
        let big_n = (64 + (case.src.tt().0[0] % 3937) as usize).min(cap);
        let big = create_semantic_hash_map::<P>(big_n);
        let small = create_semantic_hash_map::<P>(n.max(1));
        for v in 0..big_n {
            let (l, h) = big.var_weight(VarLabel::new_usize(v));
            ensure!(
                (l.value() + h.value()) % P == 1 % P,
                "C11/hash-map-not-normalised",
                "create_semantic_hash_map::<{}>({}): variable {} has low {} + high {} != 1 (mod P)",
                P,
                big_n,
                v,
                l.value(),
                h.value()
            );
            if v < n.max(1) {
                let (sl, sh) = small.var_weight(VarLabel::new_usize(v));
                ensure!(sl.value() == l.value() && sh.value() == h.value(), "C11/hash-map-depends-on-size", "variable {} has other weights in the map for {} variables than in the map for {}", v, big_n, n.max(1));
            }
        }
    }
    let map = create_semantic_hash_map::<P>(n);
    // the documented shape of the map: low + high = 1 (mod P)
    for v in 0..n {
        let (l, h) = map.var_weight(VarLabel::new_usize(v));
        ensure!(
            (l.value() + h.value()) % P == 1,
            "C11/hash-map-not-normalised",
            "create_semantic_hash_map: weights of x{} are ({}, {}), not summing to one mod {}",
            v,
            l.value(),
            h.value(),
            P
        );
    }
    let want = defining_sum::<P>(t, n, &map);
    let want_neg = (P + 1 - want) % P;
    rsdd::verif_hooks::set_unique_table_capacity(Some(64));
    let orders: Vec<Vec<usize>> = case.orders.iter().take(3).map(|k| perm_from_keys(k, n)).collect();
    let bbs: Vec<RobddBuilder<AllIteTable<BddPtr>>> = orders
        .iter()
        .map(|o| RobddBuilder::new(VarOrder::new(&o.iter().map(|v| VarLabel::new_usize(*v)).collect::<Vec<_>>())))
        .collect();
    let vts: Vec<VtreeCase> = case
        .vts
        .iter()
        .take(2)
        .map(|v| {
            let mut v = v.clone();
            v.k = n as u8;
            v.stride = 1;
            v.offset = 0;
            v
        })
        .collect();
    let mut sbs: Vec<CompressionSddBuilder> = vts.iter().map(|v| CompressionSddBuilder::new(v.to_vtree())).collect();
    if sbs.len() >= 2 && n <= 4 {
        sbs[1].set_compression(false);
    }
    let ord0 = VarOrder::new(&orders[0].iter().map(|v| VarLabel::new_usize(*v)).collect::<Vec<_>>());
    let std_b = StandardDecisionNNFBuilder::new(ord0.clone());
    let sem_b = SemanticDecisionNNFBuilder::<P>::new(ord0);
    let ssb = SemanticSddBuilder::<P>::new(vts[0].to_vtree());
    rsdd::verif_hooks::set_unique_table_capacity(None);

    let other = {
        let mut o = Tt([case.other_bits; 4]);
        for v in n..6 {
            o = o.cofactor(v, false);
        }
        o
    };
    let mut reps = 0u64;
    // every diagram is held to the defining sum of the function it denotes (read by walking it); all of them
    // denote `t` unless a builder operation is wrong, which is another property's concern
    let mut foreign = 0u64;
    let mut check = |name: String, h: u128, neg: bool, denotes: Tt| -> CaseResult {
        reps += 1;
        let base = if neg { denotes.not() } else { denotes };
        let (wp, wn) = if base == t {
            (want, want_neg)
        } else {
            foreign += 1;
            let x = defining_sum::<P>(base, n, &map);
            (x, (P + 1 - x) % P)
        };
        let w = if neg { wn } else { wp };
        ensure!(
            h == w,
            "C11/hash-differs-from-defining-sum",
            "semantic hash over GF({}) of {} is {}; the defining sum over the models of {:?} is {} (negation: {})",
            P,
            name,
            h,
            denotes,
            w,
            neg
        );
        Ok(())
    };
    for (i, b) in bbs.iter().enumerate() {
        let f = bdd_from_tt(b, t, n);
        let ft = bdd_tt(f);
        check(format!("bdd under order {:?}", orders[i]), f.semantic_hash(&map).value(), false, ft)?;
        check(format!("negated bdd under order {:?}", orders[i]), f.neg().semantic_hash(&map).value(), true, ft.not())?;
        if i == cached_slot && ft == t {
            // cached hash = recomputed, twice in a row, and again after further operations
            let c1 = f.cached_semantic_hash(b.order(), &map).value();
            let c2 = f.cached_semantic_hash(b.order(), &map).value();
            let cn = f.neg().cached_semantic_hash(b.order(), &map).value();
            let g = bdd_from_tt(b, other, n);
            let _ = b.and(f, g);
            let _ = b.xor(f.neg(), g);
            let c3 = f.cached_semantic_hash(b.order(), &map).value();
            ensure!(
                c1 == want && c2 == want && c3 == want && cn == want_neg,
                "C11/cached-hash-differs-from-recomputed",
                "cached semantic hash of the BDD: first {}, second {}, after further operations {}, negation {}; recomputed {} / {}",
                c1,
                c2,
                c3,
                cn,
                want,
                want_neg
            );
            // every sub-diagram's cache is consistent with a recomputation as well
            for nd in bdd_nodes(f) {
                let p = BddPtr::Reg(nd);
                ensure!(
                    p.cached_semantic_hash(b.order(), &map).value() == p.semantic_hash(&map).value(),
                    "C11/cached-hash-differs-from-recomputed",
                    "an internal node's cached hash differs from its recomputed hash"
                );
            }
        }
    }
    for (i, b) in sbs.iter().enumerate() {
        let f = sdd_from_tt(b, t, n);
        let ft = sdd_tt(f);
        check(format!("sdd under vtree {:?}", vts[i].shape()), f.semantic_hash(&map).value(), false, ft)?;
        check(format!("negated sdd under vtree {:?}", vts[i].shape()), f.neg().semantic_hash(&map).value(), true, ft.not())?;
        // another construction history for the same function (minterm by minterm, variables in the first BDD
        // order): same hash, also where the builder does not compress
        if t.support_size() <= 5 {
            let g = sdd_from_tt_cubes(b, t, &orders[0]);
            let gt = sdd_tt(g);
            check(format!("sdd built minterm by minterm under vtree {:?}", vts[i].shape()), g.semantic_hash(&map).value(), false, gt)?;
            st.flag("second_construction_route_gave_another_structure", !sdd_iso(f, g));
        }
        if i == cached_slot.min(1) && ft == t {
            let c1 = f.cached_semantic_hash(b.vtree_manager(), &map).value();
            let c2 = f.cached_semantic_hash(b.vtree_manager(), &map).value();
            let cn = f.neg().cached_semantic_hash(b.vtree_manager(), &map).value();
            let g = sdd_from_tt(b, other, n);
            let _ = b.and(f, g);
            let _ = b.or(f.neg(), g);
            let c3 = f.cached_semantic_hash(b.vtree_manager(), &map).value();
            ensure!(
                c1 == want && c2 == want && c3 == want && cn == want_neg,
                "C11/cached-hash-differs-from-recomputed",
                "cached semantic hash of the SDD: first {}, second {}, after further operations {}, negation {}; recomputed {} / {}",
                c1,
                c2,
                c3,
                cn,
                want,
                want_neg
            );
        }
    }
    // the hash-identified builders are probabilistic: over the 20/29-bit primes a collision (e.g. a non-false
    // function hashing to 0) makes them emit malformed diagrams, which is not a defect. Their output is held
    // to the denotational hash over the 64-bit field only.
    let exact = P > (1u128 << 60);
    if exact {
        let f = sdd_from_tt(&ssb, t, n);
        // over the 64-bit field conjunction, disjunction and negation of the hash-identified builder are
        // claimed to be correct
        ensure!(
            sdd_tt(f) == t,
            "C11/semantic-builder-wrong-function:and-or-negate",
            "SemanticSddBuilder over GF({}) built {:?} by Shannon expansion with and/or/negate; requested {:?}",
            P,
            sdd_tt(f),
            t
        );
        {
            check("sdd built by the semantic builder".into(), f.semantic_hash(&map).value(), false, t)?;
            ensure!(
                ssb.cached_semantic_hash(f).value() == want,
                "C11/cached-hash-differs-from-recomputed",
                "SemanticSddBuilder::cached_semantic_hash = {}, defining sum {}",
                ssb.cached_semantic_hash(f).value(),
                want
            );
        }
    }
    if let Some(c) = case.src.cnf() {
        let cnf = c.to_rsdd();
        let d1 = std_b.compile_cnf_topdown(&cnf);
        {
            let dt = bdd_tt(d1);
            check("top-down (standard store)".into(), d1.semantic_hash(&map).value(), false, dt)?;
            check("negated top-down (standard store)".into(), d1.neg().semantic_hash(&map).value(), true, dt.not())?;
        }
        let d2 = sem_b.compile_cnf_topdown(&cnf);
        if exact {
            let dt = bdd_tt(d2);
            check("top-down (semantic store)".into(), d2.semantic_hash(&map).value(), false, dt)?;
            // over the 64-bit field CNF compilation and conditioning by the hash-identified store are claimed to
            // be correct: the compiled diagram, and every conditioning of it and of its negation, asked twice
            // (the second answer comes from nodes the first one stored under their hashes)
            ensure!(
                dt == t,
                "C11/semantic-builder-wrong-function:compile_cnf_topdown",
                "SemanticDecisionNNFBuilder over GF({}) compiled a diagram denoting {:?}; the CNF denotes {:?}",
                P,
                dt,
                t
            );
            // everything this store hands out, with the function it denotes (read by walking it)
            let mut sem_results: Vec<(BddPtr, Tt, String)> = vec![(d2, dt, "the compiled CNF".into())];
            for round in 0..2 {
                for v in 0..n {
                    for val in [false, true] {
                        for (neg, base) in [(false, d2), (true, d2.neg())] {
                            let c = rsdd::builder::TopDownBuilder::condition(&sem_b, base, VarLabel::new_usize(v), val);
                            sem_results.push((c, bdd_tt(c), format!("condition({}compiled, x{} = {}), round {}", if neg { "NOT " } else { "" }, v, val, round)));
                            let want_c = if neg { dt.not().cofactor(v, val) } else { dt.cofactor(v, val) };
                            ensure!(
                                bdd_tt(c) == want_c,
                                "C11/semantic-builder-wrong-function:condition",
                                "SemanticDecisionNNFBuilder: condition({}compiled diagram, x{} = {}) asked for the {} time denotes {:?}, the restricted function is {:?}",
                                if neg { "NOT " } else { "" },
                                v,
                                val,
                                if round == 0 { "first" } else { "second" },
                                bdd_tt(c),
                                want_c
                            );
                        }
                    }
                }
            }
            st.bump("semantic_store_conditionings_checked");
            // further compilations in the same hash-identified store: clause subsets of this CNF (padded so that the
            // variable count stays), and the CNF itself once more; every result, old and new, must keep denoting
            // its own CNF and hashing to its defining sum
            let base = crate::cnfgen::CnfCase::read_back(&cnf);
            if n >= 1 && !base.clauses.is_empty() {
                let mut compiled: Vec<(BddPtr, Tt)> = vec![(d2, dt)];
                for round in 0..3u64 {
                    let mask = crate::engine::splitmix(case.other_bits ^ round);
                    let mut cl: Vec<Vec<crate::cnfgen::Lit>> =
                        base.clauses.iter().enumerate().filter(|(i, _)| round == 2 || (mask >> (i % 64)) & 1 == 1).map(|(_, c)| c.clone()).collect();
                    cl.push(vec![((n - 1) as u8, true), ((n - 1) as u8, false)]);
                    let sub = crate::cnfgen::CnfCase { clauses: cl };
                    let sub_obj = sub.to_rsdd();
                    if sub_obj.num_vars() != n {
                        continue;
                    }
                    let want_t = crate::cnfgen::CnfCase::read_back(&sub_obj).tt();
                    let r = sem_b.compile_cnf_topdown(&sub_obj);
                    sem_results.push((r, bdd_tt(r), format!("compilation #{} in the same store", compiled.len() + 1)));
                    compiled.push((r, want_t));
                    for (k, (p, wt)) in compiled.iter().enumerate() {
                        ensure!(
                            bdd_tt(*p) == *wt,
                            "C11/semantic-builder-wrong-function:compile_cnf_topdown",
                            "hash-identified top-down store over GF({}): after {} compilations in one store, result #{} denotes {:?} instead of its CNF's {:?}",
                            P,
                            compiled.len(),
                            k,
                            bdd_tt(*p),
                            wt
                        );
                    }
                    check(format!("top-down (semantic store), compilation #{}", compiled.len()), r.semantic_hash(&map).value(), false, want_t)?;
                }
                st.bump("semantic_store_repeated_compilations");
            }
            // "never judge two equal functions different": within one store a function has one representative,
            // and its negation is the complemented pointer of that representative
            let mut canon: std::collections::BTreeMap<Tt, (BddPtr, usize)> = std::collections::BTreeMap::new();
            for (i, (p, pt, _)) in sem_results.iter().enumerate() {
                if let Some((q, j)) = canon.get(pt) {
                    ensure!(
                        *q == *p,
                        "C11/semantic-store-two-pointers-for-one-function",
                        "hash-identified top-down store over GF({}): '{}' and '{}' denote the same function {:?} but are different pointers",
                        P,
                        sem_results[*j].2,
                        sem_results[i].2,
                        pt
                    );
                } else if let Some((q, j)) = canon.get(&pt.not()) {
                    ensure!(
                        q.neg() == *p,
                        "C11/semantic-store-two-pointers-for-one-function",
                        "hash-identified top-down store over GF({}): '{}' denotes the negation of '{}' ({:?}) but is not its complemented pointer",
                        P,
                        sem_results[i].2,
                        sem_results[*j].2,
                        pt
                    );
                    st.bump("semantic_store_complement_pairs_compared");
                } else {
                    canon.insert(*pt, (*p, i));
                }
            }
            st.add("semantic_store_results_compared", sem_results.len() as u64);
        }
    }
    st.add("representations", reps);
    st.add("representations_denoting_another_function_than_requested(other properties' concern)", foreign);
    Ok(())
}

pub fn run_hash(case: &HashCase, st: &mut Stats) -> CaseResult {
    hash_part::<{ primes::U32_SMALL }>(case, 0, st)?;
    hash_part::<{ primes::U64_LARGEST }>(case, 1, st)?;
    hash_part::<{ primes::U32_TINY }>(case, 2, st)?;
    // a field whose elements do not fit in 64 bits (exported 96-bit prime): hashes, cached hashes and the
    // hash-identified builders keyed by them must not lose the upper bits anywhere
    hash_part::<{ primes::U128_LARGE_1 }>(case, 0, st)?;
    let t = case.src.tt();
    st.flag("from_cnf", case.src.cnf().is_some());
    if !t.is_const() && t.support_size() >= 3 {
        st.mark_nontrivial();
    }
    Ok(())
}

impl SubCheckT for Hash {
    type Case = HashCase;
    const NAME: &'static str = "hash";
    const RULE: &'static str = "a function (random truth table or CNF) represented as BDDs under 3 orders, SDDs under 2 vtrees (compressed / uncompressed), an SDD built by the hash-identified builder and, for CNFs, both top-down stores (over the 64-bit field the hash-identified store's compilation and every conditioning of the result and of its negation, asked twice, must denote the right function, and so must up to three further CNFs compiled in the same store and every earlier result after them); for the exported 32-bit primes, the 64-bit prime and a 96-bit prime: every semantic_hash equals the defining sum over models of the product of the map's weights (harness mulmod), negations hash to 1 - h, cached_semantic_hash (BDD: order+map, SDD: vtree manager+map; one prime per builder) equals the recomputed hash twice in a row and after further operations, for the root and every internal BDD node. Non-trivial: non-constant, >=3 support variables (>=9 representations each)";
    fn cases(tier: Tier) -> u32 {
        tier.pick(4000, 50_000)
    }
    fn strategy(_tier: Tier) -> BoxedStrategy<HashCase> {
        (
            fnsrc_strategy(),
            proptest::collection::vec(order_keys_strategy(), 3),
            proptest::collection::vec(vtree_case_strategy(7, false), 2),
            any::<u64>(),
        )
            .prop_map(|(src, orders, vts, other_bits)| HashCase {
                src,
                orders,
                vts,
                other_bits,
            })
            .boxed()
    }
    fn run(case: &HashCase, st: &mut Stats) -> CaseResult {
        run_hash(case, st)
    }
}

// ---------------------------------------------------------------------------
// histories of the hash-identified SDD builder
// ---------------------------------------------------------------------------

#[derive(Clone, Debug, Serialize, Deserialize)]
pub struct SemCase {
    pub vt: VtreeCase,
    pub ops: Vec<SOp>,
    pub cnf: CnfCase,
    pub table_cap: Option<u16>,
    /// value passed to set_compression on the hash-identified builder (every configuration must stay correct)
    #[serde(default)]
    pub compression_flag: Option<bool>,
    /// call the builder's stats() after this many operations (a public query that must leave hashes alone)
    #[serde(default)]
    pub stats_after: Option<u8>,
    /// Some((total, seed)): the builder's vtree has `total` leaves (up to 120, same shape family) and the history's
    /// variables are scattered among them: labels, vtree positions and the weight map go beyond 64 entries
    #[serde(default)]
    pub embed: Option<(u8, u64)>,
}

pub struct SemBuilder;

fn sem_history<const P: u128>(case: &SemCase, exact: bool, st: &mut Stats) -> CaseResult {
    rsdd::verif_hooks::set_unique_table_capacity(case.table_cap.map(|c| c as usize));
    let (vt, emb) = match case.embed {
        Some((total, seed)) if case.vt.contiguous() => {
            let (big, labels) = embed_vtree(&case.vt, total, seed);
            (big, Some(labels))
        }
        _ => (case.vt.clone(), None),
    };
    let mut b = SemanticSddBuilder::<P>::new(vt.to_vtree());
    rsdd::verif_hooks::set_unique_table_capacity(None);
    if let Some(flag) = case.compression_flag {
        b.set_compression(flag);
        st.bump(if flag { "set_compression.true" } else { "set_compression.false" });
    }
    let b = b;
    let shape = vt.shape();
    let k = case.vt.shape().leaves().len();
    // oracle variable -> builder label
    let labels: Vec<usize> = match &emb {
        Some(l) => l.clone(),
        None => {
            let mut l = shape.leaves();
            l.sort_unstable();
            l
        }
    };
    let mut run = match emb {
        Some(l) => {
            st.bump(if vt.k >= 65 { "embedded.leaves_65_120" } else { "embedded.leaves_9_64" });
            SddRun::new_embedded(&b, l)
        }
        None => SddRun::new(&b, shape.leaves()),
    };
    let name = format!("semantic-sdd-builder(GF({}))", P);
    for (i, op) in case.ops.iter().enumerate() {
        if case.stats_after.map(|k| k as usize == i).unwrap_or(false) {
            let _ = b.stats();
            st.bump("stats_called");
        }
        let Some(out) = run.step(op) else { continue };
        st.bump(&format!("op.{}", out.kind));
        let (p, t) = run.pool[out.idx];
        if exact {
            let got = sdd_tt(p);
            ensure!(
                got == t,
                format!("C11/semantic-builder-wrong-function:{}", out.kind),
                "{}: op #{} {:?} returned an SDD denoting {:?}, expected {:?} (vtree {:?})",
                name,
                i,
                op,
                got,
                t,
                shape
            );
        }
    }
    // compile a CNF restricted to this vtree's variables
    let clauses: Vec<Vec<Lit>> = case
        .cnf
        .clauses
        .iter()
        .map(|c| c.iter().map(|(v, p)| ((*v as usize % k) as u8, *p)).collect())
        .collect();
    // in the builder's label space
    let cc_obj = CnfCase { clauses: clauses.iter().map(|c| c.iter().map(|(v, p)| (labels[*v as usize] as u8, *p)).collect()).collect() }.to_rsdd();
    // the compiler's input is the Cnf object (C15 owns Cnf::new), read back into the oracle's variable space
    let cc = {
        let rb = CnfCase::read_back(&cc_obj);
        CnfCase {
            clauses: rb.clauses.iter().map(|c| c.iter().filter_map(|(l, p)| labels.iter().position(|x| *x == *l as usize).map(|i| (i as u8, *p))).collect()).collect(),
        }
    };
    let r = b.compile_cnf(&cc_obj);
    if exact {
        ensure!(
            sdd_tt(r) == cc.tt(),
            "C11/semantic-builder-wrong-function:compile_cnf",
            "{}: compile_cnf denotes {:?}, the CNF {:?} denotes {:?}",
            name,
            sdd_tt(r),
            cc.clauses,
            cc.tt()
        );
    }
    run.pool.push((r, cc.tt()));
    if case.stats_after.is_some() {
        let _ = b.stats();
    }
    // for a fixed field and weight map a cached hash equals the recomputed one (the defining sum)
    if exact {
        for (i, (p, t)) in run.pool.iter().enumerate() {
            let want = {
                let ops = Ops::<u128> { zero: 0, one: 1 % P, add: &|a, b| (a + b) % P, mul: &|a, b| mulmod(*a, *b, P) };
                let w = |v: usize, bit: bool| -> u128 {
                    let (l, h) = b.map().var_weight(VarLabel::new_usize(labels[v]));
                    if bit {
                        h.value()
                    } else {
                        l.value()
                    }
                };
                brute_force(*t, &(0..labels.len()).collect::<Vec<_>>(), &w, &ops)
            };
            let got = b.cached_semantic_hash(*p).value();
            ensure!(
                got == want,
                "C11/cached-hash-differs-from-recomputed",
                "{}: pool entry {} denotes {:?}; its cached hash is {} but the defining sum over models is {}",
                name,
                i,
                t,
                got,
                want
            );
        }
    }
    // equal functions are never judged different; over the 64-bit field the converse holds too
    let mut eq_pairs = 0u64;
    for i in 0..run.pool.len() {
        for j in (i + 1)..run.pool.len() {
            let (pi, ti) = run.pool[i];
            let (pj, tj) = run.pool[j];
            // recorded truth tables are the oracle's; when the builder is only probabilistically correct
            // (32-bit prime) use the walked tables so that the check is about `eq`, not about the operations
            let (ti, tj) = if exact { (ti, tj) } else { (sdd_tt(pi), sdd_tt(pj)) };
            let e = b.eq(pi, pj);
            if ti == tj {
                eq_pairs += 1;
                ensure!(
                    e,
                    "C11/equal-functions-judged-different",
                    "{}: pool entries {} and {} both denote {:?} but eq() is false",
                    name,
                    i,
                    j,
                    ti
                );
            } else if exact {
                // the property only claims the other direction; a spurious equality would show as a wrong
                // function of some later result. Recorded only.
                st.flag("different_functions_judged_equal(recorded only)", e);
            }
        }
    }
    st.add("equal_function_pairs", eq_pairs);
    Ok(())
}

pub fn run_sem(case: &SemCase, st: &mut Stats) -> CaseResult {
    // Over the 20/29-bit primes this builder is probabilistic by design: a collision (in particular a non-false
    // function hashing to 0) makes it emit malformed diagrams, and any assertion about it would alarm on a
    // correct tree with small but real probability. Histories are therefore decided over the 64-bit field.
    sem_history::<{ primes::U64_LARGEST }>(case, true, st)?;
    // and over an exported 96-bit prime (collisions are even less likely there; hash values need more than 64 bits)
    sem_history::<{ primes::U128_LARGE_1 }>(case, true, st)?;
    let nontrivial_ops = case.ops.iter().filter(|o| matches!(o, SOp::And(..) | SOp::Or(..) | SOp::Exists(..) | SOp::Cond(..))).count();
    if nontrivial_ops >= 4 && case.vt.k >= 3 {
        st.mark_nontrivial();
    }
    Ok(())
}

impl SubCheckT for SemBuilder {
    type Case = SemCase;
    const NAME: &'static str = "semantic_sdd_builder";
    const RULE: &'static str = "SemanticSddBuilder over a random vtree (1..5 variables; in one case of five these are scattered among the 9..120 leaves of a larger vtree of the same shape family, so that labels, vtree positions and the builder's weight map go beyond 64 entries), with set_compression left alone / set to true / set to false, under <=30 operations from {literal, constant, not, and, or, condition, exists} plus compile_cnf (ite/iff/xor/compose are todo!() in that builder and outside the property): over GF(2^64-25) and over the exported 96-bit prime U128_LARGE_1 every returned SDD denotes the oracle function and eq(a,b) holds exactly when the truth tables are equal, for all pool pairs, the cached hash of every pool entry equals the defining sum, and a stats() call in the middle of the history changes nothing (the 32-bit primes are not used here: collisions are expected there by design). Non-trivial: >=4 and/or/exists/condition operations on >=3 variables";
    fn cases(tier: Tier) -> u32 {
        tier.pick(6000, 80_000)
    }
    fn strategy(_tier: Tier) -> BoxedStrategy<SemCase> {
        (
            vtree_case_strategy(5, false),
            proptest::collection::vec(sop_strategy(false, false), 0..=30),
            (1u8..=5).prop_flat_map(|nv| clauses_strategy(nv, 6, 0, 3)).prop_map(|clauses| CnfCase { clauses }),
            prop_oneof![2 => Just(None), 5 => (1u16..=32).prop_map(Some)],
            prop_oneof![2 => Just(None), 2 => Just(Some(true)), 1 => Just(Some(false))],
            proptest::option::weighted(0.5, 0u8..30),
            prop_oneof![
                4 => Just(None),
                1 => (prop_oneof![1 => 9u8..=64, 2 => 65u8..=120], any::<u64>()).prop_map(Some),
            ],
        )
            .prop_map(|(vt, ops, cnf, table_cap, compression_flag, stats_after, embed)| SemCase {
                vt,
                ops,
                cnf,
                table_cap,
                compression_flag,
                stats_after,
                embed,
            })
            .boxed()
    }
    fn run(case: &SemCase, st: &mut Stats) -> CaseResult {
        run_sem(case, st)
    }
}

#[allow(dead_code)]
fn _unused(_: SddPtr) {}

// ---------------------------------------------------------------------------
// tens of thousands of applications on one hash-identified SDD builder (64-bit field)
// ---------------------------------------------------------------------------

#[derive(Clone, Debug, Serialize, Deserialize)]
pub struct ManyAppsCase {
    pub nv: u8,
    pub seed: u64,
    pub ops: u32,
    /// even: right-linear, odd: balanced vtree (left-linear vtrees are out of budget, see C16's large-cache sub-check)
    pub vt_kind: u8,
}

pub struct SemManyApps;

pub fn run_many_apps(case: &ManyAppsCase, st: &mut Stats) -> CaseResult {
    use rsdd::repr::VTree;
    const P: u128 = primes::U64_LARGEST;
    let n = (case.nv as usize).clamp(8, 12);
    fn shape(labels: &[usize], kind: u8) -> VTree {
        if labels.len() == 1 {
            return VTree::new_leaf(VarLabel::new_usize(labels[0]));
        }
        let at = if kind % 2 == 0 { 1 } else { labels.len() / 2 };
        VTree::new_node(Box::new(shape(&labels[..at], kind)), Box::new(shape(&labels[at..], kind)))
    }
    let labels = crate::big::permutation(case.seed ^ 0x5E4, n);
    let b = SemanticSddBuilder::<P>::new(shape(&labels, case.vt_kind));
    let mut pool: Vec<SddPtr> = (0..n).flat_map(|v| [b.var(VarLabel::new_usize(v), true), b.var(VarLabel::new_usize(v), false)]).collect();
    let probes: Vec<Vec<bool>> = (0..6u64).map(|k| crate::big::assignment(case.seed ^ 0x9E0B, k, n)).collect();
    // values of every pool entry on the probes, kept by the harness (an entry's values are checked when it is made)
    let mut vals: Vec<u8> = pool.iter().map(|p| probes.iter().enumerate().fold(0u8, |m, (i, a)| if crate::big::sdd_eval(*p, a) { m | 1 << i } else { m })).collect();
    let mask = (1u8 << probes.len()) - 1;
    let pick = |k: u64, len: usize| -> usize {
        let r = splitmix(case.seed ^ k);
        if r % 4 != 0 && len > 64 {
            len - 1 - (r >> 8) as usize % 64
        } else {
            (r >> 8) as usize % len
        }
    };
    for i in 0..case.ops as u64 {
        let (x, y) = (pick(i * 3, pool.len()), pick(i * 3 + 1, pool.len()));
        let (kind, r, want) = match splitmix(case.seed ^ (i * 3 + 2)) % 5 {
            0 | 1 => ("and", b.and(pool[x], pool[y]), vals[x] & vals[y]),
            2 | 3 => ("or", b.or(pool[x], pool[y]), vals[x] | vals[y]),
            _ => ("and-with-negation", b.and(b.negate(pool[x]), pool[y]), !vals[x] & mask & vals[y]),
        };
        let got = probes.iter().enumerate().fold(0u8, |m, (j, a)| if crate::big::sdd_eval(r, a) { m | 1 << j } else { m });
        ensure!(
            got == want,
            format!("C11/semantic-builder-wrong-function:{}", kind),
            "application #{} ({}) on a SemanticSddBuilder over GF(2^64-59) with {} variables: the result's values on six assignments are {:06b}, the operands' give {:06b}",
            i,
            kind,
            n,
            got,
            want
        );
        if !r.is_const() && pool.len() < 4000 {
            pool.push(r);
            vals.push(got);
        } else if !r.is_const() {
            let at = 2 * n + (splitmix(case.seed ^ 0xD1CE ^ i) as usize) % (pool.len() - 2 * n);
            pool[at] = r;
            vals[at] = got;
        }
    }
    st.add("many_apps.applications", case.ops as u64);
    if case.ops >= 20_000 {
        st.mark_nontrivial();
    }
    Ok(())
}

impl SubCheckT for SemManyApps {
    type Case = ManyAppsCase;
    const NAME: &'static str = "semantic_sdd_many_applications";
    const RULE: &'static str = "one SemanticSddBuilder over GF(2^64-59) (8..12 variables, right-linear or balanced vtree over a random leaf order) issues 20 000..60 000 and / or applications on a pool of up to 4000 diagrams; every result is read by the harness's walk on six assignments and must equal the operation applied to the operands' values there (caches of that builder that go wrong only when they hold tens of thousands of entries show here). Non-trivial: at least 20 000 applications";
    fn cases(tier: Tier) -> u32 {
        tier.pick(4, 64)
    }
    fn strategy(_tier: Tier) -> BoxedStrategy<ManyAppsCase> {
        (8u8..=12, any::<u64>(), 20_000u32..=60_000, 0u8..2).prop_map(|(nv, seed, ops, vt_kind)| ManyAppsCase { nv, seed, ops, vt_kind }).boxed()
    }
    fn run(case: &ManyAppsCase, st: &mut Stats) -> CaseResult {
        run_many_apps(case, st)
    }
}

pub fn property() -> Property {
    Property {
        id: "C11",
        subs: vec![sub::<Hash>(), sub::<SemBuilder>(), sub::<SemManyApps>()],
        fuzz: vec![],
        assumptions: vec![
            "a collision of two different functions in the 64-bit field (probability about 2^-64 per pair) is treated as impossible",
            "cached_semantic_hash is used with one fixed (prime, map) per builder: its per-node memo is untyped in the prime by design and the property states it for a fixed field and weight map",
            "ite/iff/xor/compose are never issued on the hash-identified SDD builder (todo!() in the library, not in the property's list)",
            "function correctness of hash-identified builders is asserted over the 64-bit prime only",
        ],
        nt_floor_percent: 15,
    }
}
