//! C16 — operation caches are transparent.
use crate::bddi::*;
use crate::engine::*;
use crate::props::c02::hash_strategy;
use crate::props::c03::make_builder;
use crate::sddi::*;
use crate::tt::Tt;
use crate::vtgen::*;
use crate::walk::*;
use proptest::prelude::*;
use rsdd::builder::bdd::RobddBuilder;
use rsdd::builder::cache::{AllIteTable, LruIteTable};
use rsdd::repr::{BddPtr, SddPtr, VarOrder};
use rsdd::util::lru::Lru;
use serde::{Deserialize, Serialize};
use std::collections::{BTreeMap, BTreeSet};

// ---------------------------------------------------------------------------
// 1. the lossy cache itself
// ---------------------------------------------------------------------------

#[derive(Clone, Debug, Serialize, Deserialize)]
pub enum LOp {
    Insert(u8, u16),
    Get(u8),
}

#[derive(Clone, Debug, Serialize, Deserialize)]
pub struct LruCase {
    pub cap_exp: u8,
    pub hashes: Vec<u64>,
    pub ops: Vec<LOp>,
}

pub struct LruDirect;

pub fn run_lru(case: &LruCase, st: &mut Stats) -> CaseResult {
    let nk = case.hashes.len();
    if nk == 0 {
        return Ok(());
    }
    let ow0 = rsdd::verif_hooks::lru_overwrites();
    let gr0 = rsdd::verif_hooks::lru_grows();
    let mut c: Lru<(u32, u32), u64> = Lru::new((case.cap_exp % 5) as usize);
    let mut model: BTreeMap<usize, u64> = BTreeMap::new();
    let mut hits = 0u64;
    let mut misses_of_present = 0u64;
    let mut live_overwritten = false;
    // which key currently "owns" each distinct hash value's slot is unknown to the harness (capacity changes);
    // overwrites are observed through the hook counter
    for (i, op) in case.ops.iter().enumerate() {
        match op {
            LOp::Insert(k, v) => {
                let k = ((*k as usize) * nk) >> 8;
                let val = ((*v as u64) << 8) | k as u64;
                let before = rsdd::verif_hooks::lru_overwrites();
                c.insert((k as u32, 77 + k as u32), val, case.hashes[k]);
                if rsdd::verif_hooks::lru_overwrites() > before && !model.is_empty() {
                    live_overwritten = true;
                }
                model.insert(k, val);
            }
            LOp::Get(k) => {
                let k = ((*k as usize) * nk) >> 8;
                let got = c.get((k as u32, 77 + k as u32), case.hashes[k]);
                match (got, model.get(&k)) {
                    (None, Some(_)) => misses_of_present += 1,
                    (None, None) => {}
                    (Some(g), Some(m)) => {
                        ensure!(
                            g == *m,
                            "C16/lru-returned-stale-or-foreign-value",
                            "op #{}: get(key {}) returned {} but the value most recently inserted under that key is {} (hashes {:?}, capacity 2^{})",
                            i,
                            k,
                            g,
                            m,
                            case.hashes,
                            case.cap_exp % 5
                        );
                        hits += 1;
                    }
                    (Some(g), None) => {
                        return fail(
                            "C16/lru-returned-value-for-a-key-never-inserted",
                            format!("op #{}: get(key {}) returned {} although nothing was ever inserted under that key (hashes {:?})", i, k, g, case.hashes),
                        );
                    }
                }
            }
        }
    }
    let ow = rsdd::verif_hooks::lru_overwrites() - ow0;
    let gr = rsdd::verif_hooks::lru_grows() - gr0;
    st.add("lru.hits", hits);
    st.add("lru.forgotten", misses_of_present);
    st.add("lru.overwrites", ow);
    st.add("lru.grows", gr);
    if live_overwritten && gr >= 1 && hits >= 1 {
        st.mark_nontrivial();
    }
    Ok(())
}

impl SubCheckT for LruDirect {
    type Case = LruCase;
    const NAME: &'static str = "lru";
    const RULE: &'static str = "rsdd::util::lru::Lru with 2^0..2^4 initial slots driven by insert/get over <=24 keys whose fixed hashes come from a tiny colliding set, against 'last value inserted per key': get returns nothing or exactly that value, never another key's value or a stale one, across collisions, overwrites and growth. Non-trivial: >=1 overwrite of an occupied slot, >=1 growth and >=1 hit (hook counters) - a cache that forgets everything does not count";
    fn cases(tier: Tier) -> u32 {
        tier.pick(20_000, 200_000)
    }
    fn strategy(_tier: Tier) -> BoxedStrategy<LruCase> {
        (
            0u8..5,
            proptest::collection::vec(hash_strategy(), 1..=24),
            proptest::collection::vec(
                prop_oneof![3 => (any::<u8>(), any::<u16>()).prop_map(|(k, v)| LOp::Insert(k, v)), 2 => any::<u8>().prop_map(LOp::Get)],
                0..=120,
            ),
        )
            .prop_map(|(cap_exp, hashes, ops)| LruCase { cap_exp, hashes, ops })
            .boxed()
    }
    fn run(case: &LruCase, st: &mut Stats) -> CaseResult {
        run_lru(case, st)
    }
}

// ---------------------------------------------------------------------------
// 1b. the lossy cache at the sizes the builders use it (2^10 .. 2^13 slots growing by one or two doublings)
// ---------------------------------------------------------------------------

#[derive(Clone, Debug, Serialize, Deserialize)]
pub struct LruLargeCase {
    pub cap_exp: u8,
    pub seed: u64,
    /// how many keys (per mille of the initial slot count) are inserted in the filling phase
    pub fill_permille: u16,
}

pub struct LruLarge;

pub fn run_lru_large(case: &LruLargeCase, st: &mut Stats) -> CaseResult {
    let cap = 10 + (case.cap_exp % 4) as usize;
    let slots = 1usize << cap;
    let gr0 = rsdd::verif_hooks::lru_grows();
    let mut c: Lru<(u32, u32), u64> = Lru::new(cap);
    let mut model: std::collections::HashMap<u32, u64> = std::collections::HashMap::new();
    let key = |k: u32| (k, k ^ 0x5A5A_5A5A);
    let mut hits = 0u64;
    let mut lookup = |c: &Lru<(u32, u32), u64>, model: &std::collections::HashMap<u32, u64>, k: u32, h: u64, when: &str| -> CaseResult {
        match (c.get(key(k), h), model.get(&k)) {
            (Some(g), Some(m)) => {
                ensure!(
                    g == *m,
                    "C16/lru-returned-stale-or-foreign-value",
                    "{}: get(key {}) returned {} but the value most recently inserted under that key is {} (initial capacity 2^{}, {} growths so far)",
                    when,
                    k,
                    g,
                    m,
                    cap,
                    rsdd::verif_hooks::lru_grows() - gr0
                );
                hits += 1;
                Ok(())
            }
            (Some(g), None) => fail("C16/lru-returned-value-for-a-key-never-inserted", format!("{}: get(key {}) returned {}", when, k, g)),
            _ => Ok(()),
        }
    };
    // phase 1: fill with keys whose hashes fall into distinct slots (hash = k, sometimes plus a high part), enough to
    // pass the growth threshold once or twice
    let fill = slots * (800 + (case.fill_permille % 1400) as usize) / 1000;
    let hash_of = |k: u32| -> u64 { (k as u64) | ((splitmix(case.seed ^ k as u64) & 3) << 40) };
    for k in 0..fill as u32 {
        let v = splitmix(case.seed ^ 0xF111 ^ k as u64);
        c.insert(key(k), v, hash_of(k));
        model.insert(k, v);
    }
    let grows_after_fill = rsdd::verif_hooks::lru_grows() - gr0;
    // phase 2: keys that were present before the growth get a new value; a colliding key (same slot at every
    // capacity reached: the hash differs only above bit 20) then takes the slot; the first key must never come back
    // with its old value
    let rounds = 400usize;
    for r in 0..rounds {
        let k = (splitmix(case.seed ^ 0xABBA ^ r as u64) % fill as u64) as u32;
        let v2 = splitmix(case.seed ^ 0xF222 ^ r as u64);
        c.insert(key(k), v2, hash_of(k));
        model.insert(k, v2);
        lookup(&c, &model, k, hash_of(k), "right after re-inserting a key that was stored before a growth")?;
        if r % 2 == 0 {
            let k2 = 1_000_000 + r as u32;
            let h2 = (hash_of(k) & 0xF_FFFF) | (1u64 << (21 + (r % 20)));
            let v3 = splitmix(case.seed ^ 0xF333 ^ r as u64);
            c.insert(key(k2), v3, h2);
            model.insert(k2, v3);
            lookup(&c, &model, k2, h2, "right after inserting a colliding key")?;
            lookup(&c, &model, k, hash_of(k), "after a colliding key took the slot")?;
        }
    }
    // phase 3: every key ever inserted
    let keys: Vec<u32> = model.keys().copied().collect();
    for k in keys {
        let h = if k >= 1_000_000 {
            continue;
        } else {
            hash_of(k)
        };
        lookup(&c, &model, k, h, "final sweep")?;
    }
    let gr = rsdd::verif_hooks::lru_grows() - gr0;
    st.add("lru_large.hits", hits);
    st.add("lru_large.grows", gr);
    st.bump(&format!("lru_large.initial_capacity.2^{}", cap));
    if grows_after_fill >= 1 && hits >= 100 {
        st.mark_nontrivial();
    }
    Ok(())
}

impl SubCheckT for LruLarge {
    type Case = LruLargeCase;
    const NAME: &'static str = "lru_large";
    const RULE: &'static str = "rsdd::util::lru::Lru with 2^10..2^13 initial slots: filled with 0.8..2.2 times as many keys as slots (distinct low hash bits), so that it grows once or twice; then 400 rounds of: re-insert a key stored before the growth with a new value, let a key whose hash differs only above bit 20 take its slot, and look the first key up again; finally every key. A get returns nothing or exactly the value most recently inserted under that key. Non-trivial: the filling phase made the cache grow and >= 100 lookups hit";
    fn cases(tier: Tier) -> u32 {
        tier.pick(60, 1500)
    }
    fn strategy(_tier: Tier) -> BoxedStrategy<LruLargeCase> {
        (any::<u8>(), any::<u64>(), any::<u16>()).prop_map(|(cap_exp, seed, fill_permille)| LruLargeCase { cap_exp, seed, fill_permille }).boxed()
    }
    fn run(case: &LruLargeCase, st: &mut Stats) -> CaseResult {
        run_lru_large(case, st)
    }
}

// ---------------------------------------------------------------------------
// 2. BDD builder differential: cache-everything vs lossy cache of any size
// ---------------------------------------------------------------------------

#[derive(Clone, Debug, Serialize, Deserialize)]
pub struct DiffCase {
    pub n0: u8,
    pub order_keys: Vec<u16>,
    /// None = default lossy capacity, Some(e) = 2^e slots
    pub lru_exp: Option<u8>,
    pub table_cap: Option<u16>,
    pub ops: Vec<BOp>,
}

pub struct BddDiff;

/// an apply table that remembers nothing: the reference for "a cache never changes a result"
#[derive(Default)]
pub struct NoIteTable;

impl<'a, T: rsdd::repr::DDNNFPtr<'a>> rsdd::builder::cache::IteTable<'a, T> for NoIteTable {
    fn hash(&self, _ite: &rsdd::builder::cache::Ite<T>) -> u64 {
        0
    }
    fn insert(&mut self, _ite: rsdd::builder::cache::Ite<T>, _res: T, _hash: u64) {}
    fn get(&self, ite: rsdd::builder::cache::Ite<T>, _hash: u64) -> Option<T> {
        match ite {
            rsdd::builder::cache::Ite::IteConst(f) => Some(f),
            _ => None,
        }
    }
}

pub fn run_diff(case: &DiffCase, st: &mut Stats) -> CaseResult {
    let n0 = case.n0 as usize;
    let order = |keys: &Vec<u16>| {
        let o: Vec<rsdd::repr::VarLabel> = perm_from_keys(keys, n0).into_iter().map(rsdd::repr::VarLabel::new_usize).collect();
        VarOrder::new(&o)
    };
    rsdd::verif_hooks::set_unique_table_capacity(case.table_cap.map(|c| c as usize));
    let a = RobddBuilder::<AllIteTable<BddPtr>>::new(order(&case.order_keys));
    rsdd::verif_hooks::set_lru_ite_capacity(case.lru_exp.map(|e| (e % 5) as usize));
    let l = RobddBuilder::<LruIteTable<BddPtr>>::new(order(&case.order_keys));
    rsdd::verif_hooks::set_lru_ite_capacity(None);
    let z = RobddBuilder::<NoIteTable>::new(order(&case.order_keys));
    let mut rz = BddRun::new(&z, n0);
    rsdd::verif_hooks::set_unique_table_capacity(None);
    let ow0 = rsdd::verif_hooks::lru_overwrites();
    let mut ra = BddRun::new(&a, n0);
    let mut rl = BddRun::new(&l, n0);
    for (i, op) in case.ops.iter().enumerate() {
        let sa = ra.step(op);
        let sl = rl.step(op);
        let sz = rz.step(op);
        match (sa, sl) {
            (Some(x), Some(y)) => {
                // neither cache may change a result: the builder whose apply table remembers nothing is the reference
                if let Some(w) = &sz {
                    let pz = rz.pool[w.idx].0;
                    for (which, p) in [("cache-everything", ra.pool[x.idx].0), ("lossy", rl.pool[y.idx].0)] {
                        ensure!(
                            bdd_tt(p) == bdd_tt(pz) && bdd_iso(p, pz),
                            format!("C16/cache-changes-a-result:{}", x.kind),
                            "op #{} {:?}: the builder with the {} apply table returned a diagram denoting {:?}, a builder that caches nothing {:?}",
                            i,
                            op,
                            which,
                            bdd_tt(p),
                            bdd_tt(pz)
                        );
                    }
                }
                // every result of a sibling operation (not only the one that joins the pool), same rule
                if matches!(op, BOp::Siblings(..)) && sz.is_some() {
                    for (k, (what, pz, _)) in rz.last_siblings.iter().enumerate() {
                        for (which, lst) in [("cache-everything", &ra.last_siblings), ("lossy", &rl.last_siblings)] {
                            if let Some((_, p, _)) = lst.get(k) {
                                ensure!(
                                    bdd_tt(*p) == bdd_tt(*pz) && bdd_iso(*p, *pz),
                                    "C16/cache-changes-a-result:siblings",
                                    "op #{} {:?}: {} (call {} on one (f, v, g)): the builder with the {} apply table returned a diagram denoting {:?}, a builder that caches nothing {:?}",
                                    i,
                                    op,
                                    what,
                                    k + 1,
                                    which,
                                    bdd_tt(*p),
                                    bdd_tt(*pz)
                                );
                            }
                        }
                    }
                    st.bump("bdd.sibling_operations_compared");
                }
                let (pa, ta) = ra.pool[x.idx];
                let (pl, tl) = rl.pool[y.idx];
                ensure!(ta == tl, "C16/harness", "oracle tables diverged");
                let ga = bdd_tt(pa);
                let gl = bdd_tt(pl);
                // whether the functions are the right ones is C01's concern (a defect shared by both builders is
                // not a cache defect); recorded only. A cache that changes a result shows up as a difference below.
                if gl != tl || ga != ta {
                    st.bump("result_differs_from_oracle_function(C01's concern)");
                }
                ensure!(
                    ga == gl,
                    format!("C16/lossy-cache-builder-denotes-another-function-than-cache-everything-builder:{}", x.kind),
                    "op #{} {:?}: with the lossy cache ({:?}) the result denotes {:?}, with the cache-everything table {:?}",
                    i,
                    op,
                    case.lru_exp,
                    gl,
                    ga
                );
                ensure!(
                    bdd_iso(pa, pl),
                    "C16/lossy-cache-builder-differs-from-cache-everything-builder",
                    "op #{} {:?}: the two builders returned structurally different diagrams: {} vs {}",
                    i,
                    op,
                    pa.to_string_debug(),
                    pl.to_string_debug()
                );
            }
            (None, None) => {}
            _ => return fail("C16/harness", "interpreters diverged".into()),
        }
    }
    // pointer-level agreement of the equality relation among all results
    for i in 0..ra.pool.len() {
        for j in (i + 1)..ra.pool.len() {
            ensure!(
                (ra.pool[i].0 == ra.pool[j].0) == (rl.pool[i].0 == rl.pool[j].0),
                "C16/lossy-cache-builder-equality-relation-differs",
                "pool entries {} and {} are {} in the cache-everything builder but {} in the lossy-cache builder",
                i,
                j,
                if ra.pool[i].0 == ra.pool[j].0 { "equal" } else { "different" },
                if rl.pool[i].0 == rl.pool[j].0 { "equal" } else { "different" }
            );
        }
    }
    let ow = rsdd::verif_hooks::lru_overwrites() - ow0;
    st.add("ite_cache_overwrites", ow);
    if ow >= 1 {
        st.mark_nontrivial();
    }
    Ok(())
}

impl SubCheckT for BddDiff {
    type Case = DiffCase;
    const NAME: &'static str = "bdd_differential";
    const RULE: &'static str = "the same <=50-op BDD history on RobddBuilder<AllIteTable>, RobddBuilder<LruIteTable> with 1..16 slots (hook) or the default size, and a builder whose apply table (a harness type implementing the public IteTable trait) remembers nothing, same random order: the two caching builders return diagrams isomorphic to the cache-free one; every pair of results denotes the same function and is structurally isomorphic (simultaneous walk), and the pointer-equality relation among all results is the same in both builders. Non-trivial: at least one overwrite happened in the lossy ITE cache (hook counter)";
    fn cases(tier: Tier) -> u32 {
        tier.pick(6000, 80_000)
    }
    fn strategy(_tier: Tier) -> BoxedStrategy<DiffCase> {
        (
            1u8..=6,
            order_keys_strategy(),
            prop_oneof![1 => Just(None), 6 => (0u8..5).prop_map(Some)],
            prop_oneof![1 => Just(None), 4 => (1u16..=64).prop_map(Some)],
            ops_strategy(50),
        )
            .prop_map(|(n0, order_keys, lru_exp, table_cap, ops)| DiffCase {
                n0,
                order_keys,
                lru_exp,
                table_cap,
                ops,
            })
            .boxed()
    }
    fn run(case: &DiffCase, st: &mut Stats) -> CaseResult {
        run_diff(case, st)
    }
}

// ---------------------------------------------------------------------------
// 3. SDD apply / ite caches: warm repetition and cold recomputation
// ---------------------------------------------------------------------------

#[derive(Clone, Debug, Serialize, Deserialize)]
pub struct SddCacheCase {
    pub vt: VtreeCase,
    pub ops: Vec<SOp>,
    pub gap: u8,
    pub cold: Vec<u16>,
    pub table_cap: Option<u16>,
}

pub struct SddCaches;

pub fn run_sdd_caches(case: &SddCacheCase, st: &mut Stats) -> CaseResult {
    let b = make_builder(&case.vt, true, case.table_cap);
    let shape = case.vt.shape();
    let mut run = SddRun::new(&b, shape.leaves());
    let base = run.pool.len();
    // warm: every op is issued, then after `gap` further ops issued again (answered by app_cache / ite_cache)
    let gap = 1 + (case.gap % 4) as usize;
    let mut steps: Vec<(usize, Vec<usize>, SOp)> = Vec::new(); // (pool idx, args, op)
    let mut repeats = 0u64;
    // results of the sibling operations issued together on one (f, v, g): pool idx of the op -> every result in order
    let mut warm_siblings: std::collections::BTreeMap<usize, Vec<(&'static str, SddPtr, Tt)>> = std::collections::BTreeMap::new();
    for (i, op) in case.ops.iter().enumerate() {
        if let Some(out) = run.step(op) {
            steps.push((out.idx, out.args.clone(), op.clone()));
            let (p, t) = run.pool[out.idx];
            if sdd_tt(p) != t {
                st.bump("result_differs_from_oracle_function(C03's concern)");
            }
            if matches!(op, SOp::Siblings(..)) {
                warm_siblings.insert(out.idx, run.last_siblings.clone());
            }
        }
        if i >= gap {
            // re-issue the op from `gap` steps ago against the same pool prefix
            let (idx, old_args, old) = match steps.iter().rev().find(|(idx, _, _)| *idx + gap < run.pool.len()) {
                Some(s) => s.clone(),
                None => continue,
            };
            // re-running an op means: same arguments (by pool index) -> must give the pointer recorded at idx
            let saved_len = run.pool.len();
            let mut prefix = SddRun { b: &b, pool: run.pool[..idx].to_vec(), labels: run.labels.clone(), forced_operands: None, emb: run.emb, sibling_fault: None, last_siblings: Vec::new(), siblings_only: None };
            if matches!(old, SOp::AndDisjoint(..) | SOp::OrDisjoint(..) | SOp::AndDisjointNeg(..) | SOp::OrDisjointNeg(..)) && old_args.len() == 2 {
                prefix.forced_operands = Some((old_args[0], old_args[1]));
            }
            if let Some(again) = prefix.step(&old) {
                let p2 = prefix.pool[again.idx].0;
                let p1 = run.pool[idx].0;
                repeats += 1;
                ensure!(
                    p1 == p2,
                    "C16/sdd-repeated-operation-returned-different-pointer",
                    "re-issuing {:?} (first computed as pool entry {}) returned {:?}, originally {:?}",
                    old,
                    idx,
                    p2,
                    p1
                );
            }
            debug_assert_eq!(saved_len, run.pool.len());
        }
    }
    // cold: selected results recomputed in a fresh builder from their dependency cone only
    let mut colds = 0u64;
    // besides the sampled results: every constant result of an if-then-else-shaped operation on decision nodes (up to
    // six per case) - a cached constant is where a lost complement flag turns true into false
    let const_targets: Vec<usize> = steps
        .iter()
        .filter(|(idx, args, op)| matches!(op, SOp::Ite(..) | SOp::Iff(..) | SOp::Xor(..)) && run.pool[*idx].0.is_const() && args.iter().any(|a| !run.pool[*a].0.is_const() && !run.pool[*a].0.is_var()))
        .map(|(idx, _, _)| *idx)
        .take(6)
        .collect();
    st.add("sdd.constant_ite_results_recomputed_cold", const_targets.len() as u64);
    let sampled: Vec<usize> = case.cold.iter().take(4).filter(|_| !steps.is_empty()).map(|sel| steps[pick(*sel, steps.len())].0).collect();
    for target in sampled.into_iter().chain(const_targets.into_iter()) {
        // dependency cone
        let mut cone: BTreeSet<usize> = BTreeSet::new();
        let mut stack = vec![target];
        while let Some(x) = stack.pop() {
            if x < base || !cone.insert(x) {
                continue;
            }
            if let Some((_, args, _)) = steps.iter().find(|(idx, _, _)| *idx == x) {
                stack.extend(args.iter().copied());
            }
        }
        let fb = make_builder(&case.vt, true, case.table_cap);
        let mut fr = SddRun::new(&fb, shape.leaves());
        for (idx, rec_args, op) in steps.iter() {
            if *idx > target {
                break;
            }
            if cone.contains(idx) {
                if matches!(op, SOp::AndDisjoint(..) | SOp::OrDisjoint(..) | SOp::AndDisjointNeg(..) | SOp::OrDisjointNeg(..)) && rec_args.len() == 2 {
                    fr.forced_operands = Some((rec_args[0], rec_args[1]));
                }
                let out = fr.step(op);
                debug_assert!(out.map(|o| o.idx) == Some(*idx));
            } else {
                // placeholder keeps pool positions aligned without touching the builder
                fr.pool.push((SddPtr::PtrTrue, Tt::TRUE));
            }
        }
        let cold = fr.pool[target].0;
        let warm = run.pool[target].0;
        colds += 1;
        ensure!(
            sdd_iso(cold, warm),
            "C16/sdd-cold-recomputation-differs",
            "pool entry {} recomputed in a fresh builder from its dependency cone {:?} is not isomorphic to the result obtained in the long-lived builder (functions {:?} vs {:?})",
            target,
            cone,
            sdd_tt(cold),
            sdd_tt(warm)
        );
    }
    // sibling operations (ite, compose, condition, exists, iff, xor, and, or on one (f, v, g), issued one after another in
    // the long-lived builder): each of their results once more alone, in a fresh builder that replays the dependency
    // cone and computes only that one sibling; a cache entry that one operation leaves for another shows here
    for (target, warm) in warm_siblings.iter().take(3) {
        let mut cone: BTreeSet<usize> = BTreeSet::new();
        let mut stack = vec![*target];
        while let Some(x) = stack.pop() {
            if x < base || !cone.insert(x) {
                continue;
            }
            if let Some((_, args, _)) = steps.iter().find(|(idx, _, _)| *idx == x) {
                stack.extend(args.iter().copied());
            }
        }
        for (j, (what, wp, _)) in warm.iter().enumerate() {
            let fb = make_builder(&case.vt, true, case.table_cap);
            let mut fr = SddRun::new(&fb, shape.leaves());
            for (idx, rec_args, op) in steps.iter() {
                if *idx > *target {
                    break;
                }
                if cone.contains(idx) {
                    if matches!(op, SOp::AndDisjoint(..) | SOp::OrDisjoint(..) | SOp::AndDisjointNeg(..) | SOp::OrDisjointNeg(..)) && rec_args.len() == 2 {
                        fr.forced_operands = Some((rec_args[0], rec_args[1]));
                    }
                    fr.siblings_only = if idx == target { Some(j) } else { None };
                    let _ = fr.step(op);
                } else {
                    fr.pool.push((SddPtr::PtrTrue, Tt::TRUE));
                }
            }
            let cold = fr.pool[*target].0;
            colds += 1;
            ensure!(
                sdd_iso(cold, *wp),
                "C16/sdd-cold-recomputation-differs",
                "{} issued as call {} of {:?} on one (f, v, g) in the long-lived builder is not isomorphic to the same operation computed alone in a fresh builder (functions {:?} vs {:?})",
                what,
                j + 1,
                warm.iter().map(|x| x.0).collect::<Vec<_>>(),
                sdd_tt(*wp),
                sdd_tt(cold)
            );
            st.bump("sdd.sibling_results_recomputed_alone");
        }
    }
    st.add("sdd.repeats", repeats);
    st.add("sdd.cold_recomputations", colds);
    if repeats >= 3 && colds >= 1 {
        st.mark_nontrivial();
    }
    Ok(())
}

impl SubCheckT for SddCaches {
    type Case = SddCacheCase;
    const NAME: &'static str = "sdd_caches";
    const RULE: &'static str = "compressing SDD builder, random vtree (<=6 variables), <=30 ops: each op is re-issued 1..4 steps later with the same arguments (now answered by app_cache / ite_cache) and must return the pointer recorded the first time; up to 4 sampled results are recomputed cold in a fresh builder that replays only their dependency cone and must be structurally isomorphic to the warm results. Non-trivial: >=3 repetitions and >=1 cold recomputation";
    fn cases(tier: Tier) -> u32 {
        tier.pick(3000, 50_000)
    }
    fn strategy(_tier: Tier) -> BoxedStrategy<SddCacheCase> {
        (
            vtree_case_strategy(6, false),
            proptest::collection::vec(sop_strategy(true, false), 0..=30),
            any::<u8>(),
            proptest::collection::vec(any::<u16>(), 4),
            prop_oneof![1 => Just(None), 3 => (1u16..=32).prop_map(Some)],
        )
            .prop_map(|(vt, ops, gap, cold, table_cap)| SddCacheCase {
                vt,
                ops,
                gap,
                cold,
                table_cap,
            })
            .boxed()
    }
    fn run(case: &SddCacheCase, st: &mut Stats) -> CaseResult {
        run_sdd_caches(case, st)
    }
}

// ---------------------------------------------------------------------------
// 4. the hash-identified SDD builder's apply cache (keyed by the product of semantic hashes)
// ---------------------------------------------------------------------------

pub struct SemanticSddCache;

pub fn run_semantic_cache(case: &SddCacheCase, st: &mut Stats) -> CaseResult {
    use rsdd::builder::sdd::SemanticSddBuilder;
    use rsdd::builder::BottomUpBuilder;
    use rsdd::constants::primes;
    type B<'a> = SemanticSddBuilder<'a, { primes::U64_LARGEST }>;
    let shape = case.vt.shape();
    let b: B = SemanticSddBuilder::new(case.vt.to_vtree());
    let mut run = SddRun::new(&b, shape.leaves());
    let base = run.pool.len();
    let gap = 1 + (case.gap % 4) as usize;
    let mut steps: Vec<(usize, Vec<usize>, SOp)> = Vec::new();
    let mut repeats = 0u64;
    for (i, op) in case.ops.iter().enumerate() {
        if let Some(out) = run.step(op) {
            steps.push((out.idx, out.args.clone(), op.clone()));
        }
        if i >= gap {
            let (idx, old_args, old) = match steps.iter().rev().find(|(idx, _, _)| *idx + gap < run.pool.len()) {
                Some(s) => s.clone(),
                None => continue,
            };
            let mut prefix = SddRun { b: &b, pool: run.pool[..idx].to_vec(), labels: run.labels.clone(), forced_operands: None, emb: run.emb, sibling_fault: None, last_siblings: Vec::new(), siblings_only: None };
            if matches!(old, SOp::AndDisjoint(..) | SOp::OrDisjoint(..) | SOp::AndDisjointNeg(..) | SOp::OrDisjointNeg(..)) && old_args.len() == 2 {
                prefix.forced_operands = Some((old_args[0], old_args[1]));
            }
            if let Some(again) = prefix.step(&old) {
                let p2 = prefix.pool[again.idx].0;
                let p1 = run.pool[idx].0;
                repeats += 1;
                // identity in this builder is equality of semantic hashes: the cached answer must be the same
                // function as the first one, and be judged equal to it
                ensure!(
                    sdd_tt(p1) == sdd_tt(p2) && b.eq(p1, p2),
                    "C16/semantic-sdd-repeated-operation-returned-another-result",
                    "re-issuing {:?} (first computed as pool entry {}) returned a diagram denoting {:?}, originally {:?} (eq = {})",
                    old,
                    idx,
                    sdd_tt(p2),
                    sdd_tt(p1),
                    b.eq(p1, p2)
                );
            }
        }
    }
    // cold: sampled results recomputed in a fresh builder from their dependency cone only
    let mut colds = 0u64;
    for sel in case.cold.iter().take(4) {
        if steps.is_empty() {
            break;
        }
        let (target, _, _) = steps[pick(*sel, steps.len())].clone();
        let mut cone: BTreeSet<usize> = BTreeSet::new();
        let mut stack = vec![target];
        while let Some(x) = stack.pop() {
            if x < base || !cone.insert(x) {
                continue;
            }
            if let Some((_, args, _)) = steps.iter().find(|(idx, _, _)| *idx == x) {
                stack.extend(args.iter().copied());
            }
        }
        let fb: B = SemanticSddBuilder::new(case.vt.to_vtree());
        let mut fr = SddRun::new(&fb, shape.leaves());
        for (idx, rec_args, op) in steps.iter() {
            if *idx > target {
                break;
            }
            if cone.contains(idx) {
                if matches!(op, SOp::AndDisjoint(..) | SOp::OrDisjoint(..) | SOp::AndDisjointNeg(..) | SOp::OrDisjointNeg(..)) && rec_args.len() == 2 {
                    fr.forced_operands = Some((rec_args[0], rec_args[1]));
                }
                let _ = fr.step(op);
            } else {
                fr.pool.push((SddPtr::PtrTrue, Tt::TRUE));
            }
        }
        let cold = fr.pool[target].0;
        let warm = run.pool[target].0;
        colds += 1;
        ensure!(
            sdd_tt(cold) == sdd_tt(warm),
            "C16/semantic-sdd-cold-recomputation-differs",
            "pool entry {} recomputed in a fresh hash-identified builder from its dependency cone {:?} denotes {:?}, the long-lived builder's result {:?}",
            target,
            cone,
            sdd_tt(cold),
            sdd_tt(warm)
        );
    }
    st.add("semantic_sdd.repeats", repeats);
    st.add("semantic_sdd.cold_recomputations", colds);
    if repeats >= 3 && colds >= 1 {
        st.mark_nontrivial();
    }
    Ok(())
}

impl SubCheckT for SemanticSddCache {
    type Case = SddCacheCase;
    const NAME: &'static str = "semantic_sdd_cache";
    const RULE: &'static str = "SemanticSddBuilder over GF(2^64-25), random vtree (<=5 variables), <=30 ops from {literal, constant, not, and, or, condition, exists}: each op is re-issued 1..4 steps later (answered by the apply cache keyed by the product of semantic hashes) and must return a diagram of the same function that the builder judges equal to the first answer; up to 4 sampled results are recomputed cold in a fresh builder from their dependency cone and must denote the same function. Non-trivial: >=3 repetitions and >=1 cold recomputation";
    fn cases(tier: Tier) -> u32 {
        tier.pick(3000, 50_000)
    }
    fn strategy(_tier: Tier) -> BoxedStrategy<SddCacheCase> {
        (
            vtree_case_strategy(5, false),
            proptest::collection::vec(sop_strategy(false, false), 0..=30),
            any::<u8>(),
            proptest::collection::vec(any::<u16>(), 4),
        )
            .prop_map(|(vt, ops, gap, cold)| SddCacheCase { vt, ops, gap, cold, table_cap: None })
            .boxed()
    }
    fn run(case: &SddCacheCase, st: &mut Stats) -> CaseResult {
        run_semantic_cache(case, st)
    }
}

// ---------------------------------------------------------------------------
// SDD apply cache with tens of thousands of entries
// ---------------------------------------------------------------------------

#[derive(Clone, Debug, Serialize, Deserialize)]
pub struct BigCacheCase {
    pub nv: u8,
    pub seed: u64,
    /// and / or applications issued before the compared ones
    pub warm: u16,
    /// even: right-linear, odd: balanced vtree (left-linear vtrees are left out: with deeply nested primes the library's
    /// structural comparison of SDD pointers is exponential, a single case ran for minutes; time is never a verdict)
    pub vt_kind: u8,
}

pub struct SddBigCache;

pub fn run_big_cache(case: &BigCacheCase, st: &mut Stats) -> CaseResult {
    use rsdd::builder::sdd::{CompressionSddBuilder, SddBuilder};
    use rsdd::builder::BottomUpBuilder;
    use rsdd::repr::{DDNNFPtr, VTree, VarLabel};
    let n = (case.nv as usize).clamp(8, 11);
    fn shape(labels: &[usize], kind: u8) -> VTree {
        if labels.len() == 1 {
            return VTree::new_leaf(VarLabel::new_usize(labels[0]));
        }
        let at = if kind % 2 == 0 { 1 } else { labels.len() / 2 };
        VTree::new_node(Box::new(shape(&labels[..at], kind)), Box::new(shape(&labels[at..], kind)))
    }
    let labels = crate::big::permutation(case.seed ^ 0x7EE, n);
    let warm_b = CompressionSddBuilder::new(shape(&labels, case.vt_kind));
    let mut pool: Vec<SddPtr> = (0..n).flat_map(|v| [warm_b.var(VarLabel::new_usize(v), true), warm_b.var(VarLabel::new_usize(v), false)]).collect();
    let pick = |k: u64, len: usize| -> usize {
        let r = splitmix(case.seed ^ k);
        // two picks in three among the latest 48 entries
        if r % 3 != 0 && len > 48 {
            len - 1 - (r >> 8) as usize % 48
        } else {
            (r >> 8) as usize % len
        }
    };
    let mut applications = 0u64;
    for i in 0..case.warm as u64 {
        let (a, b2) = (pool[pick(i * 4, pool.len())], pool[pick(i * 4 + 1, pool.len())]);
        let r = match splitmix(case.seed ^ (i * 4 + 2)) % 5 {
            0 | 1 => warm_b.and(a, b2),
            2 | 3 => warm_b.or(a, b2),
            _ => warm_b.and(a.neg(), b2),
        };
        applications += 1;
        if !r.is_const() {
            pool.push(r);
        }
    }
    let total = 1usize << n;
    let table = |p: SddPtr| -> Vec<bool> { (0..total).map(|a| crate::big::sdd_eval(p, &(0..n).map(|i| (a >> i) & 1 == 1).collect::<Vec<_>>())).collect() };
    // the same function in a builder that has computed nothing else: Shannon expansion of the table
    fn rebuild<'a>(cb: &'a CompressionSddBuilder<'a>, t: &[bool], n: usize) -> SddPtr<'a> {
        let mut layer: Vec<SddPtr<'a>> = t.iter().map(|x| if *x { cb.true_ptr() } else { cb.false_ptr() }).collect();
        for v in (0..n).rev() {
            let half = 1usize << v;
            let x = cb.var(VarLabel::new_usize(v), true);
            layer = (0..half).map(|a| cb.ite(x, layer[a | half], layer[a])).collect();
        }
        layer[0]
    }
    let mut compared = 0u64;
    for t in 0..16u64 {
        let a = pool[pick(0xA000 + t * 3, pool.len())];
        let x = pool[pick(0xA001 + t * 3, pool.len())];
        // b implies a; or(a, b) first, then and(a, b), which no earlier call has asked for
        let b2 = if t % 2 == 0 { warm_b.and(a, x) } else { x };
        let w_or = warm_b.or(a, b2);
        let w_and = warm_b.and(a, b2);
        let w_and_neg = warm_b.and(a.neg(), b2);
        let (ta, tb) = (table(a), table(b2));
        let cold_b = CompressionSddBuilder::new(shape(&labels, case.vt_kind));
        let (ca, cb2) = (rebuild(&cold_b, &ta, n), rebuild(&cold_b, &tb, n));
        for (what, warm_r, cold_r) in [("or(a, b)", w_or, cold_b.or(ca, cb2)), ("and(a, b)", w_and, cold_b.and(ca, cb2)), ("and(!a, b)", w_and_neg, cold_b.and(ca.neg(), cb2))] {
            let (tw, tc) = (table(warm_r), table(cold_r));
            ensure!(
                tw == tc,
                "C16/sdd-cache-changes-a-result:large-cache",
                "{} after {} and / or applications on one builder ({} variables) denotes another function than the same operation on the same two functions in a builder that has computed nothing else (they differ on {} of {} assignments; b {} a)",
                what,
                applications,
                n,
                (0..total).filter(|i| tw[*i] != tc[*i]).count(),
                total,
                if t % 2 == 0 { "implies" } else { "is unrelated to" }
            );
            compared += 1;
        }
        applications += 4;
    }
    st.add("bigcache.operations_compared_with_a_cold_builder", compared);
    st.add("bigcache.warm_applications", case.warm as u64);
    st.flag("bigcache.pool_above_1000_diagrams", pool.len() > 1000);
    if pool.len() > 200 {
        st.mark_nontrivial();
    }
    Ok(())
}

impl SubCheckT for SddBigCache {
    type Case = BigCacheCase;
    const NAME: &'static str = "sdd_large_apply_cache";
    const RULE: &'static str = "one compressing SDD builder over 8..11 variables (right-linear or balanced vtree over a random leaf order) issues 4 000..12 000 and / or applications on a growing pool (tens of thousands of apply-cache entries), then 16 times or(a, b), and(a, b) and and(!a, b) for pool entries a, b (b = a & x in half of them, so that one operand implies the other): each result denotes, on all 2^n assignments read by the harness's walk, the same function as the same operation in a fresh builder in which only a and b were rebuilt from their truth tables. Non-trivial: a pool of more than 200 diagrams";
    fn cases(tier: Tier) -> u32 {
        tier.pick(24, 480)
    }
    fn strategy(_tier: Tier) -> BoxedStrategy<BigCacheCase> {
        (8u8..=11, any::<u64>(), 4000u16..=12000, 0u8..2).prop_map(|(nv, seed, warm, vt_kind)| BigCacheCase { nv, seed, warm, vt_kind }).boxed()
    }
    fn run(case: &BigCacheCase, st: &mut Stats) -> CaseResult {
        run_big_cache(case, st)
    }
}

pub fn property() -> Property {
    Property {
        id: "C16",
        subs: vec![sub::<LruDirect>(), sub::<LruLarge>(), sub::<BddDiff>(), sub::<SddCaches>(), sub::<SemanticSddCache>(), sub::<SddBigCache>()],
        fuzz: vec![FuzzSpec { target: "tables", runs: 150000, max_len: 500 }],
        assumptions: vec![
            "per-key hashes are functions of the key (as every caller computes them)",
            "the lossy cache is allowed to forget; hits are counted so that a cache forgetting everything is visible in the evidence",
        ],
        nt_floor_percent: 10,
    }
}
