//! C07 — weighted model counts equal the semiring sum over models.
use crate::bddi::{order_keys_strategy, perm_from_keys};
use crate::engine::*;
use crate::fnsrc::*;
use crate::oracle::mulmod;
use crate::semi::*;
use crate::tt::Tt;
use crate::vtgen::*;
use crate::walk::*;
use proptest::prelude::*;
use rsdd::builder::bdd::RobddBuilder;
use rsdd::builder::cache::AllIteTable;
use rsdd::builder::decision_nnf::{DecisionNNFBuilder, SemanticDecisionNNFBuilder, StandardDecisionNNFBuilder};
use rsdd::builder::sdd::{CompressionSddBuilder, SddBuilder};
use rsdd::builder::BottomUpBuilder;
use rsdd::constants::primes;
use rsdd::repr::{BddPtr, DDNNFPtr, SddPtr, VarLabel, VarOrder, WmcParams};
use rsdd::util::semirings::{
    BooleanSemiring, Complex, ExpectedUtility, FiniteField, Polynomial, RationalSemiring, RealSemiring, Semiring, MAX_COEFFS,
};
use serde::{Deserialize, Serialize};
use std::fmt::Debug;

#[derive(Clone, Debug, Serialize, Deserialize)]
pub struct Case {
    pub src: FnSrc,
    pub orders: Vec<Vec<u16>>,
    pub vts: Vec<VtreeCase>,
    /// per variable: four selector bytes from which every semiring's weights are derived
    pub wsel: Vec<[u8; 4]>,
    /// how the weight tables are built: 0 set_weight ascending, 1 descending, 2 WmcParams::new(dense map),
    /// 3 placeholder values first, then overwritten in a scrambled order
    #[serde(default)]
    pub wmode: u8,
}

#[derive(Clone, Copy)]
pub enum Rep<'a> {
    B(BddPtr<'a>),
    S(SddPtr<'a>),
}

pub struct RepInfo<'a> {
    pub name: String,
    pub rep: Rep<'a>,
    pub tt: Tt,
    /// for canonical BDDs: level -> label
    pub order: Option<Vec<usize>>,
}

fn wmc_of<'a, T: Semiring + 'static>(r: Rep<'a>, p: &WmcParams<T>) -> T {
    match r {
        Rep::B(b) => b.unsmoothed_wmc(p),
        Rep::S(s) => s.unsmoothed_wmc(p),
    }
}

thread_local! {
    static WMODE: std::cell::Cell<u8> = const { std::cell::Cell::new(0) };
}

/// build a weight table for labels 0..n in the way selected by the case (the result must not depend on it)
fn params_of<T: Semiring>(n: usize, w: &dyn Fn(usize, bool) -> T) -> WmcParams<T> {
    // after the table is complete, 0..2 of its entries are set once more to the value they have (the number cycles from
    // table to table): tables of one case then differ in content while having seen the same number of updates
    thread_local! {
        static CALLS: std::cell::Cell<usize> = const { std::cell::Cell::new(0) };
    }
    let extra = CALLS.with(|c| {
        c.set(c.get().wrapping_add(1));
        [0usize, 1, 0, 2, 1][c.get() % 5]
    });
    let mut p = params_of_plain(n, w);
    for v in 0..extra.min(n) {
        p.set_weight(VarLabel::new_usize(v), w(v, false), w(v, true));
    }
    p
}

fn params_of_plain<T: Semiring>(n: usize, w: &dyn Fn(usize, bool) -> T) -> WmcParams<T> {
    let mode = WMODE.with(|m| m.get()) % 4;
    match mode {
        1 => {
            let mut p = WmcParams::<T>::default();
            for v in (0..n).rev() {
                p.set_weight(VarLabel::new_usize(v), w(v, false), w(v, true));
            }
            p
        }
        2 => {
            let map: std::collections::HashMap<VarLabel, (T, T)> =
                (0..n).map(|v| (VarLabel::new_usize(v), (w(v, false), w(v, true)))).collect();
            WmcParams::new(map)
        }
        3 => {
            let mut p = WmcParams::<T>::default();
            // placeholders (the weights of another variable), then the real values in a scrambled order
            for v in 0..n {
                let o = (v + 1) % n;
                p.set_weight(VarLabel::new_usize(v), w(o, true), w(o, false));
            }
            for k in 0..n {
                let v = (k * 5 + 3) % n;
                p.set_weight(VarLabel::new_usize(v), w(v, false), w(v, true));
            }
            // (k*5+3) mod n is a permutation only when gcd(5, n) = 1; finish with a plain sweep for n = 5
            if n % 5 == 0 {
                for v in 0..n {
                    p.set_weight(VarLabel::new_usize(v), w(v, false), w(v, true));
                }
            }
            p
        }
        _ => {
            let mut p = WmcParams::<T>::default();
            for v in 0..n {
                p.set_weight(VarLabel::new_usize(v), w(v, false), w(v, true));
            }
            p
        }
    }
}

/// normalised weights: every representation's count = brute force over the n variables
#[allow(clippy::too_many_arguments)]
fn check_normalised<'a, T: Semiring + 'static, W: Clone + PartialEq + Debug>(
    name: &str,
    reps: &[RepInfo<'a>],
    n: usize,
    lib_w: &dyn Fn(usize, bool) -> T,
    ref_w: &dyn Fn(usize, bool) -> W,
    ops: &Ops<W>,
    conv: &dyn Fn(T) -> W,
) -> CaseResult {
    let params = params_of(n, lib_w);
    let vars: Vec<usize> = (0..n).collect();
    let mut cache: Vec<(Tt, W)> = Vec::new();
    for r in reps.iter() {
        let want = match cache.iter().find(|(t, _)| *t == r.tt) {
            Some((_, w)) => w.clone(),
            None => {
                let w = brute_force(r.tt, &vars, ref_w, ops);
                cache.push((r.tt, w.clone()));
                w
            }
        };
        let got = conv(wmc_of(r.rep, &params));
        ensure!(
            got == want,
            format!("C07/normalised-count:{}", name),
            "{} count of representation '{}' is {:?}; the sum over the models of {:?} (n = {}) is {:?}",
            name,
            r.name,
            got,
            r.tt,
            n,
            want
        );
    }
    Ok(())
}

/// arbitrary weights: canonical BDDs count the order-aware unsmoothed sum
fn check_unsmoothed<'a, T: Semiring + 'static, W: Clone + PartialEq + Debug>(
    name: &str,
    reps: &[RepInfo<'a>],
    n: usize,
    lib_w: &dyn Fn(usize, bool) -> T,
    ref_w: &dyn Fn(usize, bool) -> W,
    ops: &Ops<W>,
    conv: &dyn Fn(T) -> W,
) -> CaseResult {
    let params = params_of(n, lib_w);
    for r in reps.iter() {
        let Some(order) = &r.order else { continue };
        let want = order_aware_unsmoothed(r.tt, order, ref_w, ops);
        let got = conv(wmc_of(r.rep, &params));
        ensure!(
            got == want,
            format!("C07/arbitrary-weights-bdd-count:{}", name),
            "{} count of BDD '{}' under arbitrary weights is {:?}; the sum over the variables each sub-function depends on (order {:?}) of {:?} is {:?}",
            name,
            r.name,
            got,
            order,
            r.tt,
            want
        );
    }
    Ok(())
}

fn ff_part<'a, const P: u128>(reps: &[RepInfo<'a>], n: usize, wsel: &[[u8; 4]]) -> CaseResult {
    let res = |v: usize| -> u128 {
        let s = wsel[v];
        match s[0] % 6 {
            0 => 0,
            1 => 1,
            2 => P - 1,
            3 => P / 2,
            _ => (((s[0] as u128) << 88) ^ ((s[1] as u128) << 61) ^ ((s[2] as u128) << 33) ^ ((s[3] as u128) << 7) ^ 0x1234_5678_9abc) % P,
        }
    };
    let ops = Ops::<u128> {
        zero: 0,
        one: 1 % P,
        add: &|a, b| (a + b) % P,
        mul: &|a, b| mulmod(*a, *b, P),
    };
    // normalised: high = r, low = 1 - r
    let lw = |v: usize, b: bool| -> FiniteField<P> {
        let r = res(v);
        if b {
            FiniteField::new(r)
        } else {
            FiniteField::new((P + 1 - r) % P)
        }
    };
    let rw = |v: usize, b: bool| -> u128 {
        let r = res(v);
        if b {
            r
        } else {
            (P + 1 - r) % P
        }
    };
    check_normalised(&format!("finite-field({})", P), reps, n, &lw, &rw, &ops, &|x: FiniteField<P>| x.value())?;
    // arbitrary: low = res(v) + 3, high = res(v) * 5 + 1
    let lw2 = |v: usize, b: bool| -> FiniteField<P> {
        let r = res(v);
        FiniteField::new(if b { mulmod(r, 5, P) + 1 } else { r + 3 })
    };
    let rw2 = |v: usize, b: bool| -> u128 {
        let r = res(v);
        (if b { mulmod(r, 5, P) + 1 } else { r + 3 }) % P
    };
    check_unsmoothed(&format!("finite-field({})", P), reps, n, &lw2, &rw2, &ops, &|x: FiniteField<P>| x.value())
}

fn poly_ref_mul(a: &Vec<f64>, b: &Vec<f64>) -> Vec<f64> {
    let mut r = vec![0.0; MAX_COEFFS];
    for i in 0..MAX_COEFFS {
        if a[i] == 0.0 {
            continue;
        }
        for j in 0..MAX_COEFFS - i {
            r[i + j] += a[i] * b[j];
        }
    }
    r
}

fn nat(n: u8) -> RationalSemiring {
    let mut r = RationalSemiring::zero();
    for _ in 0..n {
        r = r + RationalSemiring::one();
    }
    r
}

pub fn run_case(case: &Case, st: &mut Stats) -> CaseResult {
    let n = case.src.n();
    let t = case.src.tt();
    WMODE.with(|m| m.set(case.wmode));
    st.bump(&format!("weight_table_mode.{}", case.wmode % 4));
    let wsel: Vec<[u8; 4]> = (0..n).map(|v| case.wsel.get(v).copied().unwrap_or([1, 2, 3, 4])).collect();
    rsdd::verif_hooks::set_unique_table_capacity(Some(64));
    // --- representations -------------------------------------------------
    let orders: Vec<Vec<usize>> = case.orders.iter().take(3).map(|k| perm_from_keys(k, n)).collect();
    let bbs: Vec<RobddBuilder<AllIteTable<BddPtr>>> = orders
        .iter()
        .map(|o| RobddBuilder::new(VarOrder::new(&o.iter().map(|v| VarLabel::new_usize(*v)).collect::<Vec<_>>())))
        .collect();
    let vts: Vec<VtreeCase> = case
        .vts
        .iter()
        .take(2)
        .map(|v| {
            let mut v = v.clone();
            v.k = n as u8;
            v.stride = 1;
            v.offset = 0;
            v
        })
        .collect();
    let mut sbs: Vec<CompressionSddBuilder> = vts.iter().map(|v| CompressionSddBuilder::new(v.to_vtree())).collect();
    if sbs.len() >= 2 && n <= 4 {
        sbs[1].set_compression(false);
    }
    let lin = VarOrder::new(&orders.first().cloned().unwrap_or_else(|| (0..n).collect()).iter().map(|v| VarLabel::new_usize(*v)).collect::<Vec<_>>());
    let std_b = StandardDecisionNNFBuilder::new(lin.clone());
    let sem_b = SemanticDecisionNNFBuilder::<{ primes::U64_LARGEST }>::new(lin);
    let ssb = rsdd::builder::sdd::SemanticSddBuilder::<{ primes::U64_LARGEST }>::new(
        vts.first().map(|v| v.to_vtree()).unwrap_or_else(|| rsdd::repr::VTree::new_leaf(VarLabel::new_usize(0))),
    );
    rsdd::verif_hooks::set_unique_table_capacity(None);

    let mut reps: Vec<RepInfo> = Vec::new();
    for (i, b) in bbs.iter().enumerate() {
        let f = bdd_from_tt(b, t, n);
        // counts are held to the function the diagram actually denotes (read by walking it): whether the
        // builder produced the requested function is C01's concern
        let ft = bdd_tt(f);
        st.flag("rep_differs_from_requested_function(C01/C03/C06's concern)", ft != t);
        reps.push(RepInfo {
            name: format!("bdd(order {:?})", orders[i]),
            rep: Rep::B(f),
            tt: ft,
            order: Some(orders[i].clone()),
        });
        reps.push(RepInfo {
            name: format!("negated bdd(order {:?})", orders[i]),
            rep: Rep::B(f.neg()),
            tt: ft.not(),
            order: Some(orders[i].clone()),
        });
    }
    // a smoothed BDD (don't-care nodes with two equal children) is a diagram the library produces as well: every
    // normalised count and every evaluation, asked again and again with other weights and assignments, must hold on it
    if let Some(b) = bbs.first() {
        let f = bdd_from_tt(b, t, n);
        let ns = n - (case.orders.first().and_then(|k| k.first()).copied().unwrap_or(0) as usize % 2).min(n);
        let deepest = orders[0].iter().rposition(|v| bdd_tt(f).depends(*v)).map(|p| p + 1).unwrap_or(0);
        let s = b.smooth(f, ns.max(deepest));
        let stt = bdd_tt(s);
        st.flag("rep_differs_from_requested_function(C01/C03/C06's concern)", stt != t);
        reps.push(RepInfo { name: format!("smoothed bdd(order {:?}, {} levels)", orders[0], ns.max(deepest)), rep: Rep::B(s), tt: stt, order: None });
        reps.push(RepInfo { name: "negated smoothed bdd".into(), rep: Rep::B(s.neg()), tt: stt.not(), order: None });
        st.bump("smoothed_bdd_reps");
    }
    for (i, b) in sbs.iter().enumerate() {
        let f = sdd_from_tt(b, t, n);
        let ft = sdd_tt(f);
        st.flag("rep_differs_from_requested_function(C01/C03/C06's concern)", ft != t);
        reps.push(RepInfo {
            name: format!("sdd(vtree {:?}{})", vts[i].shape(), if i == 1 && n <= 4 { ", uncompressed" } else { "" }),
            rep: Rep::S(f),
            tt: ft,
            order: None,
        });
        reps.push(RepInfo {
            name: format!("negated sdd(vtree {:?})", vts[i].shape()),
            rep: Rep::S(f.neg()),
            tt: ft.not(),
            order: None,
        });
    }
    // an SDD from the hash-identified builder (64-bit field): complemented, untrimmed, uncompressed nodes
    if let Some(v) = vts.first() {
        let f = sdd_from_tt(&ssb, t, n);
        let ft = sdd_tt(f);
        st.flag("rep_differs_from_requested_function(C01/C03/C06's concern)", ft != t);
        reps.push(RepInfo { name: format!("sdd(semantic builder, vtree {:?})", v.shape()), rep: Rep::S(f), tt: ft, order: None });
        reps.push(RepInfo { name: "negated sdd(semantic builder)".into(), rep: Rep::S(f.neg()), tt: ft.not(), order: None });
        st.bump("semantic_sdd_reps");
    }
    if let Some(c) = case.src.cnf() {
        let cnf = c.to_rsdd();
        let d1 = std_b.compile_cnf_topdown(&cnf);
        let d2 = sem_b.compile_cnf_topdown(&cnf);
        // C06 decides whether these denote the CNF; here they are counted as what they denote
        for (nm, d) in [("top-down(standard)", d1), ("top-down(semantic)", d2)] {
            let dt = bdd_tt(d);
            st.flag("rep_differs_from_requested_function(C01/C03/C06's concern)", dt != t);
            reps.push(RepInfo { name: nm.into(), rep: Rep::B(d), tt: dt, order: None });
            reps.push(RepInfo { name: format!("negated {}", nm), rep: Rep::B(d.neg()), tt: dt.not(), order: None });
        }
        st.bump("topdown_reps");
    }

    // --- Boolean evaluation ------------------------------------------------
    for a in 0..(1usize << n) {
        let asg: Vec<bool> = (0..n).map(|i| (a >> i) & 1 == 1).collect();
        for r in reps.iter() {
            let got = match r.rep {
                Rep::B(b) => b.evaluate(&asg),
                Rep::S(s) => s.evaluate(&asg),
            };
            ensure!(
                got == r.tt.get(a),
                "C07/evaluate",
                "evaluate({:?}) on '{}' = {} but the function {:?} is {} there",
                asg,
                r.name,
                got,
                r.tt,
                r.tt.get(a)
            );
        }
    }

    // --- real ----------------------------------------------------------------
    let fops = Ops::<f64> { zero: 0.0, one: 1.0, add: &|a, b| a + b, mul: &|a, b| a * b };
    let rw = |v: usize, b: bool| -> f64 {
        let k = (wsel[v][0] % 9) as f64 / 8.0;
        if b {
            k
        } else {
            1.0 - k
        }
    };
    check_normalised("real", &reps, n, &|v, b| RealSemiring(rw(v, b)), &rw, &fops, &|x: RealSemiring| x.0)?;
    let rw2 = |v: usize, b: bool| -> f64 {
        if b {
            (wsel[v][1] % 6) as f64
        } else {
            (wsel[v][2] % 6) as f64
        }
    };
    check_unsmoothed("real", &reps, n, &|v, b| RealSemiring(rw2(v, b)), &rw2, &fops, &|x: RealSemiring| x.0)?;

    // --- finite fields ----------------------------------------------------------
    ff_part::<{ primes::U32_TINY }>(&reps, n, &wsel)?;
    ff_part::<{ primes::U32_SMALL }>(&reps, n, &wsel)?;
    ff_part::<{ primes::U64_LARGEST }>(&reps, n, &wsel)?;
    ff_part::<{ primes::U128_LARGE_1 }>(&reps, n, &wsel)?;
    ff_part::<{ primes::U128_LARGE_2 }>(&reps, n, &wsel)?;
    ff_part::<{ primes::U128_LARGE_3 }>(&reps, n, &wsel)?;
    ff_part::<{ primes::U128_LARGE_4 }>(&reps, n, &wsel)?;
    // the finite-field semiring is generic in its modulus: two primes that are not among the exported constants,
    // above the 96-bit ones (products need up to 254 bits)
    ff_part::<{ (1u128 << 107) - 1 }>(&reps, n, &wsel)?;
    ff_part::<{ (1u128 << 127) - 1 }>(&reps, n, &wsel)?;

    // --- Boolean semiring with indicator weights = evaluate; plus unsmoothed with arbitrary booleans
    let bops = Ops::<bool> { zero: false, one: true, add: &|a, b| *a || *b, mul: &|a, b| *a && *b };
    let bw = |v: usize, b: bool| -> bool { ((wsel[v][3] >> if b { 0 } else { 1 }) & 1) == 1 };
    check_unsmoothed("boolean", &reps, n, &|v, b| BooleanSemiring(bw(v, b)), &bw, &bops, &|x: BooleanSemiring| x.0)?;

    // --- expected utility: low = (1-p, -u), high = (p, u) -------------------------
    let eops = Ops::<(f64, f64)> {
        zero: (0.0, 0.0),
        one: (1.0, 0.0),
        add: &|a, b| (a.0 + b.0, a.1 + b.1),
        mul: &|a, b| (a.0 * b.0, a.0 * b.1 + a.1 * b.0),
    };
    let ew = |v: usize, b: bool| -> (f64, f64) {
        let p = (wsel[v][0] % 9) as f64 / 8.0;
        let u = ((wsel[v][1] % 9) as f64 - 4.0) / 2.0;
        if b {
            (p, u)
        } else {
            (1.0 - p, -u)
        }
    };
    check_normalised(
        "expected-utility",
        &reps,
        n,
        &|v, b| {
            let (p, u) = ew(v, b);
            ExpectedUtility(p, u)
        },
        &ew,
        &eops,
        &|x: ExpectedUtility| (x.0, x.1),
    )?;
    let ew2 = |v: usize, b: bool| -> (f64, f64) {
        if b {
            ((wsel[v][1] % 4) as f64, (wsel[v][2] % 5) as f64 - 2.0)
        } else {
            ((wsel[v][3] % 4) as f64 / 2.0, (wsel[v][0] % 5) as f64)
        }
    };
    check_unsmoothed(
        "expected-utility",
        &reps,
        n,
        &|v, b| {
            let (p, u) = ew2(v, b);
            ExpectedUtility(p, u)
        },
        &ew2,
        &eops,
        &|x: ExpectedUtility| (x.0, x.1),
    )?;

    // --- complex: high = a + bi, low = (1 - a) - bi ---------------------------------
    let cops = Ops::<(f64, f64)> {
        zero: (0.0, 0.0),
        one: (1.0, 0.0),
        add: &|a, b| (a.0 + b.0, a.1 + b.1),
        mul: &|a, b| (a.0 * b.0 - a.1 * b.1, a.0 * b.1 + a.1 * b.0),
    };
    let cw = |v: usize, b: bool| -> (f64, f64) {
        let a = ((wsel[v][2] % 17) as f64 - 8.0) / 8.0;
        let bi = ((wsel[v][3] % 9) as f64 - 4.0) / 4.0;
        if b {
            (a, bi)
        } else {
            (1.0 - a, -bi)
        }
    };
    check_normalised(
        "complex",
        &reps,
        n,
        &|v, b| {
            let (re, im) = cw(v, b);
            Complex { re, im }
        },
        &cw,
        &cops,
        &|x: Complex| (x.re, x.im),
    )?;
    let cw2 = |v: usize, b: bool| -> (f64, f64) {
        if b {
            ((wsel[v][0] % 5) as f64 - 2.0, (wsel[v][1] % 3) as f64)
        } else {
            ((wsel[v][2] % 3) as f64, (wsel[v][3] % 5) as f64 - 2.0)
        }
    };
    check_unsmoothed(
        "complex",
        &reps,
        n,
        &|v, b| {
            let (re, im) = cw2(v, b);
            Complex { re, im }
        },
        &cw2,
        &cops,
        &|x: Complex| (x.re, x.im),
    )?;

    // --- polynomial over reals: high = c0 + c1 x + c2 x^2, low = 1 - high ------------------
    let pops = Ops::<Vec<f64>> {
        zero: vec![0.0; MAX_COEFFS],
        one: {
            let mut o = vec![0.0; MAX_COEFFS];
            o[0] = 1.0;
            o
        },
        add: &|a, b| a.iter().zip(b.iter()).map(|(x, y)| x + y).collect(),
        mul: &|a, b| poly_ref_mul(a, b),
    };
    let pw = |v: usize, b: bool| -> Vec<f64> {
        let c = [
            (wsel[v][0] % 5) as f64 - 2.0,
            (wsel[v][1] % 5) as f64 - 2.0,
            (wsel[v][2] % 3) as f64 - 1.0,
        ];
        let mut o = vec![0.0; MAX_COEFFS];
        if b {
            o[..3].copy_from_slice(&c);
        } else {
            o[0] = 1.0 - c[0];
            o[1] = -c[1];
            o[2] = -c[2];
        }
        o
    };
    let poly_len_mode = wsel.first().map(|w| w[3] & 3).unwrap_or(0);
    st.bump(&format!("polynomial_len_encoding.{}", ["tight", "tight", "padded-to-3", "padded-to-32"][poly_len_mode as usize]));
    let to_poly = |c: Vec<f64>| -> Polynomial<RealSemiring> {
        let mut p = Polynomial::<RealSemiring>::zero();
        for (i, x) in c.iter().enumerate() {
            p.coefficients[i] = RealSemiring(*x);
        }
        // the `len` field is the number of coefficients in use: the tight encoding (degree + 1, 0 for the zero
        // polynomial) half the time, else padded with zero coefficients to 3 or to the full 32
        let tight = c.iter().rposition(|x| *x != 0.0).map(|i| i + 1).unwrap_or(0);
        p.len = match poly_len_mode {
            0 | 1 => tight,
            2 => tight.max(3),
            _ => MAX_COEFFS,
        };
        p
    };
    let from_poly = |p: Polynomial<RealSemiring>| -> Vec<f64> { p.coefficients.iter().map(|c| c.0).collect() };
    check_normalised("polynomial", &reps, n, &|v, b| to_poly(pw(v, b)), &pw, &pops, &from_poly)?;
    // sparse weights of mixed degrees: high = c0 + cd x^d with d drawn per variable from a list whose sums hit
    // every boundary of the 32-coefficient array (30, 31, 32 and beyond: 15+16, 31+0, 10+15+6, 16+16, ...);
    // the reference multiplies modulo x^32
    const DEGS: [usize; 10] = [1, 2, 3, 5, 6, 7, 10, 15, 16, 31];
    let deg = |v: usize| DEGS[(wsel[v][0] % 10) as usize];
    let pw5 = |v: usize, b: bool| -> Vec<f64> {
        let c0 = (wsel[v][1] % 3) as f64;
        let cd = 1.0 + (wsel[v][3] % 2) as f64;
        let mut o = vec![0.0; MAX_COEFFS];
        if b {
            o[0] = c0;
            o[deg(v)] = cd;
        } else {
            o[0] = 1.0 - c0;
            o[deg(v)] = -cd;
        }
        o
    };
    check_normalised("polynomial-mixed-degrees", &reps, n, &|v, b| to_poly(pw5(v, b)), &pw5, &pops, &from_poly)?;
    let total_deg: usize = (0..n).map(deg).sum();
    st.flag("polynomial_degree_sum_reaches_31", total_deg >= 31);
    st.flag("polynomial_product_truncated", total_deg >= MAX_COEFFS);
    let pw2 = |v: usize, b: bool| -> Vec<f64> {
        let mut o = vec![0.0; MAX_COEFFS];
        if b {
            o[0] = (wsel[v][3] % 3) as f64;
            o[1] = (wsel[v][0] % 3) as f64 - 1.0;
        } else {
            o[0] = (wsel[v][1] % 3) as f64 - 1.0;
            o[2] = (wsel[v][2] % 3) as f64;
        }
        o
    };
    check_unsmoothed("polynomial", &reps, n, &|v, b| to_poly(pw2(v, b)), &pw2, &pops, &from_poly)?;

    // --- rational: indicator weights (normalised) and small naturals (arbitrary) --------------
    let nops = Ops::<u64> { zero: 0, one: 1, add: &|a, b| a + b, mul: &|a, b| a * b };
    let qw = |v: usize, b: bool| -> u64 {
        let hi = wsel[v][0] & 1 == 1;
        if b == hi {
            1
        } else {
            0
        }
    };
    let lim = 60u64;
    let to_q = |x: u64| nat(x.min(lim) as u8);
    // the library value is compared by == against the same natural built from one()/zero()
    let params = params_of(n, &|v, b| to_q(qw(v, b)));
    let vars: Vec<usize> = (0..n).collect();
    for r in reps.iter() {
        let want = brute_force(r.tt, &vars, &qw, &nops);
        let got = wmc_of(r.rep, &params);
        ensure!(
            got == to_q(want),
            "C07/normalised-count:rational",
            "rational count of '{}' under indicator weights is {} but the sum over models is {}",
            r.name,
            got,
            want
        );
    }
    let qw2 = |v: usize, b: bool| -> u64 {
        if b {
            (wsel[v][1] % 3) as u64
        } else {
            (wsel[v][2] % 3) as u64
        }
    };
    let params = params_of(n, &|v, b| to_q(qw2(v, b)));
    for r in reps.iter() {
        let Some(order) = &r.order else { continue };
        let want = order_aware_unsmoothed(r.tt, order, &qw2, &nops);
        if want > lim {
            continue;
        }
        let got = wmc_of(r.rep, &params);
        ensure!(
            got == to_q(want),
            "C07/arbitrary-weights-bdd-count:rational",
            "rational count of '{}' under natural weights is {} but the order-aware sum is {}",
            r.name,
            got,
            want
        );
    }

    // scratch must be clean again on everything we counted
    for r in reps.iter() {
        let clean = match r.rep {
            Rep::B(b) => bdd_nodes(b).iter().all(|nd| BddPtr::Reg(nd).is_scratch_cleared()),
            Rep::S(s) => sdd_nodes(s).iter().all(|nd| nd.is_scratch_cleared()),
        };
        // leftovers are C10's concern: recorded only
        let _ = r.name;
        st.flag("scratch_left_behind(C10's concern)", !clean);
    }
    let f0 = match reps[0].rep {
        Rep::B(b) => b,
        _ => BddPtr::PtrTrue,
    };
    st.flag("shared_nodes", bdd_shared_nodes(f0) > 0);
    st.flag("compl_root", bdd_is_compl(f0));
    st.flag("compl_internal_edge", bdd_compl_edges(f0) > if bdd_is_compl(f0) { 1 } else { 0 });
    st.flag("from_cnf", case.src.cnf().is_some());
    st.add("representations", reps.len() as u64);
    if !t.is_const() && t.support_size() >= 3 {
        st.mark_nontrivial();
    }
    Ok(())
}

pub struct Counts;

impl SubCheckT for Counts {
    type Case = Case;
    const NAME: &'static str = "counts";
    const RULE: &'static str = "a function (random truth table over <=6 variables with a random support mask, or a random CNF over <=7) represented as BDDs under 3 random orders (regular and negated pointers), SDDs under 2 random vtrees (second one uncompressed when n<=4; regular and negated), an SDD from SemanticSddBuilder over the 64-bit field, and, for CNFs, both top-down stores (regular and negated); every representation is counted against the function read off the diagram itself; weight tables built in four ways (set_weight ascending / descending / WmcParams::new / placeholders overwritten in a scrambled order), weights whose low+high is the semiring's one: real dyadics k/8, all 7 exported finite fields plus GF(2^107-1) and GF(2^127-1) (boundary + random residues), expected utility (p,u)/(1-p,-u), complex, degree-2 integer polynomials (constants and linear ones included, `len` tight or padded) and sparse polynomials of mixed degrees 1..31 (degree sums reach and pass the 32-coefficient limit, where products are truncated), rational indicators: every count = exact brute-force sum over models; evaluate() = truth-table bit on all 2^n assignments; arbitrary non-normalised weights on the canonical BDDs = the Shannon sum over the variables each sub-function depends on (order-aware), for all seven semirings. Non-trivial: non-constant function with >=3 support variables";
    fn cases(tier: Tier) -> u32 {
        tier.pick(5000, 60_000)
    }
    fn strategy(_tier: Tier) -> BoxedStrategy<Case> {
        (
            fnsrc_strategy(),
            proptest::collection::vec(order_keys_strategy(), 3),
            proptest::collection::vec(vtree_case_strategy(7, false), 2),
            proptest::collection::vec(any::<[u8; 4]>(), 8),
            0u8..4,
        )
            .prop_map(|(src, orders, vts, wsel, wmode)| Case { src, orders, vts, wsel, wmode })
            .boxed()
    }
    fn run(case: &Case, st: &mut Stats) -> CaseResult {
        run_case(case, st)
    }
}

// ---------------------------------------------------------------------------
// product-form functions over many variables
// ---------------------------------------------------------------------------

pub struct ProductForm;

fn prod_ff<'a, const P: u128>(lay: &crate::prodform::Layout, reps: &[crate::prodform::BigRep<'a>], case: &crate::prodform::ProdCase) -> CaseResult {
    let res = |l: usize| -> u128 {
        let x = splitmix(case.seed ^ 0xFF00 ^ (l as u64).wrapping_mul(0x9E37_79B9_7F4A_7C15));
        match x % 8 {
            0 => 0,
            1 => 1,
            2 => P - 1,
            3 => P / 2,
            _ => (((x as u128) << 64) | splitmix(x) as u128) % P,
        }
    };
    let rw = |l: usize, b: bool| -> u128 {
        if b {
            res(l)
        } else {
            (P + 1 - res(l)) % P
        }
    };
    let ops = Ops::<u128> { zero: 0, one: 1 % P, add: &|a, b| (a + b) % P, mul: &|a, b| mulmod(*a, *b, P) };
    let want = lay.expected(case.disj, &rw, &ops, &|x| (P + 1 - *x) % P);
    let params = params_of(lay.total, &|l, b| FiniteField::<P>::new(rw(l, b)));
    for r in reps.iter() {
        let got = match r.ptr {
            crate::prodform::BigPtr::B(b) => b.unsmoothed_wmc(&params).value(),
            crate::prodform::BigPtr::S(s) => s.unsmoothed_wmc(&params).value(),
        };
        let w = if r.neg { (P + 1 - want) % P } else { want };
        ensure!(
            got == w,
            format!("C07/normalised-count:finite-field({})", P),
            "{} of a {} of {} blocks over {} labels ({} nodes): count over GF({}) is {}; the product form of the blocks' brute-force counts gives {}",
            r.name,
            if case.disj { "disjunction" } else { "conjunction" },
            lay.blocks.len(),
            lay.total,
            r.nodes,
            P,
            got,
            w
        );
    }
    Ok(())
}

pub fn run_product_form(case: &crate::prodform::ProdCase, st: &mut Stats) -> CaseResult {
    WMODE.with(|m| m.set((case.seed >> 7) as u8));
    crate::prodform::with_diagrams(case, st, |lay, reps, st| {
        // evaluate() against the harness's own reading of the same diagram
        for a in lay.probes(case.seed ^ 0xE7A1, 32) {
            for r in reps.iter() {
                let got = match r.ptr {
                    crate::prodform::BigPtr::B(b) => b.evaluate(&a),
                    crate::prodform::BigPtr::S(s) => s.evaluate(&a),
                };
                ensure!(
                    got == r.eval(&a),
                    "C07/evaluate",
                    "evaluate() on '{}' ({} labels, {} nodes) = {} but walking the diagram under the same assignment gives {}",
                    r.name,
                    lay.total,
                    r.nodes,
                    got,
                    r.eval(&a)
                );
            }
        }
        prod_ff::<{ primes::U32_SMALL }>(lay, reps, case)?;
        prod_ff::<{ primes::U64_LARGEST }>(lay, reps, case)?;
        prod_ff::<{ primes::U128_LARGE_1 }>(lay, reps, case)?;
        // reals: weights 1/2 (mostly), 0 and 1: every intermediate value is a multiple of 2^-40 in [0, 1], exact in f64
        let rw = |l: usize, b: bool| -> f64 {
            let x = splitmix(case.seed ^ 0x4EA1 ^ (l as u64).wrapping_mul(0x9E37_79B9_7F4A_7C15)) % 10;
            let hi = match x {
                0 => 0.0,
                1 => 1.0,
                _ => 0.5,
            };
            if b {
                hi
            } else {
                1.0 - hi
            }
        };
        let fops = Ops::<f64> { zero: 0.0, one: 1.0, add: &|a, b| a + b, mul: &|a, b| a * b };
        let want = lay.expected(case.disj, &rw, &fops, &|x| 1.0 - *x);
        let params = params_of(lay.total, &|l, b| RealSemiring(rw(l, b)));
        for r in reps.iter() {
            let got = match r.ptr {
                crate::prodform::BigPtr::B(b) => b.unsmoothed_wmc(&params).0,
                crate::prodform::BigPtr::S(s) => s.unsmoothed_wmc(&params).0,
            };
            let w = if r.neg { 1.0 - want } else { want };
            ensure!(
                got == w,
                "C07/normalised-count:real",
                "{} of a {} of {} blocks over {} labels ({} nodes): real count is {}; the product form of the blocks' brute-force counts gives {}",
                r.name,
                if case.disj { "disjunction" } else { "conjunction" },
                lay.blocks.len(),
                lay.total,
                r.nodes,
                got,
                w
            );
        }
        if reps.iter().any(|r| r.nodes >= 32) && lay.blocks.len() >= 3 {
            st.mark_nontrivial();
        }
        Ok(())
    })
}

impl SubCheckT for ProductForm {
    type Case = crate::prodform::ProdCase;
    const NAME: &'static str = "product_form_many_variables";
    const RULE: &'static str = "a conjunction or disjunction of 3..8 random blocks of 2..5 variables each over disjoint labels scattered in 20..150 labels, as a BDD (label order with blocks interleaved, or blocks contiguous with unused labels in between, optionally perturbed) and as an SDD (library right-linear / even_split vtree or a random shape), regular and negated; the diagrams are first read back on 48 probe assignments by the harness's own walk (a mismatch is another property's concern and ends the case); then evaluate() must agree with that walk on 32 assignments, and the counts over three finite fields (normalised random residues incl. 0, 1, P-1) and the reals (weights 1/2, 0, 1: exact) must equal the product form of the blocks' brute-force counts. Non-trivial: >=3 blocks and a diagram of >=32 nodes";
    fn cases(tier: Tier) -> u32 {
        tier.pick(400, 8000)
    }
    fn strategy(_tier: Tier) -> BoxedStrategy<crate::prodform::ProdCase> {
        crate::prodform::prod_case_strategy()
    }
    fn run(case: &crate::prodform::ProdCase, st: &mut Stats) -> CaseResult {
        run_product_form(case, st)
    }
}

// ---------------------------------------------------------------------------
// diagrams with paths of 300..1400 decisions: a long chain of literals with a small block of variables at its top,
// middle or bottom; the count is the product of the literals' weights and the block's brute-force count
// ---------------------------------------------------------------------------

#[derive(Clone, Debug, Serialize, Deserialize)]
pub struct DeepCase {
    /// chain length
    pub k: u16,
    /// block: number of variables (2..=5) and function bits over them
    pub block: (u8, u32),
    /// where the block's variables sit in the (linear) order: 0 above the chain, 1 below it, 2 in its middle
    pub block_pos: u8,
    /// disjunction (of the negated chain literals and the block) instead of conjunction
    pub disj: bool,
    pub seed: u64,
}

pub struct Deep;

fn run_deep(case: &DeepCase, st: &mut Stats) -> CaseResult {
    const P: u128 = primes::U64_LARGEST;
    let k = (case.k as usize).clamp(8, 1500);
    let bk = (case.block.0 as usize).clamp(2, 5);
    let total = k + bk;
    // positions (= labels, the order is linear) of the block's variables
    let bstart = match case.block_pos % 3 {
        0 => 0,
        1 => k,
        _ => k / 2,
    };
    let is_block = |l: usize| l >= bstart && l < bstart + bk;
    let pol = |l: usize| splitmix(case.seed ^ (l as u64).wrapping_mul(0x9E37_79B9_7F4A_7C15)) & 1 == 1;
    let mut bt = Tt::FALSE;
    for a in 0..256usize {
        if (case.block.1 >> (a & ((1 << bk) - 1))) & 1 == 1 {
            bt.set(a, true);
        }
    }
    if bt.is_const() {
        bt = Tt::var(0).xor(Tt::var(1));
    }
    let b = RobddBuilder::<AllIteTable<BddPtr>>::new(VarOrder::linear_order(total));
    let block_labels: Vec<usize> = (bstart..bstart + bk).collect();
    let block_bdd = bdd_from_tt_labels(&b, bt, &block_labels);
    // the chain is conjoined (disjoined) literal by literal from the deepest level upwards: one new node per step
    let mut f = if case.disj { b.false_ptr() } else { b.true_ptr() };
    let mut l = total;
    while l > 0 {
        l -= 1;
        if is_block(l) {
            if l == bstart {
                f = if case.disj { b.or(block_bdd, f) } else { b.and(block_bdd, f) };
            }
            continue;
        }
        // conjunction: the chain literal; disjunction: its negation (so that the same assignment is the interesting one)
        let lit = b.var(VarLabel::new_usize(l), pol(l) != case.disj);
        f = if case.disj { b.or(lit, f) } else { b.and(lit, f) };
    }
    // what the diagram denotes is read by the harness's own walk; whether the builder made the intended function is C01's
    // concern (recorded): chain satisfied + each block assignment
    let mut base: Vec<bool> = (0..total).map(pol).collect();
    let mut intended = true;
    for a in 0..(1usize << bk) {
        for (j, bl) in block_labels.iter().enumerate() {
            base[*bl] = (a >> j) & 1 == 1;
        }
        let want = if case.disj { bt.get(a) } else { bt.get(a) };
        if crate::big::bdd_eval(f, &base) != want {
            intended = false;
        }
    }
    st.flag("deep.builder_made_another_function(C01's concern)", !intended);
    if !intended {
        return Ok(());
    }
    let mut reps: Vec<(&str, BddPtr)> = vec![("BDD", f), ("negated BDD", f.neg())];
    let td = StandardDecisionNNFBuilder::new(VarOrder::linear_order(total));
    if !case.disj {
        // the same function compiled top-down: one unit clause per chain literal, one maximal clause per falsifying
        // assignment of the block
        let mut cl: Vec<Vec<rsdd::repr::Literal>> = Vec::new();
        for l in 0..total {
            if !is_block(l) {
                cl.push(vec![rsdd::repr::Literal::new(VarLabel::new_usize(l), pol(l))]);
            }
        }
        for a in 0..(1usize << bk) {
            if !bt.get(a) {
                cl.push(block_labels.iter().enumerate().map(|(j, bl)| rsdd::repr::Literal::new(VarLabel::new_usize(*bl), (a >> j) & 1 == 0)).collect());
            }
        }
        let cnf = rsdd::repr::Cnf::new(&cl);
        let d = td.compile_cnf_topdown(&cnf);
        let mut same = true;
        for a in 0..(1usize << bk) {
            for (j, bl) in block_labels.iter().enumerate() {
                base[*bl] = (a >> j) & 1 == 1;
            }
            same &= crate::big::bdd_eval(d, &base) == bt.get(a);
        }
        st.flag("deep.top_down_made_another_function(C06's concern)", !same);
        if same {
            reps.push(("top-down d-DNNF", d));
            reps.push(("negated top-down d-DNNF", d.neg()));
        }
    }
    // evaluate(): chain satisfied with every block assignment, and single chain literals flipped at several depths
    let mut probes: Vec<Vec<bool>> = Vec::new();
    for a in 0..(1usize << bk) {
        for (j, bl) in block_labels.iter().enumerate() {
            base[*bl] = (a >> j) & 1 == 1;
        }
        probes.push(base.clone());
    }
    for s in 0..12u64 {
        let mut a = probes[(s as usize) % probes.len()].clone();
        let l = (splitmix(case.seed ^ 0xF11B ^ s) as usize) % total;
        a[l] = !a[l];
        probes.push(a);
    }
    for (name, r) in reps.iter() {
        for a in probes.iter() {
            let got = r.evaluate(a);
            let want = crate::big::bdd_eval(*r, a);
            ensure!(got == want, "C07/evaluate", "evaluate() on the {} ({} decisions deep) = {} but walking the diagram under the same assignment gives {}", name, total, got, want);
        }
    }
    // finite field: normalised random residues on every variable
    let wf = |l: usize, bit: bool| -> u128 {
        let x = splitmix(case.seed ^ 0xFF1E1D ^ (l as u64).wrapping_mul(0xD134_2543_DE82_EF95)) as u128 % P;
        let x = match x % 11 {
            0 => 1,
            1 => P - 1,
            _ => x,
        };
        if bit {
            x
        } else {
            (P + 1 - x) % P
        }
    };
    let block_count_ff = {
        let mut acc = 0u128;
        for a in 0..(1usize << bk) {
            if bt.get(a) {
                let mut pr = 1u128;
                for (j, bl) in block_labels.iter().enumerate() {
                    pr = mulmod(pr, wf(*bl, (a >> j) & 1 == 1), P);
                }
                acc = (acc + pr) % P;
            }
        }
        acc
    };
    // conjunction: prod w(chain literal) * count(block); disjunction of negated literals and the block:
    // 1 - prod w(chain literal) * (1 - count(block))
    let mut chain = 1u128;
    for l in 0..total {
        if !is_block(l) {
            chain = mulmod(chain, wf(l, pol(l)), P);
        }
    }
    let want_ff = if case.disj { (P + 1 - mulmod(chain, (P + 1 - block_count_ff) % P, P)) % P } else { mulmod(chain, block_count_ff, P) };
    let pf = params_of(total, &|l, bit| FiniteField::<P>::new(wf(l, bit)));
    for (name, r) in reps.iter() {
        let got = r.unsmoothed_wmc(&pf).value();
        let w = if name.starts_with("negated") { (P + 1 - want_ff) % P } else { want_ff };
        ensure!(
            got == w,
            "C07/normalised-count:finite-field(deep)",
            "{} of a chain of {} literals with a block of {} variables at position {} ({}): the count over GF(2^64-59) is {}; the product of the literal weights and the block's brute-force count gives {}",
            name,
            k,
            bk,
            bstart,
            if case.disj { "disjunction" } else { "conjunction" },
            got,
            w
        );
    }
    // reals (conjunction only): the chain literal's weight is a power of two, the block's weights are eighths: exact
    if !case.disj {
        let wr = |l: usize, bit: bool| -> f64 {
            let x = splitmix(case.seed ^ 0x4EA1 ^ (l as u64).wrapping_mul(0x9E37_79B9_7F4A_7C15));
            if is_block(l) {
                let hi = (1 + x % 7) as f64 / 8.0;
                return if bit { hi } else { 1.0 - hi };
            }
            // mostly 1, sometimes 1/2 or 1/4, on the literal's own side
            let own = match x % 16 {
                0 => 0.25,
                1 | 2 => 0.5,
                _ => 1.0,
            };
            if bit == pol(l) {
                own
            } else {
                1.0 - own
            }
        };
        let mut want = 0f64;
        for a in 0..(1usize << bk) {
            if bt.get(a) {
                let mut pr = 1f64;
                for (j, bl) in block_labels.iter().enumerate() {
                    pr *= wr(*bl, (a >> j) & 1 == 1);
                }
                want += pr;
            }
        }
        for l in 0..total {
            if !is_block(l) {
                want *= wr(l, pol(l));
            }
        }
        let pr = params_of(total, &|l, bit| RealSemiring(wr(l, bit)));
        for (name, r) in reps.iter().filter(|(n, _)| !n.starts_with("negated")) {
            let got = r.unsmoothed_wmc(&pr).0;
            ensure!(
                got == want,
                "C07/normalised-count:real(deep)",
                "{} of a chain of {} literals with a block of {} variables at position {}: the real count is {}; the product form gives {}",
                name,
                k,
                bk,
                bstart,
                got,
                want
            );
        }
    }
    st.flag(
        match total {
            0..=255 => "deep.depth.le255",
            256..=511 => "deep.depth.256-511",
            512..=1023 => "deep.depth.512-1023",
            _ => "deep.depth.ge1024",
        },
        true,
    );
    st.flag("deep.top_down_too", reps.len() > 2);
    if total >= 256 {
        st.mark_nontrivial();
    }
    Ok(())
}

impl SubCheckT for Deep {
    type Case = DeepCase;
    const NAME: &'static str = "deep_diagrams";
    const RULE: &'static str = "a chain of 8..1400 literals with a random block of 2..5 variables above, below or in the middle of it (linear order), as a conjunction or as the disjunction of the negated literals and the block; canonical BDD, its negation and (conjunction) the top-down d-DNNF of the corresponding CNF and its negation, all first read back by the harness's own walk; evaluate() on the chain-satisfying assignments and on assignments with one variable flipped at a random depth = that walk; count over GF(2^64-59) under normalised random residues = product of the chain literals' weights times the block's brute-force count (disjunction: one minus the product of the complements); real count with power-of-two weights on the chain and eighths on the block = the same product, exactly. Non-trivial: a path of >= 256 decisions";
    fn cases(tier: Tier) -> u32 {
        tier.pick(120, 2400)
    }
    fn strategy(_tier: Tier) -> BoxedStrategy<DeepCase> {
        (
            prop_oneof![1 => 8u16..=255, 1 => 256u16..=511, 3 => 512u16..=1023, 2 => 1024u16..=1400],
            (2u8..=5, any::<u32>()),
            0u8..3,
            proptest::bool::weighted(0.3),
            any::<u64>(),
        )
            .prop_map(|(k, block, block_pos, disj, seed)| DeepCase { k, block, block_pos, disj, seed })
            .boxed()
    }
    fn run(case: &DeepCase, st: &mut Stats) -> CaseResult {
        WMODE.with(|m| m.set((case.seed >> 9) as u8));
        run_deep(case, st)
    }
}

// ---------------------------------------------------------------------------
// SDDs with decision nodes of up to 128 elements: a multiplexer over seven left variables whose cells carry random
// functions of three right variables
// ---------------------------------------------------------------------------

#[derive(Clone, Debug, Serialize, Deserialize)]
pub struct WideSddCase {
    /// variables under the root's left child (5..=7) and under its right child (3)
    pub xl: u8,
    pub seed: u64,
    /// shape of the left subtree: 0 right-linear, 1 left-linear, 2 balanced
    pub left_shape: u8,
}

pub struct WideSdd;

fn run_wide_sdd(case: &WideSddCase, st: &mut Stats) -> CaseResult {
    use rsdd::repr::VTree;
    const P: u128 = primes::U64_LARGEST;
    let xl = (case.xl as usize).clamp(5, 7);
    let yr = 3usize;
    let n = xl + yr;
    fn shape(labels: &[usize], kind: u8) -> VTree {
        if labels.len() == 1 {
            return VTree::new_leaf(VarLabel::new_usize(labels[0]));
        }
        let at = match kind % 3 {
            0 => 1,
            1 => labels.len() - 1,
            _ => labels.len() / 2,
        };
        VTree::new_node(Box::new(shape(&labels[..at], kind)), Box::new(shape(&labels[at..], kind)))
    }
    let xs: Vec<usize> = (0..xl).collect();
    let ys: Vec<usize> = (xl..n).collect();
    let vt = VTree::new_node(Box::new(shape(&xs, case.left_shape)), Box::new(shape(&ys, 0)));
    let b = CompressionSddBuilder::new(vt);
    // the sub of cell i: a random function of the three right variables (8-bit table)
    let table = |i: usize| -> u8 { (splitmix(case.seed ^ (i as u64).wrapping_mul(0x9E37_79B9_7F4A_7C15)) >> 20) as u8 };
    let mut ysub: std::collections::BTreeMap<u8, SddPtr> = std::collections::BTreeMap::new();
    let mut yfn = |t: u8| -> SddPtr {
        *ysub.entry(t).or_insert_with(|| {
            let mut f = b.false_ptr();
            for m in 0..8usize {
                if (t >> m) & 1 == 1 {
                    let mut cube = b.true_ptr();
                    for (j, y) in ys.iter().enumerate() {
                        cube = b.and(cube, b.var(VarLabel::new_usize(*y), (m >> j) & 1 == 1));
                    }
                    f = b.or(f, cube);
                }
            }
            f
        })
    };
    // Shannon expansion over the left variables, deepest first
    let mut layer: Vec<SddPtr> = (0..(1usize << xl)).map(|i| yfn(table(i))).collect();
    for v in (0..xl).rev() {
        let half = 1usize << v;
        let x = b.var(VarLabel::new_usize(v), true);
        layer = (0..half).map(|a| b.ite(x, layer[a | half], layer[a])).collect();
    }
    let f = layer[0];
    // the function the diagram denotes, read by the harness's own walk
    let total = 1usize << n;
    let bits: Vec<bool> = (0..total).map(|a| crate::big::sdd_eval(f, &(0..n).map(|i| (a >> i) & 1 == 1).collect::<Vec<_>>())).collect();
    let intended = (0..total).all(|a| bits[a] == ((table(a & ((1 << xl) - 1)) >> (a >> xl)) & 1 == 1));
    st.flag("wide_sdd.builder_made_another_function(C03's concern)", !intended);
    let width = match f {
        SddPtr::Reg(_) | SddPtr::Compl(_) => f.node_iter().count(),
        _ => 0,
    };
    st.flag(
        match width {
            0..=32 => "wide_sdd.root_elements.le32",
            33..=64 => "wide_sdd.root_elements.33-64",
            _ => "wide_sdd.root_elements.gt64",
        },
        true,
    );
    let sel = |v: usize, k: u64| splitmix(case.seed ^ 0xABCD ^ ((v as u64) << 16) ^ k);
    // real
    let rw = |v: usize, bit: bool| -> f64 {
        let h = (sel(v, 1) % 9) as f64 / 8.0;
        if bit {
            h
        } else {
            1.0 - h
        }
    };
    // complex: high = a + bi, low = (1 - a) - bi, eighths and quarters
    let cw = |v: usize, bit: bool| -> (f64, f64) {
        let a = ((sel(v, 2) % 17) as f64 - 8.0) / 8.0;
        let bi = ((sel(v, 3) % 9) as f64 - 4.0) / 4.0;
        if bit {
            (a, bi)
        } else {
            (1.0 - a, -bi)
        }
    };
    // expected utility: high = (p, u), low = (1 - p, -u)
    let ew = |v: usize, bit: bool| -> (f64, f64) {
        let p = (sel(v, 4) % 9) as f64 / 8.0;
        let u = ((sel(v, 5) % 9) as f64 - 4.0) / 2.0;
        if bit {
            (p, u)
        } else {
            (1.0 - p, -u)
        }
    };
    let fw = |v: usize, bit: bool| -> u128 {
        let x = sel(v, 6) as u128 % P;
        if bit {
            x
        } else {
            (P + 1 - x) % P
        }
    };
    for (name, d, neg) in [("SDD", f, false), ("negated SDD", f.neg(), true)] {
        let mut want_r = 0f64;
        let mut want_c = (0f64, 0f64);
        let mut want_e = (0f64, 0f64);
        let mut want_f = 0u128;
        for a in 0..total {
            if bits[a] == neg {
                continue;
            }
            let mut pr = 1f64;
            let mut pc = (1f64, 0f64);
            let mut pe = (1f64, 0f64);
            let mut pf = 1u128;
            for v in 0..n {
                let bit = (a >> v) & 1 == 1;
                pr *= rw(v, bit);
                let (x, y) = cw(v, bit);
                pc = (pc.0 * x - pc.1 * y, pc.0 * y + pc.1 * x);
                let (q, u) = ew(v, bit);
                pe = (pe.0 * q, pe.0 * u + pe.1 * q);
                pf = mulmod(pf, fw(v, bit), P);
            }
            want_r += pr;
            want_c = (want_c.0 + pc.0, want_c.1 + pc.1);
            want_e = (want_e.0 + pe.0, want_e.1 + pe.1);
            want_f = (want_f + pf) % P;
        }
        let got_r = d.unsmoothed_wmc(&params_of(n, &|v, bit| RealSemiring(rw(v, bit)))).0;
        ensure!(got_r == want_r, "C07/normalised-count:real(wide sdd)", "{} whose root has {} elements ({} variables): the real count is {}, the sum over models is {}", name, width, n, got_r, want_r);
        let got_c = d.unsmoothed_wmc(&params_of(n, &|v, bit| {
            let (re, im) = cw(v, bit);
            Complex { re, im }
        }));
        ensure!(got_c.re == want_c.0 && got_c.im == want_c.1, "C07/normalised-count:complex(wide sdd)", "{} whose root has {} elements: the complex count is {:?}, the sum over models is {:?}", name, width, got_c, want_c);
        let got_e = d.unsmoothed_wmc(&params_of(n, &|v, bit| {
            let (p, u) = ew(v, bit);
            ExpectedUtility(p, u)
        }));
        ensure!(got_e.0 == want_e.0 && got_e.1 == want_e.1, "C07/normalised-count:expected-utility(wide sdd)", "{} whose root has {} elements: the expected-utility count is ({}, {}), the sum over models is {:?}", name, width, got_e.0, got_e.1, want_e);
        let got_f = d.unsmoothed_wmc(&params_of(n, &|v, bit| FiniteField::<P>::new(fw(v, bit)))).value();
        ensure!(got_f == want_f, "C07/normalised-count:finite-field(wide sdd)", "{} whose root has {} elements: the count over GF(2^64-59) is {}, the sum over models is {}", name, width, got_f, want_f);
        // evaluate on sampled assignments
        for k in 0..32u64 {
            let asg = crate::big::assignment(case.seed ^ 0xE0A1, k, n);
            let a = asg.iter().enumerate().fold(0usize, |m, (i, x)| if *x { m | 1 << i } else { m });
            ensure!(d.evaluate(&asg) == (bits[a] != neg), "C07/evaluate", "evaluate() on the {} whose root has {} elements differs from the harness's walk", name, width);
        }
    }
    if width > 32 {
        st.mark_nontrivial();
    }
    Ok(())
}

impl SubCheckT for WideSdd {
    type Case = WideSddCase;
    const NAME: &'static str = "wide_sdd_nodes";
    const RULE: &'static str = "a multiplexer: 5..7 variables under the root's left child (right-linear, left-linear or balanced) select a cell, each cell carries a random function of the 3 variables under the right child; built by if-then-else on a compressing SDD builder, the root has up to 128 elements (typically about 100 for seven left variables). The diagram and its negation are read back on all assignments by the harness's walk; real, complex, expected-utility (eighths: exact) and GF(2^64-59) counts equal the sum over the models read back; evaluate() agrees on sampled assignments. Non-trivial: a root of more than 32 elements";
    fn cases(tier: Tier) -> u32 {
        tier.pick(120, 2400)
    }
    fn strategy(_tier: Tier) -> BoxedStrategy<WideSddCase> {
        (prop_oneof![1 => 5u8..=6, 3 => Just(7u8)], any::<u64>(), 0u8..3).prop_map(|(xl, seed, left_shape)| WideSddCase { xl, seed, left_shape }).boxed()
    }
    fn run(case: &WideSddCase, st: &mut Stats) -> CaseResult {
        WMODE.with(|m| m.set((case.seed >> 11) as u8));
        run_wide_sdd(case, st)
    }
}

pub fn property() -> Property {
    Property {
        id: "C07",
        subs: vec![sub::<Counts>(), sub::<ProductForm>(), sub::<Deep>(), sub::<WideSdd>()],
        fuzz: vec![],
        assumptions: vec![
            "truth-table part: functions over <= 7 variables; sub-check product_form_many_variables: 20..150 labels, functions that factor into blocks of <= 5 variables; sub-check deep_diagrams: chains of up to 1400 literals with one such block",
            "exactly representable weights (dyadics, small integers, residues) so that every comparison is ==",
            "RationalSemiring weights are naturals built from one()/zero() (private field)",
            "top-down diagrams are counted only when they denote the CNF (that is C06's question)",
            "arbitrary-weight clause asserted for canonical BDDs only, as the property states",
        ],
        nt_floor_percent: 20,
    }
}
