//! C15 — CNF-side utilities agree with propositional semantics.
use crate::cnfgen::*;
use crate::engine::*;
use crate::oracle::mulmod;
use crate::tt::Tt;
use proptest::prelude::*;
use rsdd::constants::primes;
use rsdd::repr::{AssignmentIter, Cnf, HashedCNF, Literal, PartialModel, VarLabel, VarSet, WmcParams};
use rsdd::util::semirings::{FiniteField, RealSemiring};
use serde::{Deserialize, Serialize};
use std::collections::{BTreeMap, BTreeSet};

// ---------------------------------------------------------------------------
// Cnf: construction, evaluation, conditioning, counting
// ---------------------------------------------------------------------------

#[derive(Clone, Debug, Serialize, Deserialize)]
pub struct CnfUtilCase {
    pub cnf: CnfCase,
    pub partial: Vec<Option<bool>>,
    pub cond: (u8, bool),
    pub weights: Vec<(u8, u8)>,
}

pub struct CnfUtil;

const P: u128 = primes::U32_SMALL;

pub fn run_cnf_util(case: &CnfUtilCase, st: &mut Stats) -> CaseResult {
    let cnf: Cnf = case.cnf.to_rsdd();
    let n = case.cnf.num_vars();
    ensure!(cnf.num_vars() == n, "C15/cnf-num-vars", "Cnf::new(..).num_vars() = {}, largest label + 1 = {}", cnf.num_vars(), n);
    // construction preserves the set of clauses, each a set of literals (order and repetition are not claimed)
    let got: BTreeSet<BTreeSet<(usize, bool)>> = cnf
        .clauses()
        .iter()
        .map(|c| c.iter().map(|l| (l.label().value_usize(), l.polarity())).collect())
        .collect();
    let want: BTreeSet<BTreeSet<(usize, bool)>> = case
        .cnf
        .clauses
        .iter()
        .map(|c| c.iter().map(|(v, p)| (*v as usize, *p)).collect())
        .collect();
    ensure!(
        got == want,
        "C15/cnf-new-changed-clauses",
        "Cnf::new turned clause sets {:?} into {:?}",
        want,
        got
    );
    let t = case.cnf.tt();
    // eval on all assignments
    for a in 0..(1usize << n) {
        let asg: Vec<bool> = (0..n).map(|i| (a >> i) & 1 == 1).collect();
        ensure!(
            cnf.eval(&asg) == t.get(a),
            "C15/cnf-eval",
            "eval({:?}) = {} but the formula is {} there",
            asg,
            cnf.eval(&asg),
            t.get(a)
        );
    }
    // is_sat_partial
    // the model may speak about more variables than the formula has (a formula is often one part of a larger problem)
    let plen = (n + (case.cond.0 as usize >> 5) % 4).min(case.partial.len()).max(n);
    let pm_vec: Vec<Option<bool>> = (0..plen).map(|i| case.partial.get(i).copied().flatten()).collect();
    let pm = PartialModel::from_assignments(&pm_vec);
    st.flag("cnf.partial_model_assigns_variables_beyond_the_formula", pm_vec[n..].iter().any(|x| x.is_some()));
    st.flag("cnf.partial_model_assigns_exactly_num_vars_variables_some_beyond_the_formula", pm_vec[n..].iter().any(|x| x.is_some()) && pm_vec.iter().filter(|x| x.is_some()).count() == n);
    let want_sat = case
        .cnf
        .clauses
        .iter()
        .all(|c| c.iter().any(|(v, p)| pm_vec[*v as usize] == Some(*p)));
    ensure!(
        cnf.is_sat_partial(&pm) == want_sat,
        "C15/cnf-is-sat-partial",
        "is_sat_partial({:?}) = {} but 'every clause has a literal made true' is {}",
        pm_vec,
        cnf.is_sat_partial(&pm),
        want_sat
    );
    // condition
    if n > 0 {
        let v = ((case.cond.0 as usize) * n) >> 8;
        let b = case.cond.1;
        let c2 = cnf.condition(Literal::new(VarLabel::new_usize(v), b));
        ensure!(c2.num_vars() <= n, "C15/cnf-condition-num-vars", "conditioning increased num_vars from {} to {}", n, c2.num_vars());
        let cof = t.cofactor(v, b);
        for a in 0..(1usize << n) {
            let asg: Vec<bool> = (0..n).map(|i| (a >> i) & 1 == 1).collect();
            ensure!(
                c2.eval(&asg) == cof.get(a),
                "C15/cnf-condition",
                "condition(x{} = {}) evaluates to {} on {:?}, the cofactor is {}",
                v,
                b,
                c2.eval(&asg),
                asg,
                cof.get(a)
            );
        }
        // the conditioned formula's own bookkeeping: var_in_cnf = "some clause mentions the variable", for every variable
        for u in 0..n {
            let m2 = c2.clauses().iter().any(|c| c.iter().any(|l| l.label().value_usize() == u));
            ensure!(
                c2.var_in_cnf(VarLabel::new_usize(u)) == m2,
                "C15/cnf-var-in-cnf",
                "after condition(x{} = {}): var_in_cnf(x{}) = {} but the clauses of the result {} the variable: {}",
                v,
                b,
                u,
                c2.var_in_cnf(VarLabel::new_usize(u)),
                if m2 { "mention" } else { "do not mention" },
                c2
            );
        }
        // a second conditioning on top of the first, same questions
        if n >= 2 {
            let v2 = (v + 1 + (case.cond.0 as usize >> 3) % (n - 1)) % n;
            let c3 = c2.condition(Literal::new(VarLabel::new_usize(v2), !b));
            let cof2 = cof.cofactor(v2, !b);
            for a in 0..(1usize << n) {
                let asg: Vec<bool> = (0..n).map(|i| (a >> i) & 1 == 1).collect();
                ensure!(c3.eval(&asg) == cof2.get(a), "C15/cnf-condition", "condition(x{} = {}) then condition(x{} = {}) evaluates to {} on {:?}, the iterated cofactor is {}", v, b, v2, !b, c3.eval(&asg), asg, cof2.get(a));
            }
            for u in 0..n {
                let m3 = c3.clauses().iter().any(|c| c.iter().any(|l| l.label().value_usize() == u));
                ensure!(c3.var_in_cnf(VarLabel::new_usize(u)) == m3, "C15/cnf-var-in-cnf", "after two conditionings var_in_cnf(x{}) = {} but the clauses {} the variable", u, c3.var_in_cnf(VarLabel::new_usize(u)), if m3 { "mention" } else { "do not mention" });
            }
        }
        let mentions = c2.clauses().iter().any(|c| c.iter().any(|l| l.label().value_usize() == v));
        ensure!(
            !mentions && !c2.var_in_cnf(VarLabel::new_usize(v)),
            "C15/cnf-condition-still-mentions-variable",
            "condition(x{} = {}) still mentions x{}: {}",
            v,
            b,
            v,
            c2
        );
    }
    // var_in_cnf = "some clause mentions the variable", both ways, for every variable
    for v in 0..n {
        let mentioned = case.cnf.clauses.iter().any(|c| c.iter().any(|(x, _)| *x as usize == v));
        ensure!(
            cnf.var_in_cnf(VarLabel::new_usize(v)) == mentioned,
            "C15/cnf-var-in-cnf",
            "var_in_cnf(x{}) = {} but the clause list {} the variable",
            v,
            cnf.var_in_cnf(VarLabel::new_usize(v)),
            if mentioned { "mentions" } else { "does not mention" }
        );
    }
    // brute-force counting, including n = 0
    let mut real = WmcParams::<RealSemiring>::default();
    let mut ff = WmcParams::<FiniteField<P>>::default();
    let mut w = vec![(1u128, 1u128); n];
    for (i, wi) in w.iter_mut().enumerate() {
        let (l, h) = case.weights.get(i).copied().unwrap_or((1, 1));
        *wi = ((l % 6) as u128, (h % 6) as u128);
        real.set_weight(VarLabel::new_usize(i), RealSemiring(wi.0 as f64), RealSemiring(wi.1 as f64));
        ff.set_weight(VarLabel::new_usize(i), FiniteField::new(P - 1 - wi.0), FiniteField::new(wi.1 + P / 2));
    }
    let mut exp = 0u128;
    let mut expf = 0u128;
    for a in 0..(1usize << n) {
        if t.get(a) {
            let mut pr = 1u128;
            let mut pf = 1u128;
            for (i, wi) in w.iter().enumerate() {
                let bit = (a >> i) & 1 == 1;
                pr *= if bit { wi.1 } else { wi.0 };
                pf = mulmod(pf, if bit { (wi.1 + P / 2) % P } else { (P - 1 - wi.0) % P }, P);
            }
            exp += pr;
            expf = (expf + pf) % P;
        }
    }
    let got = cnf.wmc(&real).0;
    ensure!(
        got == exp as f64,
        "C15/cnf-wmc",
        "Cnf::wmc = {} but the brute-force sum over the {} models (n = {}) is {}",
        got,
        t.count_n(n),
        n,
        exp
    );
    let gotf = cnf.wmc(&ff).value();
    ensure!(gotf == expf, "C15/cnf-wmc-finite-field", "Cnf::wmc over GF(P32) = {} but brute force gives {}", gotf, expf);
    st.flag("cnf.no_clauses", case.cnf.clauses.is_empty());
    st.flag("cnf.empty_clause", case.cnf.has_empty_clause());
    st.flag("cnf.zero_vars", n == 0);
    st.flag("cnf.duplicate_or_complementary_literal", case.cnf.clauses.iter().zip(want.iter()).any(|(c, s)| c.len() != s.len()) || case.cnf.clauses.iter().any(|c| is_tautology(c)));
    if case.cnf.clauses.iter().filter(|c| c.len() >= 2).count() >= 2 && !t.is_const() {
        st.mark_nontrivial();
    }
    Ok(())
}

impl SubCheckT for CnfUtil {
    type Case = CnfUtilCase;
    const NAME: &'static str = "cnf";
    const RULE: &'static str = "random clause lists (incl. the empty list, empty clauses, duplicate/complementary literals): Cnf::new keeps the set of clauses (each a set of literals) and num_vars = largest label + 1; eval on all 2^n assignments = the harness's evaluator; is_sat_partial(m) iff every clause has a literal true under m; condition(l) = the cofactor on all assignments and no longer mentions the variable; wmc (small-integer reals, GF(479001599)) = exact brute force, where the empty formula counts one and a formula with an empty clause counts zero. Non-trivial: >=2 clauses with >=2 literals and a non-constant formula";
    fn cases(tier: Tier) -> u32 {
        tier.pick(12_000, 200_000)
    }
    fn strategy(_tier: Tier) -> BoxedStrategy<CnfUtilCase> {
        (
            cnf_strategy(),
            proptest::collection::vec(proptest::option::weighted(0.5, any::<bool>()), 8),
            (any::<u8>(), any::<bool>()),
            proptest::collection::vec((0u8..6, 0u8..6), 8),
        )
            .prop_map(|(cnf, partial, cond, weights)| CnfUtilCase {
                cnf,
                partial,
                cond,
                weights,
            })
            .boxed()
    }
    fn run(case: &CnfUtilCase, st: &mut Stats) -> CaseResult {
        run_cnf_util(case, st)
    }
}

// ---------------------------------------------------------------------------
// the same CNF utilities over 9..19 variables (bit-mask evaluation instead of the 8-variable truth table)
// ---------------------------------------------------------------------------

#[derive(Clone, Debug, Serialize, Deserialize)]
pub struct WideCnfCase {
    pub nv: u8,
    pub clauses: Vec<Vec<(u8, bool)>>,
    pub weights: Vec<(u8, u8)>,
    pub partial: Vec<Option<bool>>,
    pub cond: (u8, bool),
}

pub struct WideCnf;

pub fn run_wide_cnf(case: &WideCnfCase, st: &mut Stats) -> CaseResult {
    let nv = case.nv as usize;
    // every variable below nv is mentioned (a tautology on the last one fixes num_vars)
    let mut clauses: Vec<Vec<(usize, bool)>> = case.clauses.iter().map(|c| c.iter().map(|(v, p)| ((*v as usize) % nv, *p)).collect()).collect();
    clauses.push(vec![(nv - 1, true), (nv - 1, false)]);
    let lits: Vec<Vec<Literal>> = clauses.iter().map(|c| c.iter().map(|(v, p)| Literal::new(VarLabel::new_usize(*v), *p)).collect()).collect();
    let cnf = Cnf::new(&lits);
    ensure!(cnf.num_vars() == nv, "C15/cnf-num-vars", "Cnf::new(..).num_vars() = {}, largest label + 1 = {}", cnf.num_vars(), nv);
    // clause masks: (positive literals, negative literals)
    let masks: Vec<(u32, u32)> = clauses
        .iter()
        .map(|c| c.iter().fold((0u32, 0u32), |(p, n), (v, pol)| if *pol { (p | 1 << v, n) } else { (p, n | 1 << v) }))
        .collect();
    let sat = |a: u32| masks.iter().all(|(p, n)| (a & p) != 0 || (!a & n) != 0);
    let mut real = WmcParams::<RealSemiring>::default();
    let mut ff = WmcParams::<FiniteField<P>>::default();
    let mut w = vec![(1u128, 1u128); nv];
    for (i, wi) in w.iter_mut().enumerate() {
        let (l, h) = case.weights.get(i).copied().unwrap_or((1, 1));
        // reals 0..2 (a sum of up to 2^19 products below 2^19 stays exact), residues spread over the field
        *wi = ((l % 3) as u128, (h % 3) as u128);
        real.set_weight(VarLabel::new_usize(i), RealSemiring(wi.0 as f64), RealSemiring(wi.1 as f64));
        ff.set_weight(VarLabel::new_usize(i), FiniteField::new((l as u128 * 7_654_321 + 2) % P), FiniteField::new((h as u128 * 1_234_577 + 3) % P));
    }
    let wf: Vec<(u128, u128)> = (0..nv)
        .map(|i| {
            let (l, h) = case.weights.get(i).copied().unwrap_or((1, 1));
            ((l as u128 * 7_654_321 + 2) % P, (h as u128 * 1_234_577 + 3) % P)
        })
        .collect();
    // brute force with the products of the low 8 variables tabulated by the harness's own loop order
    let mut exp = 0u128;
    let mut expf = 0u128;
    let mut models = 0u64;
    for a in 0..(1u32 << nv) {
        if !sat(a) {
            continue;
        }
        models += 1;
        let mut pr = 1u128;
        let mut pf = 1u128;
        for i in 0..nv {
            let bit = (a >> i) & 1 == 1;
            pr *= if bit { w[i].1 } else { w[i].0 };
            pf = pf * (if bit { wf[i].1 } else { wf[i].0 }) % P;
        }
        exp += pr;
        expf = (expf + pf) % P;
    }
    let got = cnf.wmc(&real).0;
    ensure!(got == exp as f64, "C15/cnf-wmc", "Cnf::wmc = {} over {} variables but the brute-force sum over the {} models is {}", got, nv, models, exp);
    let gotf = cnf.wmc(&ff).value();
    ensure!(gotf == expf, "C15/cnf-wmc-finite-field", "Cnf::wmc over GF(P32) = {} over {} variables but brute force gives {}", gotf, nv, expf);
    // eval on sampled assignments and on assignments falsifying one clause
    let seed = case.weights.iter().fold(0xC15u64, |a, (l, h)| a.wrapping_mul(131).wrapping_add((*l as u64) << 8 | *h as u64));
    for k in 0..48u64 {
        let asg: Vec<bool> = if (k as usize) < clauses.len() && k % 2 == 0 { crate::big::falsifying(seed, k, nv, &clauses[k as usize]) } else { crate::big::assignment(seed, k, nv) };
        let a: u32 = asg.iter().enumerate().fold(0, |m, (i, b)| if *b { m | 1 << i } else { m });
        ensure!(cnf.eval(&asg) == sat(a), "C15/cnf-eval", "Cnf::eval = {} on an assignment of {} variables where the clauses are {}", cnf.eval(&asg), nv, sat(a));
    }
    // is_sat_partial and condition
    // up to three further variables beyond the formula's are assigned as well
    let extra = (case.cond.0 as usize >> 5) % 4;
    let m: Vec<Option<bool>> = (0..nv + extra).map(|i| if i < nv { case.partial.get(i).copied().flatten() } else { Some((case.cond.0 >> (i - nv)) & 1 == 1) }).collect();
    let pm = PartialModel::from_assignments(&m);
    let want_sat = clauses.iter().all(|c| c.iter().any(|(v, p)| m[*v] == Some(*p)));
    ensure!(cnf.is_sat_partial(&pm) == want_sat, "C15/cnf-is-sat-partial", "is_sat_partial({:?}) = {} but 'every clause has a literal made true' is {}", m, cnf.is_sat_partial(&pm), want_sat);
    let (cv, cb) = ((case.cond.0 as usize) % nv, case.cond.1);
    let c2 = cnf.condition(Literal::new(VarLabel::new_usize(cv), cb));
    ensure!(
        c2.clauses().iter().all(|c| c.iter().all(|l| l.label().value_usize() != cv)),
        "C15/cnf-condition-still-mentions-variable",
        "condition(x{} = {}) still mentions the variable",
        cv,
        cb
    );
    for k in 0..32u64 {
        let mut asg = crate::big::assignment(seed ^ 0x55, k, nv);
        asg[cv] = cb;
        let a: u32 = asg.iter().enumerate().fold(0, |m, (i, b)| if *b { m | 1 << i } else { m });
        ensure!(c2.num_vars() <= nv, "C15/cnf-condition-num-vars", "conditioning increased num_vars from {} to {}", nv, c2.num_vars());
        ensure!(c2.eval(&asg) == sat(a), "C15/cnf-condition", "condition(x{} = {}) evaluates to {} where the cofactor is {}", cv, cb, c2.eval(&asg), sat(a));
    }
    st.flag(if nv >= 17 { "wide.nv.17-19" } else if nv >= 13 { "wide.nv.13-16" } else { "wide.nv.9-12" }, true);
    if models > 0 && models < (1u64 << nv) && exp > 0 {
        st.mark_nontrivial();
    }
    Ok(())
}

impl SubCheckT for WideCnf {
    type Case = WideCnfCase;
    const NAME: &'static str = "cnf_many_variables";
    const RULE: &'static str = "clause lists over 9..19 variables (2..10 clauses of 1..5 literals): Cnf::wmc (reals 0..2, GF(479001599) with residues spread over the field) = the harness's own enumeration of all 2^n assignments with bit-mask clause evaluation; eval on sampled and clause-falsifying assignments; is_sat_partial; condition(l) = the cofactor on sampled assignments and no longer mentions the variable. Non-trivial: satisfiable, not a tautology, non-zero count";
    fn cases(tier: Tier) -> u32 {
        tier.pick(160, 3000)
    }
    fn strategy(_tier: Tier) -> BoxedStrategy<WideCnfCase> {
        (prop_oneof![2 => 9u8..=12, 2 => 13u8..=16, 3 => 17u8..=19])
            .prop_flat_map(|nv| {
                (
                    Just(nv),
                    proptest::collection::vec(proptest::collection::vec((0..nv, any::<bool>()), 1..=5), 2..=10),
                    proptest::collection::vec((any::<u8>(), any::<u8>()), nv as usize),
                    proptest::collection::vec(proptest::option::weighted(0.6, any::<bool>()), nv as usize),
                    (any::<u8>(), any::<bool>()),
                )
            })
            .prop_map(|(nv, clauses, weights, partial, cond)| WideCnfCase { nv, clauses, weights, partial, cond })
            .boxed()
    }
    fn run(case: &WideCnfCase, st: &mut Stats) -> CaseResult {
        run_wide_cnf(case, st)
    }
}

// ---------------------------------------------------------------------------
// AssignmentIter, Literal
// ---------------------------------------------------------------------------

#[derive(Clone, Debug, Serialize, Deserialize)]
pub struct SmallCase {
    pub n: u8,
    pub labels: Vec<u64>,
}

pub struct Small;

pub fn run_small(case: &SmallCase, st: &mut Stats) -> CaseResult {
    let n = (case.n % 11) as usize;
    let all: Vec<Vec<bool>> = AssignmentIter::new(n).collect();
    let set: BTreeSet<Vec<bool>> = all.iter().cloned().collect();
    ensure!(
        all.len() == 1usize << n && set.len() == all.len() && all.iter().all(|a| a.len() == n),
        "C15/assignment-iter",
        "AssignmentIter({}) yields {} vectors ({} distinct), expected 2^{} of length {}",
        n,
        all.len(),
        set.len(),
        n,
        n
    );
    for raw in case.labels.iter() {
        let lbl = raw & ((1u64 << 63) - 1);
        for pol in [false, true] {
            let l = Literal::new(VarLabel::new(lbl), pol);
            ensure!(
                l.label().value() == lbl && l.polarity() == pol,
                "C15/literal-roundtrip",
                "Literal::new({}, {}) reads back as ({}, {})",
                lbl,
                pol,
                l.label().value(),
                l.polarity()
            );
            let ng = l.negated();
            ensure!(
                ng.label().value() == lbl && ng.polarity() == !pol && ng.negated() == l,
                "C15/literal-negated",
                "negated() of ({}, {}) is ({}, {})",
                lbl,
                pol,
                ng.label().value(),
                ng.polarity()
            );
            ensure!(
                l.implies_true(&l) && !l.implies_false(&l) && l.implies_false(&ng) && !l.implies_true(&ng),
                "C15/literal-implies",
                "implies_true/false wrong for ({}, {})",
                lbl,
                pol
            );
            // a literal over another variable is implied neither true nor false
            for raw2 in case.labels.iter() {
                let lbl2 = raw2 & ((1u64 << 63) - 1);
                if lbl2 == lbl {
                    continue;
                }
                for pol2 in [false, true] {
                    let o = Literal::new(VarLabel::new(lbl2), pol2);
                    ensure!(
                        !l.implies_true(&o) && !l.implies_false(&o),
                        "C15/literal-implies",
                        "({}, {}) claims to decide the literal ({}, {}) of another variable",
                        lbl,
                        pol,
                        lbl2,
                        pol2
                    );
                }
            }
        }
    }
    if n >= 2 && case.labels.iter().any(|l| *l > u32::MAX as u64) {
        st.mark_nontrivial();
    }
    Ok(())
}

impl SubCheckT for Small {
    type Case = SmallCase;
    const NAME: &'static str = "iter_literal";
    const RULE: &'static str = "AssignmentIter(n), n <= 10: exactly 2^n distinct vectors of length n; Literal label/polarity round trip incl. labels 2^62, 2^63-1, negated, implies_true/false. Non-trivial: n >= 2 and a label above 2^32";
    fn cases(tier: Tier) -> u32 {
        tier.pick(600, 20_000)
    }
    fn strategy(_tier: Tier) -> BoxedStrategy<SmallCase> {
        (
            0u8..=10,
            proptest::collection::vec(
                prop_oneof![2 => any::<u64>(), 1 => Just(1u64 << 62), 1 => Just((1u64 << 63) - 1), 1 => 0u64..20],
                1..6,
            ),
        )
            .prop_map(|(n, labels)| SmallCase { n, labels })
            .boxed()
    }
    fn run(case: &SmallCase, st: &mut Stats) -> CaseResult {
        run_small(case, st)
    }
}

// ---------------------------------------------------------------------------
// PartialModel and VarSet against set models
// ---------------------------------------------------------------------------

#[derive(Clone, Debug, Serialize, Deserialize)]
pub enum MOp {
    Set(bool, u8, bool),
    Unset(bool, u8),
    VsInsert(bool, u8),
    VsRemove(bool, u8),
    VsUnionWith,
    Check,
}

#[derive(Clone, Debug, Serialize, Deserialize)]
pub struct ModelCase {
    pub n: u8,
    pub init_a: Vec<Option<bool>>,
    pub init_b: Vec<Option<bool>>,
    pub ops: Vec<MOp>,
}

pub struct Models;

fn check_pm(pm: &PartialModel, m: &[Option<bool>], other_pm: &PartialModel, other: &[Option<bool>], what: &str) -> CaseResult {
    let n = m.len();
    for v in 0..n {
        let l = VarLabel::new_usize(v);
        ensure!(
            pm.get(l) == m[v] && pm.is_set(l) == m[v].is_some(),
            "C15/partial-model-get",
            "{}: get(x{}) = {:?}, is_set = {}, model says {:?}",
            what,
            v,
            pm.get(l),
            pm.is_set(l),
            m[v]
        );
        for pol in [false, true] {
            let lit = Literal::new(l, pol);
            ensure!(
                pm.lit_implied(lit) == (m[v] == Some(pol)) && pm.lit_neg_implied(lit) == (m[v] == Some(!pol)),
                "C15/partial-model-lit-implied",
                "{}: lit_implied/lit_neg_implied wrong for x{} = {} under {:?}",
                what,
                v,
                pol,
                m[v]
            );
        }
    }
    let got: BTreeSet<(usize, bool)> = pm.assignment_iter().map(|l| (l.label().value_usize(), l.polarity())).collect();
    let got_n = pm.assignment_iter().count();
    let want: BTreeSet<(usize, bool)> = m.iter().enumerate().filter_map(|(i, x)| x.map(|b| (i, b))).collect();
    ensure!(
        got == want && got_n == want.len(),
        "C15/partial-model-assignment-iter",
        "{}: assignment_iter yields {:?} ({} items), the model holds {:?}",
        what,
        got,
        got_n,
        want
    );
    let gd: BTreeSet<(usize, bool)> = pm.difference(other_pm).map(|l| (l.label().value_usize(), l.polarity())).collect();
    let wd: BTreeSet<(usize, bool)> = want
        .iter()
        .copied()
        .filter(|(v, b)| other.get(*v).copied().flatten() != Some(*b))
        .collect();
    ensure!(
        gd == wd,
        "C15/partial-model-difference",
        "{}: difference = {:?}, expected the literals of self not in other = {:?}",
        what,
        gd,
        wd
    );
    Ok(())
}

fn vs_of(s: &BTreeSet<usize>) -> VarSet {
    let mut v = VarSet::new();
    for x in s {
        v.insert(VarLabel::new_usize(*x));
    }
    v
}

fn vs_read(v: &VarSet) -> BTreeSet<usize> {
    v.iter().map(|l| l.value_usize()).collect()
}

fn check_vs(a: &VarSet, ma: &BTreeSet<usize>, b: &VarSet, mb: &BTreeSet<usize>, n: usize) -> CaseResult {
    ensure!(vs_read(a) == *ma, "C15/varset-iter", "iter yields {:?}, model {:?}", vs_read(a), ma);
    ensure!(
        a.len() == ma.len() && a.is_empty() == ma.is_empty(),
        "C15/varset-len",
        "len {} / is_empty {} vs model {:?}",
        a.len(),
        a.is_empty(),
        ma
    );
    for v in 0..n + 3 {
        ensure!(
            a.contains(VarLabel::new_usize(v)) == ma.contains(&v),
            "C15/varset-contains",
            "contains({}) = {}, model {:?}",
            v,
            a.contains(VarLabel::new_usize(v)),
            ma
        );
    }
    let u: BTreeSet<usize> = ma.union(mb).copied().collect();
    let i: BTreeSet<usize> = ma.intersection(mb).copied().collect();
    let d: BTreeSet<usize> = ma.difference(mb).copied().collect();
    ensure!(vs_read(&a.union(b)) == u, "C15/varset-union", "union {:?} vs {:?}", vs_read(&a.union(b)), u);
    ensure!(vs_read(&a.minus(b)) == d, "C15/varset-minus", "minus {:?} vs {:?}", vs_read(&a.minus(b)), d);
    ensure!(
        vs_read(&a.intersect_varset(b)) == i,
        "C15/varset-intersect",
        "intersect_varset {:?} vs {:?}",
        vs_read(&a.intersect_varset(b)),
        i
    );
    let gi: BTreeSet<usize> = a.intersect(b).collect();
    ensure!(gi == i, "C15/varset-intersect", "intersect {:?} vs {:?}", gi, i);
    let gd: BTreeSet<usize> = a.difference(b).map(|l| l.value_usize()).collect();
    ensure!(gd == d, "C15/varset-difference", "difference {:?} vs {:?}", gd, d);
    ensure!(
        (*a == *b) == (ma == mb),
        "C15/varset-eq",
        "a == b is {} but the sets are {:?} and {:?}",
        *a == *b,
        ma,
        mb
    );
    // a set equals a freshly built set with the same elements (whatever capacity either has)
    ensure!(*a == vs_of(ma), "C15/varset-eq", "set {:?} differs from a freshly built set with the same elements", ma);
    Ok(())
}

pub fn run_models(case: &ModelCase, st: &mut Stats) -> CaseResult {
    let n = (case.n % 9) as usize;
    let mut ma: Vec<Option<bool>> = (0..n).map(|i| case.init_a.get(i).copied().flatten()).collect();
    let mut mb: Vec<Option<bool>> = (0..n).map(|i| case.init_b.get(i).copied().flatten()).collect();
    let mut a = PartialModel::from_assignments(&ma);
    // b is built through from_litvec to cover the other constructor
    let lits: Vec<Literal> = mb
        .iter()
        .enumerate()
        .filter_map(|(i, x)| x.map(|b| Literal::new(VarLabel::new_usize(i), b)))
        .collect();
    let mut b = PartialModel::from_litvec(&lits, n);
    let total: Vec<bool> = ma.iter().map(|x| x.unwrap_or(false)).collect();
    let tm = PartialModel::from_total_model(&total);
    let tmm: Vec<Option<bool>> = total.iter().map(|b| Some(*b)).collect();
    check_pm(&tm, &tmm, &a, &ma, "from_total_model")?;
    let empty = PartialModel::new(n);
    check_pm(&empty, &vec![None; n], &a, &ma, "PartialModel::new")?;
    // var sets
    let mut sa: BTreeSet<usize> = BTreeSet::new();
    let mut sb: BTreeSet<usize> = BTreeSet::new();
    let mut va = VarSet::new();
    let mut vb = VarSet::new_with_num_vars(n);
    check_pm(&a, &ma, &b, &mb, "initial a")?;
    check_pm(&b, &mb, &a, &ma, "initial b")?;
    let mut mutations = 0;
    for (i, op) in case.ops.iter().enumerate() {
        let what = format!("after op #{} {:?}", i, op);
        match op {
            MOp::Set(which, v, val) if n > 0 => {
                let v = ((*v as usize) * n) >> 8;
                if *which {
                    a.set(VarLabel::new_usize(v), *val);
                    ma[v] = Some(*val);
                } else {
                    b.set(VarLabel::new_usize(v), *val);
                    mb[v] = Some(*val);
                }
                mutations += 1;
            }
            MOp::Unset(which, v) if n > 0 => {
                let v = ((*v as usize) * n) >> 8;
                if *which {
                    a.unset(VarLabel::new_usize(v));
                    ma[v] = None;
                } else {
                    b.unset(VarLabel::new_usize(v));
                    mb[v] = None;
                }
                mutations += 1;
            }
            MOp::VsInsert(which, v) => {
                let v = (*v % 40) as usize;
                if *which {
                    va.insert(VarLabel::new_usize(v));
                    sa.insert(v);
                } else {
                    vb.insert(VarLabel::new_usize(v));
                    sb.insert(v);
                }
                mutations += 1;
            }
            MOp::VsRemove(which, v) => {
                let v = (*v % 40) as usize;
                if *which {
                    va.remove(VarLabel::new_usize(v));
                    sa.remove(&v);
                } else {
                    vb.remove(VarLabel::new_usize(v));
                    sb.remove(&v);
                }
                mutations += 1;
            }
            MOp::VsUnionWith => {
                va.union_with(&vb);
                sa = sa.union(&sb).copied().collect();
                mutations += 1;
            }
            _ => {}
        }
        check_pm(&a, &ma, &b, &mb, &what)?;
        check_pm(&b, &mb, &a, &ma, &what)?;
        ensure!(
            (a == b) == (ma == mb),
            "C15/partial-model-eq",
            "{}: a == b is {} but the models are {:?} and {:?}",
            what,
            a == b,
            ma,
            mb
        );
        check_vs(&va, &sa, &vb, &sb, 40)?;
        check_vs(&vb, &sb, &va, &sa, 40)?;
    }
    if mutations >= 4 && n >= 2 {
        st.mark_nontrivial();
    }
    Ok(())
}

impl SubCheckT for Models {
    type Case = ModelCase;
    const NAME: &'static str = "partial_model_varset";
    const RULE: &'static str = "histories of set/unset on two PartialModels (built with from_assignments / from_litvec / from_total_model / new) and insert/remove/union_with on two VarSets, against Vec<Option<bool>> and BTreeSet models: get, is_set, lit_implied, lit_neg_implied, assignment_iter, difference, ==; contains, len, is_empty, iter, union, minus, intersect, intersect_varset, difference, == after every step. Non-trivial: >=4 mutations, >=2 variables";
    fn cases(tier: Tier) -> u32 {
        tier.pick(6000, 100_000)
    }
    fn strategy(_tier: Tier) -> BoxedStrategy<ModelCase> {
        let op = prop_oneof![
            3 => (any::<bool>(), any::<u8>(), any::<bool>()).prop_map(|(w, v, b)| MOp::Set(w, v, b)),
            2 => (any::<bool>(), any::<u8>()).prop_map(|(w, v)| MOp::Unset(w, v)),
            3 => (any::<bool>(), any::<u8>()).prop_map(|(w, v)| MOp::VsInsert(w, v)),
            2 => (any::<bool>(), any::<u8>()).prop_map(|(w, v)| MOp::VsRemove(w, v)),
            1 => Just(MOp::VsUnionWith),
            1 => Just(MOp::Check),
        ];
        (
            0u8..=8,
            proptest::collection::vec(proptest::option::weighted(0.5, any::<bool>()), 8),
            proptest::collection::vec(proptest::option::weighted(0.5, any::<bool>()), 8),
            proptest::collection::vec(op, 0..=30),
        )
            .prop_map(|(n, init_a, init_b, ops)| ModelCase { n, init_a, init_b, ops })
            .boxed()
    }
    fn run(case: &ModelCase, st: &mut Stats) -> CaseResult {
        run_models(case, st)
    }
}

// ---------------------------------------------------------------------------
// the incremental residual-formula hasher
// ---------------------------------------------------------------------------

#[derive(Clone, Debug, Serialize, Deserialize)]
pub enum HOp {
    Push,
    Pop,
    Decide(u8, bool),
    /// hash under (decisions in effect + these extras on undecided variables)
    Hash(Vec<Option<bool>>),
}

#[derive(Clone, Debug, Serialize, Deserialize)]
pub struct HasherCase {
    pub cnf: CnfCase,
    pub ops: Vec<HOp>,
    /// when set, the CNF under test is `cnf.condition(literal)`: a formula obtained by conditioning carries a
    /// hasher of its own, which must be the hasher of the conditioned clause list
    #[serde(default)]
    pub pre_condition: Option<(u8, bool)>,
}

pub struct Hasher;

type Resid = BTreeSet<(usize, BTreeSet<(usize, bool)>)>;

/// the first integer in the Debug form of a HashedCNF (`HashedCNF { v: [a, a] }`)
fn debug_value(h: &HashedCNF) -> Option<u128> {
    let s = format!("{:?}", h);
    let digits: String = s.chars().skip_while(|c| !c.is_ascii_digit()).take_while(|c| c.is_ascii_digit()).collect();
    digits.parse().ok()
}

/// prime factors (with multiplicity) if x factors completely over the primes below 2000
fn small_prime_factors(mut x: u128) -> Option<Vec<u128>> {
    if x == 0 {
        return None;
    }
    let mut out = Vec::new();
    let mut p = 2u128;
    while p < 2000 && x > 1 {
        while x % p == 0 {
            out.push(p);
            x /= p;
        }
        p += if p == 2 { 1 } else { 2 };
    }
    if x == 1 {
        Some(out)
    } else {
        None
    }
}

pub fn run_hasher(case: &HasherCase, st: &mut Stats) -> CaseResult {
    let base = case.cnf.to_rsdd();
    let cnf = match case.pre_condition {
        Some((v, b)) if base.num_vars() > 0 => {
            st.bump("hasher.of_a_conditioned_cnf");
            base.condition(Literal::new(VarLabel::new_usize(((v as usize) * base.num_vars()) >> 8), b))
        }
        _ => base,
    };
    let n = cnf.num_vars();
    let mut h = cnf.hasher().clone();
    // clauses exactly as the hasher sees them
    let clauses: Vec<Vec<(usize, bool)>> = cnf
        .clauses()
        .iter()
        .map(|c| c.iter().map(|l| (l.label().value_usize(), l.polarity())).collect())
        .collect();
    let occurrences: usize = clauses.iter().map(|c| c.len()).sum();
    // the k-th literal occurrence carries the k-th prime: a state's hash is exact (no wrap-around) when the
    // product over its residual occurrences fits in 128 bits, which is decided per state, not per CNF
    let primes: Vec<u128> = {
        let mut ps: Vec<u128> = Vec::new();
        let mut c = 2u128;
        while ps.len() < occurrences {
            if ps.iter().all(|p| c % p != 0) {
                ps.push(c);
            }
            c += 1;
        }
        ps
    };
    let mut occ_prime: Vec<Vec<u128>> = Vec::new();
    {
        let mut k = 0;
        for c in clauses.iter() {
            occ_prime.push((0..c.len()).map(|j| primes[k + j]).collect());
            k += c.len();
        }
    }
    let mut inexact_states = 0u64;
    // levels of decisions
    let mut levels: Vec<Vec<(usize, bool)>> = vec![vec![]];
    let mut seen_r: BTreeMap<Resid, (HashedCNF, Vec<Option<bool>>)> = BTreeMap::new();
    let mut seen_h: Vec<(HashedCNF, Resid, Vec<Option<bool>>, bool)> = Vec::new();
    let mut seen_f: Vec<(BTreeSet<u128>, BTreeSet<(usize, usize)>)> = Vec::new();
    let mut pops = 0;
    let mut equal_resid_diff_decisions = 0;
    for (i, op) in case.ops.iter().enumerate() {
        match op {
            HOp::Push => {
                h.push();
                levels.push(vec![]);
            }
            HOp::Pop => {
                if levels.len() >= 2 {
                    h.pop();
                    levels.pop();
                    pops += 1;
                }
            }
            HOp::Decide(v, b) => {
                if n == 0 {
                    continue;
                }
                let v = ((*v as usize) * n) >> 8;
                let conflict = levels.iter().flatten().any(|(dv, db)| *dv == v && *db != *b);
                if conflict {
                    st.bump("hasher.inconsistent_decide_skipped");
                    continue;
                }
                h.decide(Literal::new(VarLabel::new_usize(v), *b));
                levels.last_mut().unwrap().push((v, *b));
            }
            HOp::Hash(extra) => {
                let mut m: Vec<Option<bool>> = vec![None; n];
                for (dv, db) in levels.iter().flatten() {
                    m[*dv] = Some(*db);
                }
                for v in 0..n {
                    if m[v].is_none() {
                        m[v] = extra.get(v).copied().flatten();
                    }
                }
                // the property speaks of assignments that falsify no clause
                let falsifies = clauses.iter().any(|c| c.iter().all(|(v, p)| m[*v] == Some(!*p)));
                if falsifies {
                    st.bump("hasher.falsifying_assignment_skipped");
                    continue;
                }
                let pm = PartialModel::from_assignments(&m);
                let hv = h.hash(&pm);
                let mut r: Resid = BTreeSet::new();
                let mut product: Option<u128> = Some(1);
                for (ci, c) in clauses.iter().enumerate() {
                    if c.len() <= 1 {
                        continue;
                    }
                    if c.iter().any(|(v, p)| m[*v] == Some(*p)) {
                        continue;
                    }
                    for (li, (v, _)) in c.iter().enumerate() {
                        if m[*v].is_none() {
                            product = product.and_then(|x| x.checked_mul(occ_prime[ci][li]));
                        }
                    }
                    let rest: BTreeSet<(usize, bool)> = c.iter().copied().filter(|(v, _)| m[*v].is_none()).collect();
                    r.insert((ci, rest));
                }
                st.bump("hasher.hashed_states");
                if let Some((h0, m0)) = seen_r.get(&r) {
                    if *m0 != m {
                        equal_resid_diff_decisions += 1;
                    }
                    ensure!(
                        *h0 == hv,
                        "C15/hasher-equal-residual-different-hash",
                        "op #{}: assignments {:?} and {:?} leave the same residual {:?} but hash differently ({:?} vs {:?})",
                        i,
                        m0,
                        m,
                        r,
                        h0,
                        hv
                    );
                } else {
                    seen_r.insert(r.clone(), (hv.clone(), m.clone()));
                }
                let exact = product.is_some();
                if !exact {
                    inexact_states += 1;
                }
                // "the product of literal primes": while it fits in 128 bits the hash value itself (read from the
                // Debug form of HashedCNF, its only window) must be a product of distinct small primes, one per
                // residual literal occurrence, and two states must share exactly as many prime factors as they
                // share residual occurrences. Which prime an occurrence gets is not fixed. This is what makes "only
                // then" checkable beyond the few million pairs a run can compare directly: any reduction of the
                // product (a modulus, a narrower integer) destroys the factorisation.
                if exact {
                    let occ_now: BTreeSet<(usize, usize)> = clauses
                        .iter()
                        .enumerate()
                        .filter(|(_, c)| c.len() > 1 && !c.iter().any(|(v, p)| m[*v] == Some(*p)))
                        .flat_map(|(ci, c)| c.iter().enumerate().filter(|(_, (v, _))| m[*v].is_none()).map(move |(li, _)| (ci, li)).collect::<Vec<_>>())
                        .collect();
                    match debug_value(&hv).and_then(small_prime_factors) {
                        Some(fs) => {
                            let distinct: BTreeSet<u128> = fs.iter().copied().collect();
                            ensure!(
                                distinct.len() == fs.len() && fs.len() == occ_now.len(),
                                "C15/hasher-value-is-not-a-product-of-one-prime-per-residual-occurrence",
                                "op #{}: under {:?} the residual has {} literal occurrences and their prime product fits in 128 bits, but the hash {:?} factors as {:?}",
                                i,
                                m,
                                occ_now.len(),
                                hv,
                                fs
                            );
                            for (f1, o1) in seen_f.iter() {
                                let common_f = distinct.intersection(f1).count();
                                let common_o = occ_now.intersection(o1).count();
                                ensure!(
                                    common_f == common_o,
                                    "C15/hasher-value-is-not-a-product-of-one-prime-per-residual-occurrence",
                                    "op #{}: two states share {} residual literal occurrences but their hashes share {} prime factors",
                                    i,
                                    common_o,
                                    common_f
                                );
                            }
                            if seen_f.len() < 24 {
                                seen_f.push((distinct, occ_now));
                            }
                            st.bump("hasher.values_factorised");
                        }
                        None => {
                            if debug_value(&hv).is_none() {
                                st.bump("hasher.debug_form_not_understood(value oracle skipped)");
                            } else {
                                return fail(
                                    "C15/hasher-value-is-not-a-product-of-one-prime-per-residual-occurrence",
                                    format!("op #{}: under {:?} the prime product of the residual fits in 128 bits, but the hash {:?} has a factor that is not a small prime", i, m, hv),
                                );
                            }
                        }
                    }
                }
                if exact {
                    for (h1, r1, m1, e1) in seen_h.iter() {
                        if *e1 && *h1 == hv {
                            ensure!(
                                *r1 == r,
                                "C15/hasher-equal-hash-different-residual",
                                "op #{}: assignments {:?} and {:?} hash equally but leave different residuals {:?} vs {:?}",
                                i,
                                m1,
                                m,
                                r1,
                                r
                            );
                        }
                    }
                }
                seen_h.push((hv, r, m, exact));
            }
        }
    }
    st.add("hasher.states_with_product_above_128_bits(only-if skipped)", inexact_states);
    if pops >= 1 && equal_resid_diff_decisions >= 1 {
        st.mark_nontrivial();
    }
    Ok(())
}

impl SubCheckT for Hasher {
    type Case = HasherCase;
    const NAME: &'static str = "hasher";
    const RULE: &'static str = "CnfHasher (clone of cnf.hasher(), in 30 % of the cases of a CNF obtained by condition()) under histories of push / decide / pop (pop only above depth 0; decides consistent with the decisions in effect) and hash(m) where m = decisions in effect + random consistent extras and m falsifies no clause: residual R(m) = {(clause occurrence, its unassigned literals)} over unsatisfied clauses of length > 1; equal residuals => equal hashes, and for every pair of states whose products of residual-occurrence primes (k-th occurrence = k-th prime) fit in 128 bits, equal hashes => equal residuals; for such states the hash value (Debug form) must factor into distinct small primes, one per residual occurrence, sharing factors exactly as the residuals share occurrences. Non-trivial: >=1 pop and two different assignments with equal residuals";
    fn cases(tier: Tier) -> u32 {
        tier.pick(10_000, 150_000)
    }
    fn strategy(_tier: Tier) -> BoxedStrategy<HasherCase> {
        let op = prop_oneof![
            2 => Just(HOp::Push),
            2 => Just(HOp::Pop),
            3 => (any::<u8>(), any::<bool>()).prop_map(|(v, b)| HOp::Decide(v, b)),
            5 => proptest::collection::vec(proptest::option::weighted(0.35, any::<bool>()), 8).prop_map(HOp::Hash),
        ];
        (sat_cnf_strategy(), proptest::collection::vec(op, 0..=40), proptest::option::weighted(0.3, (any::<u8>(), any::<bool>())))
            .prop_map(|(cnf, ops, pre_condition)| HasherCase { cnf, ops, pre_condition })
            .boxed()
    }
    fn run(case: &HasherCase, st: &mut Stats) -> CaseResult {
        run_hasher(case, st)
    }
}

// ---------------------------------------------------------------------------
// the hasher on formulas with thousands of literal occurrences
// ---------------------------------------------------------------------------

#[derive(Clone, Debug, Serialize, Deserialize)]
pub struct BigHasherState {
    /// clauses left open (mapped into the clause list)
    pub open: Vec<u16>,
    /// the companion state opens the clauses this many literal occurrences further on (index into OFFSETS)
    pub offset: u8,
    /// satisfying literals are announced through decide() (else only through the model passed to hash())
    pub via_decide: bool,
    /// falsify one literal of the first open clause
    pub restrict: bool,
    /// Some(k): the first open clause is the nearest wide clause (5..24 literals) and all but 1 + k % 12 of its
    /// literals are falsified
    #[serde(default)]
    pub wide_open: Option<u8>,
}

#[derive(Clone, Debug, Serialize, Deserialize)]
pub struct BigHasherCase {
    /// number of clauses; clause i is over variables of its own
    pub clauses: u16,
    /// false: every clause has two literals; true: two to four literals, chosen per clause
    pub mixed: bool,
    /// about one clause in this many (0 = none) is wide: 5..24 literals
    #[serde(default)]
    pub wide_every: u8,
    pub seed: u64,
    pub states: Vec<BigHasherState>,
}

const OFFSETS: [usize; 8] = [64, 256, 512, 1024, 2048, 4096, 1000, 1536];

fn first_primes(k: usize) -> &'static [u128] {
    static TABLE: std::sync::OnceLock<Vec<u128>> = std::sync::OnceLock::new();
    let t = TABLE.get_or_init(|| {
        let lim = 200_000usize;
        let mut sieve = vec![true; lim];
        let mut out = Vec::new();
        for i in 2..lim {
            if sieve[i] {
                out.push(i as u128);
                let mut j = i * i;
                while j < lim {
                    sieve[j] = false;
                    j += i;
                }
            }
        }
        out
    });
    &t[..k.min(t.len())]
}

pub struct BigHasher;

pub fn run_big_hasher(case: &BigHasherCase, st: &mut Stats) -> CaseResult {
    let m = case.clauses as usize;
    let r = |k: u64| splitmix(case.seed ^ k.wrapping_mul(0x9E37_79B9_7F4A_7C15));
    let mut gen: Vec<Vec<Literal>> = Vec::with_capacity(m);
    let mut next_var = 0usize;
    for i in 0..m {
        let x = r(i as u64);
        let wide = case.wide_every > 0 && (x >> 20) % (case.wide_every as u64) == 0;
        let w = if wide {
            5 + (x >> 30) as usize % 20
        } else if case.mixed {
            2 + (x >> 50) as usize % 3
        } else {
            2
        };
        gen.push((0..w).map(|j| Literal::new(VarLabel::new_usize(next_var + j), (x >> j) & 1 == 1)).collect());
        next_var += w;
    }
    let cnf = Cnf::new(&gen);
    let n = cnf.num_vars();
    // clauses exactly as the hasher sees them
    let clauses: Vec<Vec<(usize, bool)>> =
        cnf.clauses().iter().map(|c| c.iter().map(|l| (l.label().value_usize(), l.polarity())).collect()).collect();
    let occurrences: usize = clauses.iter().map(|c| c.len()).sum();
    let mut occ_start: Vec<usize> = Vec::with_capacity(clauses.len());
    {
        let mut k = 0;
        for c in clauses.iter() {
            occ_start.push(k);
            k += c.len();
        }
    }
    let primes = first_primes(occurrences + 64);
    if primes.len() < occurrences {
        return Ok(());
    }
    st.bump(match occurrences {
        0..=1024 => "bighasher.occurrences.upto_1024",
        1025..=2048 => "bighasher.occurrences.1025_2048",
        2049..=4096 => "bighasher.occurrences.2049_4096",
        _ => "bighasher.occurrences.above_4096",
    });
    let mut h = cnf.hasher().clone();
    // (open clause set, restrict?) -> expanded list of states
    let mut plan: Vec<(BTreeSet<usize>, bool, bool, Option<(usize, usize)>)> = Vec::new();
    let mut far_pairs = 0u64;
    let wide_idx: Vec<usize> = (0..clauses.len()).filter(|i| clauses[*i].len() >= 5).collect();
    for s in case.states.iter() {
        let mut open: BTreeSet<usize> = s.open.iter().take(3).map(|o| ((*o as usize) * clauses.len()) >> 16).collect();
        if open.is_empty() {
            continue;
        }
        if let (Some(k), false) = (s.wide_open, wide_idx.is_empty()) {
            // one wide clause, open on 1..12 of its literals, possibly next to the picked narrow clauses
            let first = *open.iter().next().unwrap();
            let w = *wide_idx.iter().min_by_key(|i| (**i as isize - first as isize).abs()).unwrap();
            open.remove(&first);
            open.insert(w);
            let keep = (1 + (k as usize) % 12).min(clauses[w].len());
            plan.push((open.clone(), s.via_decide, false, Some((w, keep))));
            continue;
        }
        plan.push((open.clone(), s.via_decide, s.restrict, None));
        // the companion: every open clause replaced by the clause that starts `d` occurrences later
        let d = OFFSETS[s.offset as usize % OFFSETS.len()];
        let shifted: Option<BTreeSet<usize>> = open
            .iter()
            .map(|ci| {
                let target = occ_start[*ci] + d;
                occ_start.binary_search(&target).ok().filter(|cj| clauses[*cj].len() == clauses[*ci].len())
            })
            .collect();
        if let Some(sh) = shifted {
            if sh != open {
                plan.push((sh, !s.via_decide, s.restrict, None));
                far_pairs += 1;
            }
        }
    }
    let mut seen: Vec<(HashedCNF, Resid, Option<u128>, BTreeSet<(usize, usize)>)> = Vec::new();
    let mut widest_clause_bits = 0u32;
    for (si, (open, via_decide, restrict, wide)) in plan.iter().enumerate() {
        h.push();
        let mut model: Vec<Option<bool>> = vec![None; n];
        for (ci, c) in clauses.iter().enumerate() {
            let x = r(0x5151 ^ ((si as u64) << 32) ^ ci as u64);
            if open.contains(&ci) {
                if let Some((w, keep)) = wide {
                    if *w == ci {
                        // falsify all but `keep` literals, chosen by the seed
                        let order = crate::big::permutation(x, c.len());
                        for j in order.iter().skip(*keep) {
                            let (v, p) = c[*j];
                            model[v] = Some(!p);
                            if *via_decide && (x >> (j % 40)) & 1 == 1 {
                                h.decide(Literal::new(VarLabel::new_usize(v), !p));
                            }
                        }
                        continue;
                    }
                }
                if *restrict && Some(&ci) == open.iter().next() && c.len() >= 2 {
                    let (v, p) = c[x as usize % c.len()];
                    model[v] = Some(!p);
                    if *via_decide {
                        h.decide(Literal::new(VarLabel::new_usize(v), !p));
                    }
                }
                continue;
            }
            let k = x as usize % c.len();
            let (v, p) = c[k];
            model[v] = Some(p);
            if *via_decide && (x >> 20) & 3 != 0 {
                h.decide(Literal::new(VarLabel::new_usize(v), p));
            }
            for (j, (v2, _)) in c.iter().enumerate() {
                if j != k && (x >> (24 + j)) & 1 == 1 {
                    model[*v2] = Some((x >> (30 + j)) & 1 == 1);
                }
            }
        }
        let pm = PartialModel::from_assignments(&model);
        let hv = h.hash(&pm);
        h.pop();
        let mut resid: Resid = BTreeSet::new();
        let mut occ_now: BTreeSet<(usize, usize)> = BTreeSet::new();
        let mut product: Option<u128> = Some(1);
        for (ci, c) in clauses.iter().enumerate() {
            if c.len() <= 1 || c.iter().any(|(v, p)| model[*v] == Some(*p)) {
                continue;
            }
            for (li, (v, _)) in c.iter().enumerate() {
                if model[*v].is_none() {
                    product = product.and_then(|x| x.checked_mul(primes[occ_start[ci] + li]));
                    occ_now.insert((ci, li));
                }
            }
            let cp: Option<u128> = c.iter().enumerate().filter(|(_, (v, _))| model[*v].is_none()).try_fold(1u128, |a, (li, _)| a.checked_mul(primes[occ_start[ci] + li]));
            widest_clause_bits = widest_clause_bits.max(cp.map(|x| 128 - x.leading_zeros()).unwrap_or(129));
            resid.insert((ci, c.iter().copied().filter(|(v, _)| model[*v].is_none()).collect()));
        }
        st.bump("bighasher.hashed_states");
        for (h1, r1, p1, o1) in seen.iter() {
            if *r1 == resid {
                ensure!(
                    *h1 == hv,
                    "C15/hasher-equal-residual-different-hash",
                    "{} clauses / {} literal occurrences: two assignments leave the same residual {:?} but hash differently ({:?} vs {:?})",
                    clauses.len(),
                    occurrences,
                    resid,
                    h1,
                    hv
                );
            } else if p1.is_some() && product.is_some() {
                ensure!(
                    *h1 != hv,
                    "C15/hasher-equal-hash-different-residual",
                    "{} clauses / {} literal occurrences: residuals {:?} and {:?} (prime products fit in 128 bits) hash equally: {:?}",
                    clauses.len(),
                    occurrences,
                    r1,
                    resid,
                    hv
                );
                if let (Some(f1), Some(f2)) = (debug_value(h1).and_then(|x| factors_over(x, primes)), debug_value(&hv).and_then(|x| factors_over(x, primes))) {
                    let a: BTreeSet<u128> = f1.into_iter().collect();
                    let b: BTreeSet<u128> = f2.into_iter().collect();
                    ensure!(
                        a.intersection(&b).count() == o1.intersection(&occ_now).count(),
                        "C15/hasher-value-is-not-a-product-of-one-prime-per-residual-occurrence",
                        "{} literal occurrences: two states share {} residual occurrences but their hashes share {} prime factors",
                        occurrences,
                        o1.intersection(&occ_now).count(),
                        a.intersection(&b).count()
                    );
                }
            }
        }
        if product.is_some() {
            match debug_value(&hv) {
                None => st.bump("bighasher.debug_form_not_understood(value oracle skipped)"),
                Some(x) => match factors_over(x, primes) {
                    Some(fs) => {
                        let distinct: BTreeSet<u128> = fs.iter().copied().collect();
                        ensure!(
                            distinct.len() == fs.len() && fs.len() == occ_now.len(),
                            "C15/hasher-value-is-not-a-product-of-one-prime-per-residual-occurrence",
                            "{} literal occurrences: the residual {:?} has {} occurrences and their prime product fits in 128 bits, but the hash {:?} factors as {:?}",
                            occurrences,
                            resid,
                            occ_now.len(),
                            hv,
                            fs
                        );
                        st.bump("bighasher.values_factorised");
                    }
                    None => {
                        return fail(
                            "C15/hasher-value-is-not-a-product-of-one-prime-per-residual-occurrence",
                            format!("{} literal occurrences: the prime product of the residual {:?} fits in 128 bits, but the hash {:?} has a factor outside the first {} primes", occurrences, resid, hv, primes.len()),
                        )
                    }
                },
            }
        } else {
            st.bump("bighasher.states_with_product_above_128_bits(only-if skipped)");
        }
        seen.push((hv, resid, product, occ_now));
    }
    st.bump(match widest_clause_bits {
        0..=32 => "bighasher.largest_single_clause_product.upto_32_bits",
        33..=64 => "bighasher.largest_single_clause_product.33_64_bits",
        65..=128 => "bighasher.largest_single_clause_product.65_128_bits",
        _ => "bighasher.largest_single_clause_product.above_128_bits",
    });
    st.add("bighasher.state_pairs_a_fixed_number_of_occurrences_apart", far_pairs);
    if occurrences > 1024 && (far_pairs >= 1 || widest_clause_bits > 64) {
        st.mark_nontrivial();
    }
    Ok(())
}

/// prime factors with multiplicity if x factors completely over the given primes
fn factors_over(mut x: u128, primes: &[u128]) -> Option<Vec<u128>> {
    if x == 0 {
        return None;
    }
    let mut out = Vec::new();
    for p in primes {
        while x % p == 0 {
            out.push(*p);
            x /= p;
        }
        if x == 1 {
            break;
        }
    }
    if x == 1 {
        Some(out)
    } else {
        None
    }
}

impl SubCheckT for BigHasher {
    type Case = BigHasherCase;
    const NAME: &'static str = "hasher_many_occurrences";
    const RULE: &'static str = "CnfHasher of 300..2300 clauses over variables of their own (two literals each, or two to four; in half the cases one clause in 8..60 has 5..24 literals), i.e. 600..9000 literal occurrences: states that satisfy every clause but 1..3 open ones (a wide clause is left open on 1..12 of its literals, the others falsified, so that a single clause's product passes 2^64) (through decide() and the model, or the model alone; optionally one literal of an open clause falsified), each paired with the state whose open clauses start 64 / 256 / 512 / 1000 / 1024 / 1536 / 2048 / 4096 occurrences further on; over all pairs of states of a case: equal residuals => equal hashes, different residuals with products within 128 bits => different hashes sharing exactly as many prime factors as residual occurrences; each exact hash value factors into one distinct prime per residual occurrence. Non-trivial: more than 1024 occurrences and at least one such pair or a single clause whose product passes 2^64";
    fn cases(tier: Tier) -> u32 {
        tier.pick(80, 1500)
    }
    fn strategy(_tier: Tier) -> BoxedStrategy<BigHasherCase> {
        let state = (
            proptest::collection::vec(any::<u16>(), 1..=3),
            0u8..8,
            any::<bool>(),
            proptest::bool::weighted(0.3),
            proptest::option::weighted(0.5, any::<u8>()),
        )
            .prop_map(|(open, offset, via_decide, restrict, wide_open)| BigHasherState { open, offset, via_decide, restrict, wide_open });
        (
            prop_oneof![1 => 300u16..=520, 5 => 521u16..=1100, 3 => 1101u16..=2300],
            proptest::bool::weighted(0.4),
            prop_oneof![1 => Just(0u8), 1 => 8u8..=60],
            any::<u64>(),
            proptest::collection::vec(state, 1..=4),
        )
            .prop_map(|(clauses, mixed, wide_every, seed, states)| BigHasherCase { clauses, mixed, wide_every, seed, states })
            .boxed()
    }
    fn run(case: &BigHasherCase, st: &mut Stats) -> CaseResult {
        run_big_hasher(case, st)
    }
}

#[allow(dead_code)]
fn _tt(_: Tt) {}

pub fn property() -> Property {
    Property {
        id: "C15",
        subs: vec![sub::<CnfUtil>(), sub::<WideCnf>(), sub::<Small>(), sub::<Models>(), sub::<Hasher>(), sub::<BigHasher>()],
        fuzz: vec![],
        assumptions: vec![
            "CNFs over <= 7 variables (evaluation, conditioning and counting also over 9..19 variables, against the harness's own enumeration); exact small-integer weights; the hasher additionally on formulas of 300..2300 clauses over disjoint variables (600..6000 literal occurrences; CnfHasher::new is quadratic, larger formulas are out of a run's budget)",
            "hash(m) is only compared for assignments m that contain every decision in effect and falsify no clause, as the statement requires",
            "residual identity is occurrence-level (one prime per literal occurrence); 'only then' is asserted for pairs of states whose products of residual-occurrence primes both fit in 128 bits",
        ],
        nt_floor_percent: 5,
    }
}
