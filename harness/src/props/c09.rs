//! C09 — unit propagation is sound, runs to fixpoint, and is exactly undone by pop.
use crate::cnfgen::*;
use crate::engine::*;
use crate::tt::Tt;
use proptest::prelude::*;
use rsdd::repr::{Cnf, DecisionResult, Literal, SATSolver, VarLabel};
use serde::{Deserialize, Serialize};
use std::collections::{BTreeMap, BTreeSet};

#[derive(Clone, Debug, Serialize, Deserialize, PartialEq)]
pub enum SOp {
    Decide(u8, bool),
    Pop,
}

#[derive(Clone, Debug, Serialize, Deserialize)]
pub struct Case {
    pub cnf: CnfCase,
    pub ops: Vec<SOp>,
}

pub struct History;

#[derive(Clone, Debug)]
struct Rec {
    decisions: Vec<(usize, bool)>,
    model: Vec<Option<bool>>,
    hash: u128,
    is_sat: bool,
    diff: BTreeSet<(usize, bool)>,
}

type Residual = Vec<Vec<(usize, bool)>>;

struct Ctx {
    n: usize,
    /// clauses as literal sets (after the harness's own de-duplication)
    clauses: Vec<Vec<(usize, bool)>>,
    taut: Vec<bool>,
    base: Tt,
    /// number of literal occurrences in non-tautological de-duplicated clauses
    occurrences: usize,
}

fn lit_true(m: &[Option<bool>], l: (usize, bool)) -> bool {
    m[l.0] == Some(l.1)
}
fn lit_false(m: &[Option<bool>], l: (usize, bool)) -> bool {
    m[l.0] == Some(!l.1)
}

fn residual(ctx: &Ctx, m: &[Option<bool>]) -> Residual {
    let mut r: Residual = Vec::new();
    for (i, c) in ctx.clauses.iter().enumerate() {
        if ctx.taut[i] {
            continue;
        }
        if c.iter().any(|l| lit_true(m, *l)) {
            continue;
        }
        let rest: Vec<(usize, bool)> = c.iter().copied().filter(|l| m[l.0].is_none()).collect();
        r.push(rest);
    }
    r.sort();
    r
}

fn read_diff(s: &SATSolver) -> BTreeSet<(usize, bool)> {
    s.difference_iter().map(|l| (l.label().value_usize(), l.polarity())).collect()
}

/// invariants of one visible solver state
fn check_state(ctx: &Ctx, s: &SATSolver, rec: &Rec, when: &str) -> CaseResult {
    // (a) is_set agrees with the reconstructed model
    for v in 0..ctx.n {
        ensure!(
            s.is_set(VarLabel::new_usize(v)) == rec.model[v].is_some(),
            "C09/is-set-disagrees-with-reported-literals",
            "{}: is_set(x{}) = {} but the literals reported through difference_iter give {:?}",
            when,
            v,
            s.is_set(VarLabel::new_usize(v)),
            rec.model[v]
        );
    }
    // (b) soundness: every assigned literal is entailed by CNF + decisions
    let mut ctx_tt = ctx.base;
    for (v, b) in rec.decisions.iter() {
        ctx_tt = ctx_tt.and(Tt::lit(*v, *b));
    }
    for v in 0..ctx.n {
        if let Some(val) = rec.model[v] {
            ensure!(
                ctx_tt.and(Tt::lit(v, !val)).is_false(),
                "C09/assigned-literal-not-entailed",
                "{}: x{} = {} is assigned but CNF and decisions {:?} have a model with the opposite value",
                when,
                v,
                val,
                rec.decisions
            );
        }
    }
    // (d) fixpoint: no falsified clause, no unsatisfied clause with exactly one unassigned literal
    for c in ctx.clauses.iter() {
        if c.iter().any(|l| lit_true(&rec.model, *l)) {
            continue;
        }
        let unassigned: Vec<&(usize, bool)> = c.iter().filter(|l| rec.model[l.0].is_none()).collect();
        ensure!(
            !c.iter().all(|l| lit_false(&rec.model, *l)),
            "C09/falsified-clause-not-reported",
            "{}: clause {:?} is falsified by the model {:?} but no conflict was reported (decisions {:?})",
            when,
            c,
            rec.model,
            rec.decisions
        );
        ensure!(
            unassigned.len() != 1,
            "C09/unit-left-unpropagated",
            "{}: clause {:?} has exactly one unassigned literal {:?} under the model {:?} (decisions {:?})",
            when,
            c,
            unassigned,
            rec.model,
            rec.decisions
        );
    }
    // (e) satisfied flag
    let all_sat = ctx
        .clauses
        .iter()
        .enumerate()
        .all(|(i, c)| ctx.taut[i] || c.iter().any(|l| lit_true(&rec.model, *l)));
    ensure!(
        s.is_sat() == all_sat,
        "C09/is-sat-flag",
        "{}: is_sat() = {} but 'every non-tautological clause has a true literal' is {} (model {:?})",
        when,
        s.is_sat(),
        all_sat,
        rec.model
    );
    Ok(())
}

fn observe(ctx: &Ctx, s: &SATSolver, decisions: Vec<(usize, bool)>, prev: Option<&Rec>) -> Result<Rec, Failure> {
    let diff = read_diff(s);
    let mut model = match prev {
        Some(p) => p.model.clone(),
        None => vec![None; ctx.n],
    };
    for (v, b) in diff.iter() {
        ensure!(
            *v < ctx.n && model[*v].is_none(),
            "C09/difference-reports-already-assigned-variable",
            "difference_iter reports x{} = {} which was already assigned ({:?}) or is out of range",
            v,
            b,
            model.get(*v)
        );
        model[*v] = Some(*b);
    }
    Ok(Rec {
        decisions,
        model,
        hash: s.cur_hash(),
        is_sat: s.is_sat(),
        diff,
    })
}

pub fn run_case(case: &Case, st: &mut Stats) -> CaseResult {
    let cnf: Cnf = case.cnf.to_rsdd();
    let n = cnf.num_vars();
    // what is done with a CNF takes the Cnf object as its input (whether Cnf::new kept the generating list is
    // C15's concern): the clause list is read back through clauses()
    let seen = CnfCase::read_back(&cnf);
    st.flag("cnf_object_differs_from_generating_list(C15's concern)", seen.clauses != case.cnf.clauses);
    if n > crate::tt::NV || seen.num_vars() > n {
        return Ok(());
    }

    let clauses: Vec<Vec<(usize, bool)>> = seen
        .clauses
        .iter()
        .map(|c| {
            let s: BTreeSet<(usize, bool)> = c.iter().map(|(v, p)| (*v as usize, *p)).collect();
            s.into_iter().collect()
        })
        .collect();
    let taut: Vec<bool> = clauses.iter().map(|c| c.iter().any(|(v, p)| c.contains(&(*v, !*p)))).collect();
    let occurrences: usize = clauses.iter().zip(taut.iter()).filter(|(_, t)| !**t).map(|(c, _)| c.len()).sum();
    let ctx = Ctx {
        n,
        clauses,
        taut,
        base: seen.tt(),
        occurrences,
    };
    let solver = SATSolver::new(cnf.clone());
    let Some(mut s) = solver else {
        // (c) unsatisfiability reported at construction => no model at all
        ensure!(
            ctx.base.is_false(),
            "C09/unsat-reported-but-satisfiable",
            "SATSolver::new reported UNSAT but the CNF {:?} has a model",
            seen.clauses
        );
        st.bump("unsat_at_construction");
        return Ok(());
    };
    let mut stack: Vec<Rec> = vec![observe(&ctx, &s, vec![], None)?];
    check_state(&ctx, &s, &stack[0], "after construction")?;
    // (g) all visited states: hash -> residual
    let mut by_hash: BTreeMap<u128, (Residual, Vec<(usize, bool)>)> = BTreeMap::new();
    // the property states no size limit for the solver's hash: beyond 26 occurrences the 128-bit product can wrap
    // around, and an equal hash for different residuals would then need a coincidence on 127 bits, which
    // would itself be a violation of the property as stated
    let hash_exact = true;
    if hash_exact {
        by_hash.insert(stack[0].hash, (residual(&ctx, &stack[0].model), vec![]));
    }
    // systematic sweep: every state reachable by one or two decisions from the initial state is visited with
    // decide/pop, checked, and entered into the hash -> residual table (sibling states are where a residual
    // hash that forgets part of the residual collides)
    if n > 0 {
        for v1 in 0..n {
            for b1 in [false, true] {
                let root = stack[0].clone();
                let r1 = s.decide(Literal::new(VarLabel::new_usize(v1), b1));
                if matches!(r1, DecisionResult::UNSAT) {
                    ensure!(
                        ctx.base.and(Tt::lit(v1, b1)).is_false(),
                        "C09/unsat-reported-but-satisfiable",
                        "sweep: decide(x{} = {}) from the initial state reported UNSAT but CNF and decision have a model",
                        v1,
                        b1
                    );
                    st.bump("sweep_conflicts");
                    continue;
                }
                let rec1 = observe(&ctx, &s, vec![(v1, b1)], Some(&root))?;
                check_state(&ctx, &s, &rec1, &format!("sweep: decide(x{} = {})", v1, b1))?;
                let mut frontier: Vec<Rec> = vec![rec1.clone()];
                for v2 in 0..n {
                    if rec1.model[v2].is_some() {
                        continue;
                    }
                    for b2 in [false, true] {
                        let r2 = s.decide(Literal::new(VarLabel::new_usize(v2), b2));
                        if matches!(r2, DecisionResult::UNSAT) {
                            ensure!(
                                ctx.base.and(Tt::lit(v1, b1)).and(Tt::lit(v2, b2)).is_false(),
                                "C09/unsat-reported-but-satisfiable",
                                "sweep: decide(x{} = {}), decide(x{} = {}) reported UNSAT but CNF and decisions have a model",
                                v1,
                                b1,
                                v2,
                                b2
                            );
                            st.bump("sweep_conflicts");
                            continue;
                        }
                        let rec2 = observe(&ctx, &s, vec![(v1, b1), (v2, b2)], Some(&rec1))?;
                        check_state(&ctx, &s, &rec2, &format!("sweep: decide(x{} = {}), decide(x{} = {})", v1, b1, v2, b2))?;
                        frontier.push(rec2);
                        s.pop();
                    }
                }
                s.pop();
                if hash_exact {
                    for rec in frontier {
                        let r = residual(&ctx, &rec.model);
                        if let Some((r0, d0)) = by_hash.get(&rec.hash) {
                            ensure!(
                                *r0 == r,
                                "C09/equal-hash-different-residual",
                                "sweep: decisions {:?} and {:?} give the same hash {} but different residuals {:?} vs {:?}",
                                d0,
                                rec.decisions,
                                rec.hash,
                                r0,
                                r
                            );
                        } else {
                            by_hash.insert(rec.hash, (r, rec.decisions.clone()));
                        }
                    }
                }
                st.bump("sweep_roots");
            }
        }
        // the sweep must leave the solver exactly where it started
        let now = observe(&ctx, &s, vec![], None)?;
        ensure!(
            now.model == stack[0].model && now.hash == stack[0].hash && now.is_sat == stack[0].is_sat,
            "C09/pop-did-not-restore-state",
            "after the decide/pop sweep the initial state is not restored"
        );
    }
    let mut pops_then_other = 0u64;
    let mut last_popped: Option<(usize, bool)> = None;
    let mut implied_steps = 0u64;
    for (i, op) in case.ops.iter().enumerate() {
        match op {
            SOp::Decide(v, b) => {
                if n == 0 {
                    continue;
                }
                let v = ((*v as usize) * n) >> 8;
                let top = stack.last().unwrap().clone();
                let mut decisions = top.decisions.clone();
                decisions.push((v, *b));
                let when = format!("after op #{} decide(x{} = {}) on decisions {:?}", i, v, b, top.decisions);
                if let Some(lp) = last_popped {
                    if lp != (v, *b) {
                        pops_then_other += 1;
                    }
                    last_popped = None;
                }
                if top.model[v].is_some() {
                    st.bump("redecision");
                }
                let res = s.decide(Literal::new(VarLabel::new_usize(v), *b));
                match res {
                    DecisionResult::UNSAT => {
                        st.bump("conflicts");
                        let mut t = ctx.base;
                        for (dv, db) in decisions.iter() {
                            t = t.and(Tt::lit(*dv, *db));
                        }
                        ensure!(
                            t.is_false(),
                            "C09/unsat-reported-but-satisfiable",
                            "{}: UNSAT was reported but CNF and decisions have a model",
                            when
                        );
                        // UNSAT does not push: the visible state must be unchanged
                        let now = observe(&ctx, &s, top.decisions.clone(), if stack.len() >= 2 { Some(&stack[stack.len() - 2]) } else { None })?;
                        ensure!(
                            now.model == top.model && now.hash == top.hash && now.is_sat == top.is_sat && now.diff == top.diff,
                            "C09/state-changed-by-failed-decide",
                            "{}: a decide that reported UNSAT changed the visible state",
                            when
                        );
                    }
                    DecisionResult::SAT | DecisionResult::Unknown => {
                        let rec = observe(&ctx, &s, decisions, Some(&top))?;
                        ensure!(
                            rec.model[v] == Some(*b),
                            "C09/decided-literal-not-assigned",
                            "{}: the decided literal is not part of the model ({:?})",
                            when,
                            rec.model[v]
                        );
                        check_state(&ctx, &s, &rec, &when)?;
                        let reported_sat = matches!(res, DecisionResult::SAT);
                        ensure!(
                            reported_sat == s.is_sat(),
                            "C09/decision-result-vs-is-sat",
                            "{}: decide returned {} but is_sat() = {}",
                            when,
                            if reported_sat { "SAT" } else { "Unknown" },
                            s.is_sat()
                        );
                        if rec.diff.len() > 1 || (rec.diff.len() == 1 && top.model[v].is_some()) {
                            implied_steps += 1;
                        }
                        if hash_exact {
                            let r = residual(&ctx, &rec.model);
                            if let Some((r0, d0)) = by_hash.get(&rec.hash) {
                                ensure!(
                                    *r0 == r,
                                    "C09/equal-hash-different-residual",
                                    "{}: hash {} was already seen under decisions {:?} with residual {:?}, now residual {:?}",
                                    when,
                                    rec.hash,
                                    d0,
                                    r0,
                                    r
                                );
                                st.bump("hash_revisits");
                            } else {
                                by_hash.insert(rec.hash, (r, rec.decisions.clone()));
                            }
                        }
                        stack.push(rec);
                    }
                }
            }
            SOp::Pop => {
                if stack.len() < 2 {
                    st.bump("pop_at_depth0_skipped");
                    continue;
                }
                let popped = stack.pop().unwrap();
                last_popped = popped.decisions.last().copied();
                s.pop();
                st.bump("pops");
                let want = stack.last().unwrap();
                let prev = if stack.len() >= 2 { Some(&stack[stack.len() - 2]) } else { None };
                let now = observe(&ctx, &s, want.decisions.clone(), prev)?;
                ensure!(
                    now.model == want.model && now.hash == want.hash && now.is_sat == want.is_sat && now.diff == want.diff,
                    "C09/pop-did-not-restore-state",
                    "op #{}: after pop the state differs from the one recorded before the matching decide: model {:?} vs {:?}, hash {} vs {}, is_sat {} vs {}, difference {:?} vs {:?}",
                    i,
                    now.model,
                    want.model,
                    now.hash,
                    want.hash,
                    now.is_sat,
                    want.is_sat,
                    now.diff,
                    want.diff
                );
                check_state(&ctx, &s, want, &format!("after op #{} pop", i))?;
            }
        }
        // (h) differential: a fresh solver replaying the surviving decisions sees the same state
        if i % 3 == 2 || i + 1 == case.ops.len() {
            let top = stack.last().unwrap();
            if let Some(mut f) = SATSolver::new(cnf.clone()) {
                let mut frec = observe(&ctx, &f, vec![], None)?;
                let mut ok = true;
                for (k, (dv, db)) in top.decisions.iter().enumerate() {
                    match f.decide(Literal::new(VarLabel::new_usize(*dv), *db)) {
                        DecisionResult::UNSAT => {
                            ok = false;
                            break;
                        }
                        _ => {
                            frec = observe(&ctx, &f, top.decisions[..=k].to_vec(), Some(&frec))?;
                        }
                    }
                }
                ensure!(
                    ok && frec.model == top.model && frec.hash == top.hash && frec.is_sat == top.is_sat,
                    "C09/long-lived-solver-differs-from-fresh-replay",
                    "after op #{}: decisions {:?}: long-lived solver has model {:?} hash {} is_sat {}; a fresh solver replaying the same decisions has (accepted: {}) model {:?} hash {} is_sat {}",
                    i,
                    top.decisions,
                    top.model,
                    top.hash,
                    top.is_sat,
                    ok,
                    frec.model,
                    frec.hash,
                    frec.is_sat
                );
                st.bump("fresh_replays");
            }
        }
    }
    st.add("implied_steps", implied_steps);
    st.add("pop_then_different_decision", pops_then_other);
    st.flag("cnf_above_26_occurrences(hash product may wrap)", ctx.occurrences > 26);
    st.flag("has_tautological_clause", ctx.taut.iter().any(|t| *t));
    if pops_then_other >= 1 && implied_steps >= 1 {
        st.mark_nontrivial();
    }
    Ok(())
}

impl SubCheckT for History {
    type Case = Case;
    const NAME: &'static str = "history";
    const RULE: &'static str = "random CNF (n<=6, <=10 clauses of length 1..4 incl. duplicates, tautologies, units, occasional empty clause, contradiction cores) x <=40 decide/pop operations (pop only above the initial state; re-decisions kept). After construction and every step: is_set agrees with the model rebuilt from difference_iter; every assigned literal is entailed (truth-table brute force); UNSAT only if no model extends the decisions; otherwise no falsified clause and no unsatisfied clause with exactly one unassigned literal; is_sat iff every non-tautological clause has a true literal; pop restores model/hash/is_sat/difference; equal hashes => equal residuals (no size limit: a wrapped 128-bit product colliding would need a 127-bit coincidence), over the history's states and over a systematic decide/pop sweep of all states at depth <=2; a fresh solver replaying the surviving decisions agrees. Non-trivial: a pop followed by a different decision and a step that implied a literal beyond the decided one";
    fn cases(tier: Tier) -> u32 {
        tier.pick(5000, 200_000)
    }
    fn strategy(_tier: Tier) -> BoxedStrategy<Case> {
        (
            sat_cnf_strategy(),
            proptest::collection::vec(
                prop_oneof![
                    3 => (any::<u8>(), any::<bool>()).prop_map(|(v, b)| SOp::Decide(v, b)),
                    1 => Just(SOp::Pop),
                ],
                0..=40,
            ),
        )
            .prop_map(|(cnf, ops)| Case { cnf, ops })
            .boxed()
    }
    fn run(case: &Case, st: &mut Stats) -> CaseResult {
        run_case(case, st)
    }
}

// ---------------------------------------------------------------------------
// long implication chains: hundreds of variables, propagation hundreds of literals deep
// ---------------------------------------------------------------------------

#[derive(Clone, Debug, Serialize, Deserialize)]
pub struct ChainCase {
    pub n: u16,
    pub seed: u64,
    /// bit 0: a unit clause starts the chain at construction; bits 1-2 both set: a closing clause contradicts the
    /// end of the chain; bits 2..: how many side clauses
    pub shape: u8,
    /// decisions: (position along the chain, scaled; polarity relative to the chain literal)
    pub decisions: Vec<(u16, bool)>,
}

pub struct Chains;

type Lit2 = (usize, bool);

/// the harness's own unit propagation to fixpoint: None on a falsified clause
fn naive_fixpoint(clauses: &[Vec<Lit2>], m: &mut [Option<bool>]) -> bool {
    loop {
        let mut changed = false;
        for c in clauses.iter() {
            if c.iter().any(|(v, p)| m[*v] == Some(*p)) {
                continue;
            }
            let open: Vec<&Lit2> = c.iter().filter(|(v, _)| m[*v].is_none()).collect();
            if open.is_empty() {
                return false;
            }
            // a clause whose unassigned literals are all the same literal is unit
            if open.iter().all(|l| **l == *open[0]) {
                m[open[0].0] = Some(open[0].1);
                changed = true;
            }
        }
        if !changed {
            return true;
        }
    }
}

pub fn run_chains(case: &ChainCase, st: &mut Stats) -> CaseResult {
    let n = (case.n as usize).clamp(8, 1000);
    let perm = crate::big::permutation(case.seed, n);
    let pol: Vec<bool> = (0..n).map(|i| splitmix(case.seed ^ (i as u64).wrapping_mul(0x2545_F491_4F6C_DD1D)) & 1 == 1).collect();
    let lit = |i: usize| -> Lit2 { (perm[i], pol[i]) };
    let neg = |l: Lit2| -> Lit2 { (l.0, !l.1) };
    let mut clauses: Vec<Vec<Lit2>> = Vec::new();
    for i in 0..n - 1 {
        let r = splitmix(case.seed ^ 0xABCD ^ (i as u64) << 8);
        if i >= 3 && r % 7 == 0 {
            // ternary link: needs one of the two preceding chain literals as well (so that a propagation that
            // started further back runs through it)
            let j = i - 1 - ((r >> 8) as usize % 2);
            clauses.push(vec![neg(lit(i)), neg(lit(j)), lit(i + 1)]);
        } else {
            clauses.push(vec![neg(lit(i)), lit(i + 1)]);
        }
    }
    for k in 0..(case.shape >> 3) as usize % 5 {
        // side clauses over chain variables; three quarters of them hold once the chain is fully assigned
        let r = splitmix(case.seed ^ 0x51DE ^ k as u64);
        let (a, b) = ((r as usize) % n, ((r >> 20) as usize) % n);
        let first = if (r >> 40) % 4 != 0 { lit(a) } else { neg(lit(a)) };
        clauses.push(vec![first, (perm[b], (r >> 43) & 1 == 1)]);
    }
    if case.shape & 0b110 == 0b110 {
        let k = (splitmix(case.seed ^ 0xC105E) as usize) % (n - 1);
        clauses.push(vec![neg(lit(n - 1)), neg(lit(k))]);
    }
    if case.shape & 1 != 0 {
        clauses.push(vec![lit(0)]);
    }
    // keep the variable count at n
    let lits: Vec<Vec<Literal>> = clauses.iter().map(|c| c.iter().map(|(v, p)| Literal::new(VarLabel::new_usize(*v), *p)).collect()).collect();
    let cnf = Cnf::new(&lits);
    if cnf.num_vars() != n {
        return Ok(());
    }
    let clauses: Vec<Vec<Lit2>> = cnf.clauses().iter().map(|c| c.iter().map(|l| (l.label().value_usize(), l.polarity())).collect()).collect();
    let sat_flag = |m: &[Option<bool>]| -> bool {
        clauses.iter().all(|c| c.iter().any(|(v, p)| c.contains(&(*v, !*p))) || c.iter().any(|(v, p)| m[*v] == Some(*p)))
    };
    let mut ref_m: Vec<Option<bool>> = vec![None; n];
    let ok0 = naive_fixpoint(&clauses, &mut ref_m);
    let solver = SATSolver::new(cnf.clone());
    if solver.is_none() && ok0 {
        // more than unit propagation: allowed if there really is no model (the harness's own search decides)
        let mut budget = 300u64;
        return match dpll(&clauses, &mut ref_m.clone(), &mut budget) {
            Some(true) => fail("C09/unsat-reported-but-satisfiable", format!("{}-variable chain CNF (seed {}): SATSolver::new returned UNSAT but the CNF has a model", n, case.seed)),
            _ => {
                st.bump("chains.unsat_beyond_unit_propagation_or_undecided");
                Ok(())
            }
        };
    }
    ensure!(
        solver.is_some() || !ok0,
        "C09/falsified-clause-not-reported",
        "{}-variable chain CNF: SATSolver::new returned a solver but unit propagation from the unit clauses falsifies a clause",
        n
    );
    let Some(mut s) = solver else {
        st.bump("chains.unsat_at_construction");
        return Ok(());
    };
    let compare = |s: &SATSolver, model: &[Option<bool>], ref_m: &[Option<bool>], when: &str| -> CaseResult {
        let mut more = false;
        for v in 0..n {
            ensure!(
                s.is_set(VarLabel::new_usize(v)) == model[v].is_some(),
                "C09/is-set-disagrees-with-reported-literals",
                "{}: is_set(x{}) = {} but difference_iter gave {:?}",
                when,
                v,
                s.is_set(VarLabel::new_usize(v)),
                model[v]
            );
            if let (Some(a), None) = (model[v], ref_m[v]) {
                // more than unit propagation gives: allowed if entailed (the fixpoint plus the opposite value has no model)
                let mut m2 = ref_m.to_vec();
                m2[v] = Some(!a);
                let mut budget = 300u64;
                if dpll(&clauses, &mut m2, &mut budget) != Some(true) {
                    more = true;
                    continue;
                }
            }
            if model[v] != ref_m[v] {
                return fail(
                    if model[v].is_none() { "C09/unit-left-unpropagated" } else { "C09/assigned-literal-not-entailed" },
                    format!(
                        "{} ({}-variable chain CNF, seed {}): x{} is {:?} in the solver but {:?} at the fixpoint of unit propagation ({} literals assigned there)",
                        when,
                        n,
                        case.seed,
                        v,
                        model[v],
                        ref_m[v],
                        ref_m.iter().filter(|x| x.is_some()).count()
                    ),
                );
            }
        }
        if more {
            // the solver knows more than unit propagation gives: the flag is the flag of its own assignment
            return Ok(());
        }
        ensure!(
            s.is_sat() == sat_flag(ref_m),
            "C09/is-sat-flag",
            "{}: is_sat() = {} but {} non-tautological clause has no true literal",
            when,
            s.is_sat(),
            if sat_flag(ref_m) { "no" } else { "some" }
        );
        Ok(())
    };
    let mut model: Vec<Option<bool>> = vec![None; n];
    for l in s.difference_iter() {
        model[l.label().value_usize()] = Some(l.polarity());
    }
    compare(&s, &model, &ref_m, "after construction")?;
    let mut stack: Vec<(Vec<Option<bool>>, Vec<Option<bool>>, u128)> = vec![(model.clone(), ref_m.clone(), s.cur_hash())];
    let mut deepest = ref_m.iter().filter(|x| x.is_some()).count();
    for (k, (pos, rel)) in case.decisions.iter().enumerate() {
        // positions are biased towards the start of the chain (the first decision often is its first link)
        let i0 = pick(*pos, n);
        let i = if k == 0 && pos & 1 == 0 { 0 } else { i0 * i0 / n };
        let (v, p) = (perm[i], pol[i] == *rel);
        let (cur_model, cur_ref, _) = stack.last().unwrap().clone();
        if cur_model[v].is_some() {
            continue;
        }
        let mut next_ref = cur_ref.clone();
        next_ref[v] = Some(p);
        let ok = naive_fixpoint(&clauses, &mut next_ref);
        let res = s.decide(Literal::new(VarLabel::new_usize(v), p));
        let when = format!("decision #{} x{} = {} (chain position {})", k, v, p, i);
        if matches!(res, DecisionResult::UNSAT) && ok {
            let mut budget = 300u64;
            return match dpll(&clauses, &mut next_ref.clone(), &mut budget) {
                Some(true) => fail("C09/unsat-reported-but-satisfiable", format!("{} ({}-variable chain CNF, seed {}): decide returned UNSAT but CNF and decisions have a model", when, n, case.seed)),
                _ => {
                    st.bump("chains.unsat_beyond_unit_propagation_or_undecided");
                    Ok(())
                }
            };
        }
        ensure!(
            matches!(res, DecisionResult::UNSAT) || ok,
            "C09/falsified-clause-not-reported",
            "{}: decide reported no conflict but unit propagation falsifies a clause",
            when
        );
        if !ok {
            st.bump("chains.conflicts");
            continue;
        }
        let mut next_model = cur_model.clone();
        for l in s.difference_iter() {
            next_model[l.label().value_usize()] = Some(l.polarity());
        }
        let gained = next_ref.iter().filter(|x| x.is_some()).count() - cur_ref.iter().filter(|x| x.is_some()).count();
        deepest = deepest.max(gained);
        compare(&s, &next_model, &next_ref, &when)?;
        stack.push((next_model, next_ref, s.cur_hash()));
    }
    // pop everything: each pop restores the recorded state
    while stack.len() > 1 {
        stack.pop();
        s.pop();
        let (m, r, h) = stack.last().unwrap().clone();
        ensure!(s.cur_hash() == h, "C09/pop-did-not-restore-state", "after a pop the hash differs from the one recorded before the matching decision");
        for v in 0..n {
            ensure!(
                s.is_set(VarLabel::new_usize(v)) == m[v].is_some(),
                "C09/pop-did-not-restore-state",
                "after a pop x{} is {} but it was {} before the matching decision",
                v,
                if s.is_set(VarLabel::new_usize(v)) { "set" } else { "unset" },
                if m[v].is_some() { "set" } else { "unset" }
            );
        }
        ensure!(s.is_sat() == sat_flag(&r), "C09/pop-did-not-restore-state", "after a pop is_sat() differs from the recorded state");
    }
    st.flag("chains.one_step_implied_more_than_256_literals", deepest > 256);
    st.flag("chains.one_step_implied_more_than_64_literals", deepest > 64);
    if deepest > 32 {
        st.mark_nontrivial();
    }
    Ok(())
}

impl SubCheckT for Chains {
    type Case = ChainCase;
    const NAME: &'static str = "long_implication_chains";
    const RULE: &'static str = "CNFs over 8..1000 variables made of one implication chain through all variables (pseudo-random variable order and polarities, every seventh link ternary with an earlier chain literal, up to 4 binary side clauses, optionally a unit clause that starts the chain at construction and a closing clause that contradicts its end), then up to 6 decisions at random chain positions and pops: UNSAT whenever the harness's own naive fixpoint propagator falsifies a clause (an UNSAT or an assigned literal beyond unit propagation is accepted unless the harness's own search finds a model that contradicts it); otherwise the model rebuilt from difference_iter contains that fixpoint literal for literal, is_set agrees, is_sat is the satisfied flag of the fixpoint, and pops restore hash, assigned set and flag. Non-trivial: some step implied more than 32 literals";
    fn cases(tier: Tier) -> u32 {
        tier.pick(300, 8000)
    }
    fn strategy(_tier: Tier) -> BoxedStrategy<ChainCase> {
        (
            prop_oneof![2 => 8u16..=64, 3 => 65u16..=400, 3 => 401u16..=1000],
            any::<u64>(),
            any::<u8>(),
            proptest::collection::vec((any::<u16>(), prop_oneof![4 => Just(true), 1 => Just(false)]), 0..=6),
        )
            .prop_map(|(n, seed, shape, decisions)| ChainCase { n, seed, shape, decisions })
            .boxed()
    }
    fn run(case: &ChainCase, st: &mut Stats) -> CaseResult {
        run_chains(case, st)
    }
}

// ---------------------------------------------------------------------------
// decide / pop walks on mid-size random CNFs
// ---------------------------------------------------------------------------

#[derive(Clone, Debug, Serialize, Deserialize)]
pub struct WalkCase {
    pub nv: u8,
    pub seed: u64,
    /// clauses per variable, in tenths above 2.0
    pub density: u8,
    /// (pop?, variable pick, value)
    pub ops: Vec<(bool, u16, bool)>,
}

pub struct MidWalks;

/// complete search with the naive propagator; None when the node budget runs out
fn dpll(clauses: &[Vec<Lit2>], m: &mut Vec<Option<bool>>, budget: &mut u64) -> Option<bool> {
    if *budget == 0 {
        return None;
    }
    *budget -= 1;
    if !naive_fixpoint(clauses, m) {
        return Some(false);
    }
    let open = clauses.iter().find(|c| !c.iter().any(|(v, p)| m[*v] == Some(*p))).and_then(|c| c.iter().find(|(v, _)| m[*v].is_none()));
    let Some((v, p)) = open.copied() else {
        return Some(true);
    };
    for val in [p, !p] {
        let mut m2 = m.clone();
        m2[v] = Some(val);
        match dpll(clauses, &mut m2, budget) {
            Some(true) => {
                *m = m2;
                return Some(true);
            }
            Some(false) => {}
            None => return None,
        }
    }
    Some(false)
}

pub fn walk_clauses(case: &WalkCase) -> (usize, Vec<Vec<Lit2>>) {
    let nv = (case.nv as usize).clamp(12, 80);
    let r = |k: u64| splitmix(case.seed ^ k.wrapping_mul(0x9E37_79B9_7F4A_7C15));
    let m = nv * (20 + (case.density % 25) as usize) / 10;
    let hub = (r(0xAB) as usize) % nv;
    let mut out: Vec<Vec<Lit2>> = Vec::new();
    for c in 0..m as u64 {
        let x = r(c + 1);
        let w = match x % 10 {
            0 => 2,
            1..=6 => 3,
            7..=8 => 4,
            _ => 5,
        };
        let mut cl: Vec<Lit2> = Vec::new();
        let mut k = 0u64;
        while cl.len() < w {
            let y = splitmix(x ^ k.wrapping_mul(0xD1B5_4A32_D192_ED03));
            k += 1;
            let v = if cl.is_empty() && (x >> 50) % 4 == 0 { hub } else { (y as usize >> 8) % nv };
            if cl.iter().all(|l| l.0 != v) {
                cl.push((v, y & 1 == 1));
            }
        }
        out.push(cl);
    }
    for wct in 0..(r(0xCD) % 4) {
        let x = r(0x1000 + wct);
        let w = 7 + (x % 6) as usize;
        let perm = crate::big::permutation(x, nv);
        out.push(perm.iter().take(w.min(nv)).enumerate().map(|(j, v)| (*v, (x >> (8 + j)) & 1 == 1)).collect());
    }
    if r(0xEF) % 3 == 0 {
        out.push(vec![((r(0xF0) as usize) % nv, r(0xF1) & 1 == 1)]);
    }
    if !out.iter().flatten().any(|l| l.0 == nv - 1) {
        out.push(vec![(nv - 1, true), (hub % (nv - 1), false)]);
    }
    (nv, out)
}

pub fn run_walk(case: &WalkCase, st: &mut Stats) -> CaseResult {
    let (nv, gen) = walk_clauses(case);
    let lits: Vec<Vec<Literal>> = gen.iter().map(|c| c.iter().map(|(v, p)| Literal::new(VarLabel::new_usize(*v), *p)).collect()).collect();
    let cnf = Cnf::new(&lits);
    let n = cnf.num_vars();
    if n != nv {
        return Ok(());
    }
    // the solver's input is the Cnf object
    let clauses: Vec<Vec<Lit2>> = cnf.clauses().iter().map(|c| c.iter().map(|l| (l.label().value_usize(), l.polarity())).collect()).collect();
    let taut = |c: &Vec<Lit2>| c.iter().any(|(v, p)| c.contains(&(*v, !*p)));
    let sat_flag = |m: &[Option<bool>]| -> bool { clauses.iter().all(|c| taut(c) || c.iter().any(|(v, p)| m[*v] == Some(*p))) };
    let residual = |m: &[Option<bool>]| -> Vec<Vec<Lit2>> {
        let mut r: Vec<Vec<Lit2>> = clauses
            .iter()
            .filter(|c| !taut(c) && !c.iter().any(|(v, p)| m[*v] == Some(*p)))
            .map(|c| c.iter().copied().filter(|(v, _)| m[*v].is_none()).collect())
            .collect();
        r.sort();
        r
    };
    let mut ref_m: Vec<Option<bool>> = vec![None; n];
    let ok0 = naive_fixpoint(&clauses, &mut ref_m);
    let solver = SATSolver::new(cnf.clone());
    if solver.is_none() && ok0 {
        // allowed if there really is no model
        let mut budget = 20_000u64;
        return match dpll(&clauses, &mut ref_m.clone(), &mut budget) {
            Some(true) => fail("C09/unsat-reported-but-satisfiable", format!("{}-variable CNF (seed {}): SATSolver::new returned UNSAT but the CNF has a model", n, case.seed)),
            _ => {
                st.bump("walk.unsat_beyond_unit_propagation_or_undecided");
                Ok(())
            }
        };
    }
    ensure!(
        solver.is_some() || !ok0,
        "C09/falsified-clause-not-reported",
        "{}-variable CNF (seed {}): unit propagation from the unit clauses falsifies a clause but SATSolver::new returned a solver",
        n,
        case.seed
    );
    let Some(mut s) = solver else {
        st.bump("walk.unsat_at_construction");
        return Ok(());
    };
    struct Frame {
        model: Vec<Option<bool>>,
        hash: u128,
        sat: bool,
    }
    let mut by_hash: std::collections::HashMap<u128, (Vec<Vec<Lit2>>, usize)> = std::collections::HashMap::new();
    let mut model: Vec<Option<bool>> = vec![None; n];
    for l in s.difference_iter() {
        model[l.label().value_usize()] = Some(l.polarity());
    }
    // compares the solver's visible state with the unit-propagation fixpoint `want`; Ok(false) = the solver knows
    // more than unit propagation gives and all of it is entailed (allowed by the property; the case ends there)
    let observe = |s: &SATSolver, model: &[Option<bool>], want: &[Option<bool>], decisions: &[Lit2], when: &str, st: &mut Stats| -> Result<bool, Failure> {
        for v in 0..n {
            ensure!(
                s.is_set(VarLabel::new_usize(v)) == model[v].is_some(),
                "C09/is-set-disagrees-with-reported-literals",
                "{}: is_set(x{}) = {} but difference_iter gave {:?}",
                when,
                v,
                s.is_set(VarLabel::new_usize(v)),
                model[v]
            );
        }
        let mut more = false;
        for v in 0..n {
            match (model[v], want[v]) {
                (a, b) if a == b => {}
                (None, Some(_)) => {
                    return fail(
                        "C09/unit-left-unpropagated",
                        format!("{} ({} variables, seed {}): x{} is unassigned in the solver but {:?} at the fixpoint of unit propagation", when, n, case.seed, v, want[v]),
                    )
                }
                (Some(a), _) => {
                    // more than unit propagation gives, or a different value: entailed?
                    let mut m2: Vec<Option<bool>> = vec![None; n];
                    for (dv, db) in decisions {
                        m2[*dv] = Some(*db);
                    }
                    if m2[v] == Some(!a) {
                        return fail("C09/assigned-literal-not-entailed", format!("{}: x{} = {} contradicts a decision", when, v, a));
                    }
                    m2[v] = Some(!a);
                    let mut budget = 20_000u64;
                    match dpll(&clauses, &mut m2, &mut budget) {
                        Some(true) => {
                            return fail(
                                "C09/assigned-literal-not-entailed",
                                format!("{} ({} variables, seed {}): the solver assigned x{} = {} but CNF and decisions have a model with the opposite value", when, n, case.seed, v, a),
                            )
                        }
                        Some(false) => more = true,
                        None => {
                            st.bump("walk.entailment_undecided_within_budget");
                            more = true;
                        }
                    }
                }
                _ => {}
            }
        }
        if more {
            st.bump("walk.solver_knows_more_than_unit_propagation(allowed)");
            return Ok(false);
        }
        ensure!(
            s.is_sat() == sat_flag(want),
            "C09/is-sat-flag",
            "{}: is_sat() = {} but {} non-tautological clause has no true literal",
            when,
            s.is_sat(),
            if sat_flag(want) { "no" } else { "some" }
        );
        Ok(true)
    };
    if !observe(&s, &model, &ref_m, &[], "after construction", st)? {
        return Ok(());
    }
    by_hash.insert(s.cur_hash(), (residual(&model), 0));
    let mut stack: Vec<Frame> = vec![Frame { model: model.clone(), hash: s.cur_hash(), sat: s.is_sat() }];
    let mut decisions: Vec<Lit2> = Vec::new();
    let (mut pops, mut decide_after_pop, mut just_popped, mut propagating, mut states) = (0u32, 0u32, false, 0u32, 1usize);
    for (k, (pop, var, val)) in case.ops.iter().enumerate() {
        if *pop {
            if stack.len() < 2 {
                continue;
            }
            stack.pop();
            decisions.pop();
            s.pop();
            pops += 1;
            just_popped = true;
            let f = stack.last().unwrap();
            ensure!(s.cur_hash() == f.hash, "C09/pop-did-not-restore-state", "op #{}: after a pop the hash differs from the one recorded before the matching decision", k);
            for v in 0..n {
                ensure!(
                    s.is_set(VarLabel::new_usize(v)) == f.model[v].is_some(),
                    "C09/pop-did-not-restore-state",
                    "op #{}: after a pop x{} is {} but it was {} before the matching decision",
                    k,
                    v,
                    if s.is_set(VarLabel::new_usize(v)) { "set" } else { "unset" },
                    if f.model[v].is_some() { "set" } else { "unset" }
                );
            }
            ensure!(s.is_sat() == f.sat, "C09/pop-did-not-restore-state", "op #{}: after a pop is_sat() differs from the recorded state", k);
            continue;
        }
        let cur = stack.last().unwrap().model.clone();
        let v = pick(*var, n);
        if cur[v].is_some() {
            continue;
        }
        let when = format!("op #{} decide x{} = {} at depth {}", k, v, val, decisions.len());
        let mut want = cur.clone();
        want[v] = Some(*val);
        let ok = naive_fixpoint(&clauses, &mut want);
        let res = s.decide(Literal::new(VarLabel::new_usize(v), *val));
        if just_popped {
            decide_after_pop += 1;
            just_popped = false;
        }
        if matches!(res, DecisionResult::UNSAT) {
            if ok {
                // allowed only if CNF and decisions really have no model
                let mut m2: Vec<Option<bool>> = vec![None; n];
                for (dv, db) in decisions.iter() {
                    m2[*dv] = Some(*db);
                }
                m2[v] = Some(*val);
                let mut budget = 20_000u64;
                match dpll(&clauses, &mut m2, &mut budget) {
                    Some(true) => return fail("C09/unsat-reported-but-satisfiable", format!("{} ({} variables, seed {}): UNSAT was reported but CNF and decisions have a model", when, n, case.seed)),
                    _ => {
                        st.bump("walk.unsat_beyond_unit_propagation_or_undecided");
                        return Ok(());
                    }
                }
            }
            st.bump("walk.conflicts");
            // a failed decide pushes nothing: the visible state is the recorded one
            let f = stack.last().unwrap();
            ensure!(
                s.cur_hash() == f.hash && s.is_sat() == f.sat && (0..n).all(|x| s.is_set(VarLabel::new_usize(x)) == f.model[x].is_some()),
                "C09/state-changed-by-failed-decide",
                "{}: a decide that reported UNSAT changed the visible state",
                when
            );
            continue;
        }
        ensure!(
            ok,
            "C09/falsified-clause-not-reported",
            "{} ({} variables, seed {}): unit propagation falsifies a clause but decide returned {}",
            when,
            n,
            case.seed,
            if matches!(res, DecisionResult::SAT) { "SAT" } else { "Unknown" }
        );
        let mut next = cur.clone();
        for l in s.difference_iter() {
            next[l.label().value_usize()] = Some(l.polarity());
        }
        decisions.push((v, *val));
        if !observe(&s, &next, &want, &decisions, &when, st)? {
            return Ok(());
        }
        ensure!(
            matches!(res, DecisionResult::SAT) == s.is_sat(),
            "C09/decision-result-vs-is-sat",
            "{}: decide returned {} but is_sat() = {}",
            when,
            if matches!(res, DecisionResult::SAT) { "SAT" } else { "Unknown" },
            s.is_sat()
        );
        if want.iter().filter(|x| x.is_some()).count() >= cur.iter().filter(|x| x.is_some()).count() + 3 {
            propagating += 1;
        }
        let h = s.cur_hash();
        let r = residual(&next);
        match by_hash.get(&h) {
            Some((r0, k0)) => ensure!(
                *r0 == r,
                "C09/equal-hash-different-residual",
                "{} ({} variables, {} clauses, seed {}): same hash {} as the state after op #{} but the residual formulas differ ({} vs {} open clauses)",
                when,
                n,
                clauses.len(),
                case.seed,
                h,
                k0,
                r.len(),
                r0.len()
            ),
            None => {
                by_hash.insert(h, (r, k + 1));
                states += 1;
            }
        }
        stack.push(Frame { model: next, hash: h, sat: s.is_sat() });
    }
    st.add("walk.distinct_hashed_states", states as u64);
    st.flag("walk.decide_after_pop", decide_after_pop > 0);
    if pops >= 1 && decide_after_pop >= 1 && propagating >= 2 {
        st.mark_nontrivial();
    }
    Ok(())
}

impl SubCheckT for MidWalks {
    type Case = WalkCase;
    const NAME: &'static str = "midsize_walks";
    const RULE: &'static str = "random CNFs over 12..80 variables with 2.0..4.4 clauses per variable (widths 2..5, a quarter of the clauses through one hub variable, up to three clauses of 7..12 literals, sometimes a unit clause), then up to 40 decide / pop steps (decisions on unassigned variables, pops only above the initial state, decisions after pops): UNSAT exactly when the harness's naive unit propagation falsifies a clause (an UNSAT or an assigned literal beyond unit propagation is accepted if the harness's own complete search confirms it, and ends the case); otherwise the model rebuilt from difference_iter is the propagation fixpoint, is_set agrees, is_sat and the decision result equal the satisfied flag, a failed decide leaves the state unchanged, pops restore hash / assigned set / flag, and over all states of a case equal hashes imply identical residual formulas. Non-trivial: a pop, a decision after a pop and two decisions that each implied at least two further literals";
    fn cases(tier: Tier) -> u32 {
        tier.pick(1500, 40_000)
    }
    fn strategy(_tier: Tier) -> BoxedStrategy<WalkCase> {
        (
            prop_oneof![1 => 12u8..=19, 4 => 20u8..=60, 1 => 61u8..=80],
            any::<u64>(),
            any::<u8>(),
            proptest::collection::vec((proptest::bool::weighted(0.3), any::<u16>(), any::<bool>()), 4..=40),
        )
            .prop_map(|(nv, seed, density, ops)| WalkCase { nv, seed, density, ops })
            .boxed()
    }
    fn run(case: &WalkCase, st: &mut Stats) -> CaseResult {
        run_walk(case, st)
    }
}

pub fn property() -> Property {
    Property {
        id: "C09",
        subs: vec![sub::<History>(), sub::<Chains>(), sub::<MidWalks>()],
        fuzz: vec![FuzzSpec { target: "sat_history", runs: 12000, max_len: 300 }],
        assumptions: vec![
            "truth-table part: CNFs over <= 6 variables, <= 10 clauses, histories of <= 40 decide/pop; sub-check long_implication_chains: up to 1000 variables, oracle = the harness's naive unit propagation (the library recurses once per implied literal: chains are capped at 1000 links so that its recursion stays within an 8 MB stack); sub-check midsize_walks: 12..80 variables, same oracle plus the harness's own complete search where the solver claims more than unit propagation gives",
            "pop is only issued after a successful decide (the API forbids popping the initial state)",
            "hash => residual is asserted for every pair of visited states; beyond 26 literal occurrences the product of per-occurrence primes can wrap around 2^128, and a collision there (probability about 2^-127 per pair) would be reported as a violation, as the property states no limit",
            "the partial model is reconstructed from difference_iter (no hook needed) and cross-checked with is_set",
        ],
        nt_floor_percent: 15,
    }
}
