//! C19 — command-line tools report exact counts and faithful diagrams.
use crate::bddi::perm_from_keys;
use crate::cnfgen::*;
use crate::engine::*;
use crate::exprgen::*;
use crate::props::c17::{dimacs_text, DimacsCase};
use crate::semi::*;
use crate::textgen::*;
use crate::tt::Tt;
use crate::walk::*;
use proptest::prelude::*;
use rsdd::builder::bdd::RobddBuilder;
use rsdd::builder::cache::AllIteTable;
use rsdd::repr::{BddPtr, VarLabel, VarOrder};
use serde::{Deserialize, Serialize};
use serde_json::json;
use std::path::PathBuf;
use std::process::Command;


#[derive(Clone, Debug, Serialize, Deserialize)]
pub struct Case {
    pub ex: Ex,
    pub names: Vec<String>,
    pub seps: Vec<u8>,
    /// per formula variable: None = no entry in the weights file, Some((low k, high k)) = k/8
    pub weights: Vec<Option<(u8, u8)>>,
    /// when set, every listed weight pair is normalised: high = k/8 (k <= 8), low = 1 - high
    #[serde(default)]
    pub normalised: bool,
    /// names that occur only in the weights file
    pub extra: Vec<(String, u8, u8)>,
    /// None = no config; Some(keys) = full permutation of all names
    pub order_keys: Option<Vec<u16>>,
    /// converter inputs
    pub cnf: CnfCase,
    pub cnf_order_force: bool,
    pub manual_order: Option<Vec<u16>>,
}

pub struct Tools;

struct Scratch {
    dir: PathBuf,
}

impl Scratch {
    fn new() -> Scratch {
        static CTR: std::sync::atomic::AtomicU64 = std::sync::atomic::AtomicU64::new(0);
        let k = CTR.fetch_add(1, std::sync::atomic::Ordering::Relaxed);
        let dir = verif_root().join("work").join("c19").join(format!("{}-{}", std::process::id(), k));
        let _ = std::fs::create_dir_all(&dir);
        Scratch { dir }
    }
    fn file(&self, name: &str, body: &str) -> PathBuf {
        let p = self.dir.join(name);
        std::fs::write(&p, body).expect("write scratch file");
        p
    }
}

impl Drop for Scratch {
    fn drop(&mut self) {
        let _ = std::fs::remove_dir_all(&self.dir);
    }
}

struct Out {
    code: Option<i32>,
    stdout: String,
    stderr: String,
}

thread_local! {
    /// which build of the tools the current pass runs: "debug" (dev profile) or "release" (the crate's release
    /// profile: no debug assertions, no overflow checks, LTO - what `cargo install` gives a user)
    static PROFILE: std::cell::Cell<&'static str> = const { std::cell::Cell::new("debug") };
}

fn run_tool(tool: &str, args: &[&str]) -> Result<Out, Failure> {
    let bin = verif_root().join("harness").join("target").join("cli").join(PROFILE.with(|p| p.get())).join(tool);
    if !bin.exists() {
        // infrastructure, not a verdict: surfaces as inconclusive
        panic!("HARNESS-ABORT: tool binary {} is missing (run ./setup.sh or ./run_check.sh C19)", bin.display());
    }
    let o = Command::new(&bin)
        .args(args)
        .env("RUST_BACKTRACE", "0")
        .output()
        .map_err(|e| Failure {
            signature: "harness/spawn".into(),
            detail: e.to_string(),
        })?;
    Ok(Out {
        code: o.status.code(),
        stdout: String::from_utf8_lossy(&o.stdout).to_string(),
        stderr: String::from_utf8_lossy(&o.stderr).to_string(),
    })
}

fn tail(s: &str) -> String {
    let l: Vec<&str> = s.lines().collect();
    l[l.len().saturating_sub(6)..].join(" | ")
}

pub fn run_case(case: &Case, st: &mut Stats) -> CaseResult {
    // every case is run against both builds of the tools
    for profile in ["debug", "release"] {
        PROFILE.with(|p| p.set(profile));
        let r = run_case_on_current_build(case, st).map_err(|mut f| {
            f.detail = format!("[{} build of the tools] {}", profile, f.detail);
            f
        });
        PROFILE.with(|p| p.set("debug"));
        r?;
    }
    Ok(())
}

fn run_case_on_current_build(case: &Case, st: &mut Stats) -> CaseResult {
    let sc = Scratch::new();
    // ---------------- weighted_model_count ----------------
    let mut src = SepSource { sel: &case.seps, pos: 0 };
    let text = sexpr_text(&case.ex, &case.names, &mut src);
    let used = used_names_sorted(&case.ex, &case.names);
    let m = used.len();
    let f = rename(&case.ex, &|v| used.iter().position(|u| *u == case.names[v]).unwrap()).tt();
    let fpath = sc.file("formula.sexp", &text);
    // weights file
    let mut wobj = serde_json::Map::new();
    let mut w: Vec<(f64, f64)> = vec![(0.0, 0.0); m];
    // a quarter of the cases: one variable carries weights with 26 significant bits (k / 2^26, k odd and above
    // 2^25: not representable in single precision), all other weights are multiples of 1/4 up to 1, so that every
    // sum of products has at most 50 significant bits and no summation order matters
    let fine: Option<usize> = if m > 0 && case.seps.get(1).map(|b| b % 4 == 0).unwrap_or(false) {
        Some(case.seps.get(2).copied().unwrap_or(0) as usize % m)
    } else {
        None
    };
    st.flag("wmc.one_weight_with_26_significant_bits", fine.is_some());
    // a fifth of the other cases: every listed pair is scaled by a power of two of its own (2^-20, 2^-30 or 2^-40, the
    // same for low and high), so that every model's product carries the same total scale and the sum stays exact
    // while the products are far below 1e-16
    let tiny = fine.is_none() && case.seps.get(3).map(|b| b % 5 == 0).unwrap_or(false);
    let scale = |i: usize| -> f64 { if tiny { (0.5f64).powi(20 + 10 * (i % 3) as i32) } else { 1.0 } };
    st.flag("wmc.weights_scaled_by_2^-20..2^-40", tiny);
    let coarse = |l: u8, h: u8| -> (f64, f64) {
        if case.normalised {
            (1.0 - (h % 5) as f64 / 4.0, (h % 5) as f64 / 4.0)
        } else {
            ((l % 5) as f64 / 4.0, (h % 5) as f64 / 4.0)
        }
    };
    let fine_val = |x: u8, salt: u64| -> f64 {
        let k = (1u64 << 25) | (crate::engine::splitmix(x as u64 ^ salt) & ((1 << 25) - 1)) | 1;
        k as f64 / (1u64 << 26) as f64
    };
    for (i, nm) in used.iter().enumerate() {
        let v = case.names.iter().position(|x| x == nm).unwrap();
        if let Some(Some((l, h))) = case.weights.get(v) {
            let (l, h) = if fine == Some(i) {
                let hv = fine_val(*h, 0x19);
                if case.normalised {
                    (1.0 - hv, hv)
                } else {
                    (fine_val(*l, 0x91), hv)
                }
            } else if fine.is_some() {
                coarse(*l, *h)
            } else if case.normalised {
                (1.0 - (*h % 9) as f64 / 8.0, (*h % 9) as f64 / 8.0)
            } else {
                ((*l % 41) as f64 / 8.0, (*h % 41) as f64 / 8.0)
            };
            let (l, h) = (l * scale(i), h * scale(i));
            w[i] = (l, h);
            wobj.insert(nm.clone(), json!({"low": l, "high": h}));
        }
    }
    let mut extras: Vec<(String, f64, f64)> = Vec::new();
    for (nm, l, h) in case.extra.iter().take(3) {
        // weights-only names come from the same alphabet as the formula's names and may sort before, between or
        // after them (half of them get the prefix that used to put them last)
        let mut nm = if l & 1 == 0 { nm.clone() } else { format!("zz_{}", nm) };
        while used.contains(&nm) || case.names.contains(&nm) || extras.iter().any(|e| e.0 == nm) {
            nm.push('x');
        }
        let (l, h) = if fine.is_some() {
            coarse(*l, *h)
        } else if case.normalised {
            (1.0 - (*h % 9) as f64 / 8.0, (*h % 9) as f64 / 8.0)
        } else {
            ((*l % 41) as f64 / 8.0, (*h % 41) as f64 / 8.0)
        };
        let (l, h) = (l * scale(extras.len() + 1), h * scale(extras.len() + 1));
        wobj.insert(nm.clone(), json!({"low": l, "high": h}));
        extras.push((nm, l, h));
    }
    let wpath = sc.file("weights.json", &serde_json::Value::Object(wobj).to_string());
    let mut args: Vec<String> = vec!["-f".into(), fpath.display().to_string(), "-w".into(), wpath.display().to_string()];
    let all_names: Vec<String> = used.iter().cloned().chain(extras.iter().map(|e| e.0.clone())).collect();
    let mut order_names: Option<Vec<String>> = None;
    if let Some(keys) = &case.order_keys {
        let perm = perm_from_keys(keys, all_names.len());
        let ord: Vec<String> = perm.iter().map(|i| all_names[*i].clone()).collect();
        let cpath = sc.file("config.json", &json!({ "order": ord }).to_string());
        args.push("-c".into());
        args.push(cpath.display().to_string());
        order_names = Some(ord);
    } else if case.seps.first().map(|b| b & 1 == 1).unwrap_or(false) {
        // a config file without an "order" key: the tool falls back to its linear order
        let cpath = sc.file("config.json", "{}");
        args.push("-c".into());
        args.push(cpath.display().to_string());
        st.bump("wmc.config_without_order");
    }
    let argv: Vec<&str> = args.iter().map(|s| s.as_str()).collect();
    let out = run_tool("weighted_model_count", &argv)?;
    ensure!(
        out.code == Some(0),
        "C19/weighted-model-count-crashed",
        "weighted_model_count exited with {:?} on formula `{}`, weights {}, order {:?}; stderr: {}",
        out.code,
        text,
        std::fs::read_to_string(&wpath).unwrap_or_default(),
        order_names,
        tail(&out.stderr)
    );
    let mut unweighted: Option<u128> = None;
    let mut weighted: Option<f64> = None;
    for l in out.stdout.lines() {
        if let Some(r) = l.strip_prefix("unweighted model count: ") {
            unweighted = r.trim().parse().ok();
        }
        if let Some(r) = l.strip_prefix("weighted model count: ") {
            weighted = r.trim().parse().ok();
        }
    }
    let fops = Ops::<f64> { zero: 0.0, one: 1.0, add: &|a, b| a + b, mul: &|a, b| a * b };
    let wf = |v: usize, b: bool| if b { w[v].1 } else { w[v].0 };
    let base = brute_force(f, &(0..m).collect::<Vec<_>>(), &wf, &fops);
    let extra_factor: f64 = extras.iter().map(|e| e.1 + e.2).product();
    let want_w = base * extra_factor;
    let want_u = (f.count_n(m) as u128) << extras.len();
    ensure!(
        unweighted == Some(want_u),
        "C19/unweighted-model-count",
        "formula `{}` with {} extra weight-only names: tool printed unweighted count {:?}, the formula has {} models over all {} variables; stdout: {}",
        text,
        extras.len(),
        unweighted,
        want_u,
        m + extras.len(),
        tail(&out.stdout)
    );
    // with the 26-bit weight the decimal text of the weights file has 16-17 significant digits, which a JSON reader
    // may round to a neighbouring double: there the count is compared within a relative 1e-12 (single precision
    // would be off by 1e-8); everywhere else every value is a short dyadic number and the comparison is exact
    // (the scaled weights have long decimal texts as well: same tolerance there)
    let weighted_ok = match (weighted, fine.is_some() || tiny) {
        (Some(got), true) => (got - want_w).abs() <= 1e-12 * want_w.abs(),
        (got, _) => got == Some(want_w),
    };
    ensure!(
        weighted_ok,
        "C19/weighted-model-count",
        "formula `{}`, weights {}, order {:?}: tool printed weighted count {:?}, the exact sum over models of the weight products is {}; stdout: {}",
        text,
        std::fs::read_to_string(&wpath).unwrap_or_default(),
        order_names,
        weighted,
        want_w,
        tail(&out.stdout)
    );

    // ---------------- bottomup_formula_to_bdd ----------------
    let mut fargs: Vec<String> = vec!["-f".into(), fpath.display().to_string()];
    if let Some(keys) = &case.manual_order {
        let perm = perm_from_keys(keys, m);
        let ord: Vec<String> = perm.iter().map(|i| used[*i].clone()).collect();
        let cpath = sc.file("order.json", &json!({ "order": ord }).to_string());
        fargs.extend(["--ordering".into(), "manual".into(), "-c".into(), cpath.display().to_string()]);
        st.bump("formula_to_bdd.manual");
    } else {
        fargs.extend(["--ordering".into(), "linear".into()]);
    }
    let argv: Vec<&str> = fargs.iter().map(|s| s.as_str()).collect();
    let out = run_tool("bottomup_formula_to_bdd", &argv)?;
    ensure!(
        out.code == Some(0),
        "C19/formula-to-bdd-crashed",
        "bottomup_formula_to_bdd exited with {:?} on `{}`; stderr: {}",
        out.code,
        text,
        tail(&out.stderr)
    );
    let v: serde_json::Value = serde_json::from_str(out.stdout.trim()).map_err(|e| Failure {
        signature: "C19/formula-to-bdd-output-not-json".into(),
        detail: format!("{}: {}", e, tail(&out.stdout)),
    })?;
    match bdd_json_tt(&v) {
        Ok((jt, _)) => ensure!(
            jt == f,
            "C19/formula-to-bdd-denotes-other-function",
            "bottomup_formula_to_bdd on `{}` emitted a diagram denoting {:?}; the formula (names numbered lexicographically: {:?}) denotes {:?}",
            text,
            jt,
            used,
            f
        ),
        Err(e) => return fail("C19/formula-to-bdd-output-unreadable", format!("{} in {}", e, tail(&out.stdout))),
    }

    // ---------------- bottomup_cnf_to_bdd ----------------
    if !case.cnf.clauses.is_empty() {
        let force = case.cnf_order_force && !case.cnf.has_empty_clause();
        // header counts right or (a third of the time) too large; the final clause terminator is sometimes left out
        let sb = |i: usize| case.seps.get(i).copied().unwrap_or(0);
        let wrong_header = sb(1) % 3 == 0;
        let header = if wrong_header {
            ((case.cnf.num_vars().max(1) as u8).saturating_add(sb(2) % 3), (case.cnf.clauses.len() as u8).saturating_add(sb(3) % 3))
        } else {
            (case.cnf.num_vars().max(1) as u8, case.cnf.clauses.len() as u8)
        };
        let drop_last_zero = sb(0) & 2 != 0 && case.cnf.clauses.last().map(|c| !c.is_empty()).unwrap_or(false);
        st.flag("cnf_to_bdd.header_counts_too_large", wrong_header && header != (case.cnf.num_vars().max(1) as u8, case.cnf.clauses.len() as u8));
        st.flag("cnf_to_bdd.final_zero_missing", drop_last_zero);
        let dtext = dimacs_text(&DimacsCase {
            cnf: case.cnf.clone(),
            header,
            layout: case.seps.clone(),
            drop_last_zero,
        });
        let dpath = sc.file("input.cnf", &dtext);
        let dp = dpath.display().to_string();
        let cargs: Vec<&str> = if force {
            vec!["--file", &dp, "--order", "auto_force"]
        } else {
            vec!["--file", &dp]
        };
        let out = run_tool("bottomup_cnf_to_bdd", &cargs)?;
        ensure!(
            out.code == Some(0),
            "C19/cnf-to-bdd-crashed",
            "bottomup_cnf_to_bdd exited with {:?} on\n{}\nstderr: {}",
            out.code,
            dtext,
            tail(&out.stderr)
        );
        let v: serde_json::Value = serde_json::from_str(out.stdout.trim()).map_err(|e| Failure {
            signature: "C19/cnf-to-bdd-output-not-json".into(),
            detail: format!("{}: {}", e, tail(&out.stdout)),
        })?;
        match bdd_json_tt(&v) {
            Ok((jt, _)) => ensure!(
                jt == case.cnf.tt(),
                "C19/cnf-to-bdd-denotes-other-function",
                "bottomup_cnf_to_bdd ({}) emitted a diagram denoting {:?}; the DIMACS input\n{}\ndenotes {:?}",
                if force { "auto_force" } else { "auto_minfill" },
                jt,
                dtext,
                case.cnf.tt()
            ),
            Err(e) => return fail("C19/cnf-to-bdd-output-unreadable", format!("{} in {}", e, tail(&out.stdout))),
        }
        st.bump(if force { "cnf_to_bdd.force" } else { "cnf_to_bdd.minfill" });
    }

    // ---------------- classification ----------------
    // does the BDD of the formula skip a level under the order the tool used? (native builder, classification only)
    let total = m + extras.len();
    let order_idx: Vec<usize> = match &order_names {
        Some(ord) => ord.iter().map(|nm| all_names.iter().position(|x| x == nm).unwrap()).collect(),
        None => (0..total).collect(),
    };
    let skips = {
        // extras have indices >= m in some order the tool chooses; for classification only formula variables matter
        let lv: Vec<usize> = {
            let mut p = vec![0; total];
            for (i, v) in order_idx.iter().enumerate() {
                p[*v] = i;
            }
            p
        };
        let nb = RobddBuilder::<AllIteTable<BddPtr>>::new(VarOrder::new(&order_idx.iter().map(|v| VarLabel::new_usize(*v)).collect::<Vec<_>>()));
        let d = bdd_from_tt(&nb, f, m.max(1));
        bdd_paths(d, 10_000)
            .map(|ps| ps.iter().any(|p| p.len() < total || p.windows(2).any(|w| lv[w[1]] > lv[w[0]] + 1)))
            .unwrap_or(false)
    };
    let nonnorm = w.iter().any(|(l, h)| l + h != 1.0) || extras.iter().any(|e| e.1 + e.2 != 1.0);
    st.flag("wmc.extra_names", !extras.is_empty());
    st.flag("wmc.weights_only_name_sorts_before_a_formula_name", extras.iter().any(|e| used.iter().any(|u| e.0 < *u)));
    st.flag("wmc.config_order", order_names.is_some());
    st.flag("wmc.missing_weight", (0..m).any(|i| w[i] == (0.0, 0.0)));
    st.flag("wmc.level_skipping", skips);
    st.flag("wmc.listed_weights_normalised", case.normalised);
    st.flag("wmc.normalised_but_missing_entry", case.normalised && (0..m).any(|i| w[i] == (0.0, 0.0)));
    if m >= 3 && skips && nonnorm {
        st.mark_nontrivial();
    }
    Ok(())
}

impl SubCheckT for Tools {
    type Case = Case;
    const NAME: &'static str = "tools";
    const RULE: &'static str = "the three binaries built from /repo (feature cli) twice, with the dev profile and with the crate's release profile, each run as subprocesses on generated files: weighted_model_count -f F -w W [-c CFG] in single-count mode with an s-expression formula (<=5 names), dyadic weights (non-normalised, or all listed pairs normalised) for a random subset of its names plus 0..3 names that occur only in the weights file (sorting before, between or after the formula's names), and no config, a config without an order, or a full permutation of all names: printed unweighted count = number of models over all variables, printed weighted count = exact sum over those models of the weight products ((0,0) for names without weights), compared after parsing the two labelled stdout lines; bottomup_formula_to_bdd (linear / manual order) and bottomup_cnf_to_bdd (auto_minfill / auto_force; >=1 clause, no empty clause for FORCE; all CNF families of the other checks, header counts right or too large, final 0 sometimes missing): stdout JSON read by the harness's reader denotes the input formula. Non-trivial: >=3 variables, the formula's BDD skips a level on some path under the order used, and some weight pair with low+high != 1";
    fn cases(tier: Tier) -> u32 {
        tier.pick(400, 8000)
    }
    fn strategy(_tier: Tier) -> BoxedStrategy<Case> {
        (2u8..=5)
            .prop_flat_map(|nv| {
                (
                    ex_strategy(nv, 4),
                    names_strategy(nv as usize),
                    proptest::collection::vec(any::<u8>(), 1..8),
                    proptest::collection::vec(proptest::option::weighted(0.8, (0u8..41, 0u8..41)), nv as usize),
                    prop_oneof![3 => Just(false), 2 => Just(true)],
                    proptest::collection::vec(("[A-Za-z_][a-z0-9]{0,2}", 0u8..41, 0u8..41), 0..=3),
                    proptest::option::weighted(0.5, proptest::collection::vec(any::<u16>(), 8)),
                    prop_oneof![
                        2 => (1u8..=6).prop_flat_map(|n| clauses_strategy(n, 8, 0, 4)).prop_map(|clauses| CnfCase { clauses }).boxed(),
                        1 => cnf_strategy(),
                    ],
                    any::<bool>(),
                    proptest::option::weighted(0.5, proptest::collection::vec(any::<u16>(), 8)),
                )
            })
            .prop_map(|(ex, names, seps, weights, normalised, extra, order_keys, cnf, cnf_order_force, manual_order)| Case {
                ex,
                names,
                seps,
                weights,
                normalised,
                extra,
                order_keys,
                cnf,
                cnf_order_force,
                manual_order,
            })
            .boxed()
    }
    fn run(case: &Case, st: &mut Stats) -> CaseResult {
        run_case(case, st)
    }
}

#[allow(dead_code)]
fn _t(_: Tt) {}

pub fn property() -> Property {
    Property {
        id: "C19",
        subs: vec![sub::<Tools>()],
        fuzz: vec![],
        assumptions: vec![
            "output format relied on: the lines 'unweighted model count: N' and 'weighted model count: X' (f64 Display round-trips exactly); the converters print one JSON object on stdout",
            "weights are dyadic k/8 <= 5 so that every sum and product is exact in f64 and compared with ==",
            "DIMACS inputs of the CNF converter have >= 1 clause (the tool asserts a dtree needs a leaf) and no empty clause under auto_force (usize underflow in the span heuristic): excluded by construction",
            "a missing tool binary is an infrastructure error (exit 2), never a verdict",
            "flags and non-trivial marks are recorded once per build of the tools, so histogram counts are doubled",
        ],
        nt_floor_percent: 10,
    }
}
