//! C04 — SDDs are vtree-normalised, compressed, trimmed and canonical (compressing builder).
use crate::engine::*;
use crate::props::c03::{make_builder, Case};
use crate::sddi::*;
use crate::tt::Tt;
use crate::vtgen::*;
use crate::walk::*;
use proptest::prelude::*;
use rsdd::builder::BottomUpBuilder;
use rsdd::repr::{DDNNFPtr, SddPtr};
use std::collections::{BTreeMap, BTreeSet, HashMap, HashSet};

pub struct WellFormed;

/// structural invariants of one decision node (regular representative), given the vtree shape
fn check_node(n: SddPtr, info: &ShapeInfo, memo: &mut SddMemo, st: &mut Stats) -> CaseResult {
    let pos = n.vtree().value();
    ensure!(pos < info.len(), "C04/vtree-index-out-of-range", "node records vtree index {} but the vtree has {} nodes", pos, info.len());
    let (Some(l), Some(r)) = (info.left[pos], info.right[pos]) else {
        return fail(
            "C04/decision-node-at-leaf",
            format!("a decision node is normalised for vtree position {} which is a leaf", pos),
        );
    };
    let left: BTreeSet<usize> = info.vars_below[l].iter().copied().collect();
    let right: BTreeSet<usize> = info.vars_below[r].iter().copied().collect();
    let els = sdd_elements(n);
    ensure!(!els.is_empty(), "C04/empty-decision-node", "decision node without elements at vtree position {}", pos);
    let mut cover = Tt::FALSE;
    let mut prime_tts: Vec<Tt> = Vec::new();
    let mut sub_seen: HashSet<SddPtr> = HashSet::new();
    let mut sub_tts: BTreeSet<Tt> = BTreeSet::new();
    for (p, s) in els.iter() {
        let pt = sdd_tt_m(*p, memo);
        let stt = sdd_tt_m(*s, memo);
        ensure!(!pt.is_false(), "C04/false-prime", "a prime denotes false at vtree position {} (elements {:?})", pos, els);
        for q in prime_tts.iter() {
            ensure!(
                q.and(pt).is_false(),
                "C04/primes-not-mutually-exclusive",
                "two primes overlap at vtree position {}: {:?} and {:?}",
                pos,
                q,
                pt
            );
        }
        prime_tts.push(pt);
        cover = cover.or(pt);
        let pv = sdd_syntactic_vars(*p);
        let sv = sdd_syntactic_vars(*s);
        ensure!(
            pv.is_subset(&left),
            "C04/prime-mentions-variable-outside-left-vtree",
            "prime mentions variables {:?} but the left child of vtree position {} holds {:?}",
            pv,
            pos,
            left
        );
        ensure!(
            sv.is_subset(&right),
            "C04/sub-mentions-variable-outside-right-vtree",
            "sub mentions variables {:?} but the right child of vtree position {} holds {:?}",
            sv,
            pos,
            right
        );
        ensure!(
            sub_seen.insert(*s) && sub_tts.insert(stt),
            "C04/not-compressed-equal-subs",
            "two elements of the node at vtree position {} have the same sub ({:?}): {:?}",
            pos,
            s,
            els
        );
    }
    ensure!(
        cover.is_true(),
        "C04/primes-not-exhaustive",
        "the primes at vtree position {} cover only {:?}",
        pos,
        cover
    );
    // trimming: {(T, s)} and {(p, T), (!p, F)} must not exist
    ensure!(
        !(els.len() == 1),
        "C04/untrimmed-single-element",
        "node with the single element {:?} (prime must be true) could be trimmed to its sub",
        els[0]
    );
    if els.len() == 2 {
        let (s0, s1) = (els[0].1, els[1].1);
        ensure!(
            !((s0.is_true() && s1.is_false()) || (s0.is_false() && s1.is_true())),
            "C04/untrimmed-prime-true-false",
            "node {{(p, T), (!p, F)}} at vtree position {} could be trimmed to its prime: {:?}",
            pos,
            els
        );
    }
    if let SddPtr::BDD(b) = n {
        ensure!(b.low() != b.high(), "C04/binary-node-equal-children", "binary node on {} has low == high", b.label().value());
        st.bump("nodes.binary");
    } else {
        st.bump("nodes.general");
        if els.len() >= 3 {
            st.bump("nodes.general_ge3_elements");
        }
    }
    Ok(())
}

pub fn run_case(case: &Case, st: &mut Stats) -> CaseResult {
    let (vt, emb) = crate::props::c03::effective_vtree(case);
    let b = make_builder(&vt, true, case.table_cap);
    let grow0 = rsdd::verif_hooks::table_grows();
    let shape = vt.shape();
    let info = ShapeInfo::new(&shape);
    let mut run = match emb {
        Some(labels) => {
            st.bump("case.embedded_in_a_larger_vtree");
            SddRun::new_embedded(&b, labels)
        }
        None => SddRun::new(&b, shape.leaves()),
    };
    let mut canon: BTreeMap<Tt, (SddPtr, usize)> = BTreeMap::new();
    for (i, (p, t)) in run.pool.iter().enumerate() {
        canon.insert(*t, (*p, i));
    }
    let mut checked: HashSet<SddKey> = HashSet::new();
    let mut memo: SddMemo = HashMap::new();
    let mut positions: BTreeSet<usize> = BTreeSet::new();
    let mut big_node = false;
    let mut widest = 0usize;
    let mut pairs = 0u64;
    let mut sweep_budget = 12usize;
    let mut widest_swept = 0usize;
    for (i, op) in case.ops.iter().enumerate() {
        let Some(out) = run.step(op) else {
            st.bump("op_not_applicable");
            continue;
        };
        st.bump(&format!("op.{}", out.kind));
        let (p, t) = run.pool[out.idx];
        // C03 is the function check: here every diagram is keyed by the function it actually denotes
        let got = sdd_tt_m(p, &mut memo);
        if got != t {
            st.bump("result_differs_from_oracle_function(C03's concern)");
        }
        let t = got;
        for n in sdd_nodes(p) {
            let k = sdd_key(n).unwrap();
            if checked.insert(k) {
                check_node(n, &info, &mut memo, st).map_err(|mut f| {
                    f.detail = format!("{} [reachable from the result of op #{} {:?}; vtree {:?}]", f.detail, i, op, shape);
                    f
                })?;
                positions.insert(n.vtree().value());
                if !matches!(n, SddPtr::BDD(_)) {
                    let ne = sdd_elements(n).len();
                    if ne >= 3 {
                        big_node = true;
                    }
                    widest = widest.max(ne);
                }
            }
        }
        match canon.get(&t) {
            Some((q, j)) => {
                pairs += 1;
                ensure!(
                    *q == p && b.eq(*q, p),
                    "C04/equal-functions-different-pointers",
                    "op #{} {:?} produced {:?} for the function {:?}, but pool entry {} already holds {:?} for it (vtree {:?}, {} table growths)",
                    i,
                    op,
                    p,
                    t,
                    j,
                    q,
                    shape,
                    rsdd::verif_hooks::table_grows() - grow0
                );
            }
            None => {
                canon.insert(t, (p, out.idx));
            }
        }
        // only if: different functions are never reported equal
        for (t2, (q, j)) in canon.iter() {
            if *t2 != t {
                ensure!(
                    *q != p && !b.eq(*q, p) && !b.eq(p, *q),
                    "C04/different-functions-reported-equal",
                    "op #{} {:?} produced {:?} denoting {:?}; pool entry {} is {:?} denoting {:?}, yet the equality test reports them equal",
                    i,
                    op,
                    p,
                    t,
                    j,
                    q,
                    t2
                );
            }
        }
        // negation is the complemented pointer of the same node: both polarities canonical
        let np = b.negate(p);
        if let Some((q, _)) = canon.get(&t.not()) {
            ensure!(
                *q == np,
                "C04/negation-not-canonical",
                "the negation of the result of op #{} is {:?} but the function {:?} is already held by {:?}",
                i,
                np,
                t.not(),
                q
            );
        }
        // library's own predicates are recorded, never decisive
        st.flag("library_is_canonical_false", !p.is_canonical());
        // condition sweep: every cofactor of the new result must be well formed and canonical too
        // (conditioning re-assembles nodes by a route of its own: falsified primes, unchanged subs, ...)
        // budget: the first 8 decision-node results, then up to 4 more that are wider than anything swept so far
        let width = if sdd_is_internal(p) && !matches!(p, SddPtr::BDD(_) | SddPtr::ComplBDD(_)) { sdd_elements(p).len() } else { 2 };
        let take = sdd_is_internal(p) && (sweep_budget > 4 || (sweep_budget > 0 && width > widest_swept));
        if take {
            sweep_budget -= 1;
            widest_swept = widest_swept.max(width);
            for v in run.labels.clone() {
                for val in [false, true] {
                    let c = b.condition(p, rsdd::repr::VarLabel::new_usize(v), val);
                    let want = sdd_tt_m(c, &mut memo);
                    if want != t.cofactor(run.o(v), val) {
                        st.bump("result_differs_from_oracle_function(C03's concern)");
                    }
                    for n in sdd_nodes(c) {
                        let k = sdd_key(n).unwrap();
                        if checked.insert(k) {
                            check_node(n, &info, &mut memo, st).map_err(|mut f| {
                                f.detail = format!(
                                    "{} [reachable from condition(result of op #{} {:?}, x{} = {}); vtree {:?}]",
                                    f.detail, i, op, v, val, shape
                                );
                                f
                            })?;
                        }
                    }
                    match canon.get(&want) {
                        Some((q, j)) => {
                            pairs += 1;
                            ensure!(
                                *q == c,
                                "C04/equal-functions-different-pointers",
                                "condition(result of op #{} {:?}, x{} = {}) is {:?} for the function {:?}, but pool entry {} already holds {:?} for it (vtree {:?})",
                                i,
                                op,
                                v,
                                val,
                                c,
                                want,
                                j,
                                q,
                                shape
                            );
                        }
                        None => {
                            canon.insert(want, (c, out.idx));
                        }
                    }
                    st.bump("condition_sweep");
                }
            }
        }
    }
    st.add("canonicity_pairs", pairs);
    st.add("table_grows", rsdd::verif_hooks::table_grows() - grow0);
    st.bump(&format!("case.vtree_kind.{}", case.vt.kind % 5));
    st.bump(match widest {
        0..=2 => "case.widest_node.le2",
        3..=8 => "case.widest_node.3-8",
        9..=20 => "case.widest_node.9-20",
        _ => "case.widest_node.gt20",
    });
    if big_node || positions.len() >= 2 {
        st.mark_nontrivial();
    }
    Ok(())
}

impl SubCheckT for WellFormed {
    type Case = Case;
    const NAME: &'static str = "wellformed";
    const REPLAY_ATTEMPTS: u32 = 20;
    const RULE: &'static str = "C03-style histories on the compressing builder (unique tables of 1..32 slots or default; in one case of six the <=8 variables are embedded at random leaves of a vtree with 9..120 leaves), with the extra op Rebuild(i) = re-derive entry i from its truth table as a disjunction of cubes in a shuffled variable order, and the op Dense(bits) = build the function with that truth table by Shannon expansion (wide decision nodes, >20 elements). For every node reachable from every result, with left/right variable sets taken from the harness's own in-order numbering of the vtree: primes non-false, pairwise disjoint, exhaustive (truth tables); variables syntactically reachable in primes within the left set and in subs within the right set; subs pairwise distinct (pointer and function); no {(T,s)}, no {(p,T),(!p,F)}, binary nodes with distinct children; and equal truth tables => pointer equality (results, rebuilds and negations); 12 decision-node results of each history (the first 8, then those wider than any conditioned before) are additionally conditioned on every (variable, value) and the cofactors are held to the same function / node / canonicity checks. Non-trivial: a non-binary decision node with >=3 elements or decision nodes at >=2 vtree positions";
    fn cases(tier: Tier) -> u32 {
        tier.pick(12_000, 150_000)
    }
    fn strategy(_tier: Tier) -> BoxedStrategy<Case> {
        let general = (
            vtree_case_strategy(8, false),
            prop_oneof![2 => Just(None), 6 => (1u16..=32).prop_map(Some)],
            proptest::collection::vec(sop_strategy_ext(true, true, true), 0..=40),
        );
        // wide decision nodes: see C03
        let wide = (
            (7u8..=8, proptest::collection::vec(any::<u16>(), 12), proptest::collection::vec(any::<u16>(), 12)).prop_map(|(k, keys, splits)| VtreeCase {
                k,
                keys,
                kind: 4,
                splits,
                stride: 1,
                offset: 0,
            }),
            prop_oneof![2 => Just(None), 6 => (1u16..=32).prop_map(Some)],
            (any::<[u64; 4]>(), proptest::collection::vec(sop_strategy_ext(true, true, true), 0..=12)).prop_map(|(bits, mut ops)| {
                ops.insert(0, SOp::Dense(bits));
                ops
            }),
        );
        let sparse = (
            (1u8..=3, proptest::collection::vec(any::<u16>(), 12), 0u8..5, proptest::collection::vec(any::<u16>(), 12), 2u8..=3, 0u8..=1).prop_map(
                |(k, keys, kind, splits, stride, offset)| VtreeCase { k, keys, kind, splits, stride, offset },
            ),
            prop_oneof![2 => Just(None), 6 => (1u16..=32).prop_map(Some)],
            proptest::collection::vec(sop_strategy_ext(true, true, true), 0..=24),
        );
        (prop_oneof![12 => general.boxed(), 1 => wide.boxed(), 1 => sparse.boxed()], crate::props::c03::embed_strategy())
            .prop_map(|((vt, table_cap, ops), embed)| Case {
                embed: if vt.contiguous() { embed } else { None },
                vt,
                compress: true,
                table_cap,
                ops,
                checkpoints: vec![],
            })
            .boxed()
    }
    fn run(case: &Case, st: &mut Stats) -> CaseResult {
        run_case(case, st)
    }
}

pub fn property() -> Property {
    Property {
        id: "C04",
        subs: vec![sub::<WellFormed>()],
        fuzz: vec![FuzzSpec { target: "sdd_ops", runs: 6000, max_len: 300 }],
        assumptions: vec![
            "compressing builder only (compression switched on); functions of <= 8 variables (vtrees of up to 120 leaves)",
            "the library's is_canonical/is_compressed/is_trimmed are recorded in the histogram but never decide pass/fail",
        ],
        nt_floor_percent: 15,
    }
}
