//! C04 — SDDs are vtree-normalised, compressed, trimmed and canonical (compressing builder).
use crate::engine::*;
use crate::props::c03::{make_builder, Case};
use crate::sddi::*;
use crate::tt::Tt;
use crate::vtgen::*;
use crate::walk::*;
use proptest::prelude::*;
use rsdd::builder::BottomUpBuilder;
use rsdd::repr::{DDNNFPtr, SddPtr};
use std::collections::{BTreeMap, BTreeSet, HashMap, HashSet};

pub struct WellFormed;

/// structural invariants of one decision node (regular representative), given the vtree shape
fn check_node(n: SddPtr, info: &ShapeInfo, memo: &mut SddMemo, st: &mut Stats) -> CaseResult {
    let pos = n.vtree().value();
    ensure!(pos < info.len(), "C04/vtree-index-out-of-range", "node records vtree index {} but the vtree has {} nodes", pos, info.len());
    let (Some(l), Some(r)) = (info.left[pos], info.right[pos]) else {
        return fail(
            "C04/decision-node-at-leaf",
            format!("a decision node is normalised for vtree position {} which is a leaf", pos),
        );
    };
    let left: BTreeSet<usize> = info.vars_below[l].iter().copied().collect();
    let right: BTreeSet<usize> = info.vars_below[r].iter().copied().collect();
    let els = sdd_elements(n);
    ensure!(!els.is_empty(), "C04/empty-decision-node", "decision node without elements at vtree position {}", pos);
    let mut cover = Tt::FALSE;
    let mut prime_tts: Vec<Tt> = Vec::new();
    let mut sub_seen: HashSet<SddPtr> = HashSet::new();
    let mut sub_tts: BTreeSet<Tt> = BTreeSet::new();
    for (p, s) in els.iter() {
        let pt = sdd_tt_m(*p, memo);
        let stt = sdd_tt_m(*s, memo);
        ensure!(!pt.is_false(), "C04/false-prime", "a prime denotes false at vtree position {} (elements {:?})", pos, els);
        for q in prime_tts.iter() {
            ensure!(
                q.and(pt).is_false(),
                "C04/primes-not-mutually-exclusive",
                "two primes overlap at vtree position {}: {:?} and {:?}",
                pos,
                q,
                pt
            );
        }
        prime_tts.push(pt);
        cover = cover.or(pt);
        let pv = sdd_syntactic_vars(*p);
        let sv = sdd_syntactic_vars(*s);
        ensure!(
            pv.is_subset(&left),
            "C04/prime-mentions-variable-outside-left-vtree",
            "prime mentions variables {:?} but the left child of vtree position {} holds {:?}",
            pv,
            pos,
            left
        );
        ensure!(
            sv.is_subset(&right),
            "C04/sub-mentions-variable-outside-right-vtree",
            "sub mentions variables {:?} but the right child of vtree position {} holds {:?}",
            sv,
            pos,
            right
        );
        ensure!(
            sub_seen.insert(*s) && sub_tts.insert(stt),
            "C04/not-compressed-equal-subs",
            "two elements of the node at vtree position {} have the same sub ({:?}): {:?}",
            pos,
            s,
            els
        );
    }
    ensure!(
        cover.is_true(),
        "C04/primes-not-exhaustive",
        "the primes at vtree position {} cover only {:?}",
        pos,
        cover
    );
    // trimming: {(T, s)} and {(p, T), (!p, F)} must not exist
    ensure!(
        !(els.len() == 1),
        "C04/untrimmed-single-element",
        "node with the single element {:?} (prime must be true) could be trimmed to its sub",
        els[0]
    );
    if els.len() == 2 {
        let (s0, s1) = (els[0].1, els[1].1);
        ensure!(
            !((s0.is_true() && s1.is_false()) || (s0.is_false() && s1.is_true())),
            "C04/untrimmed-prime-true-false",
            "node {{(p, T), (!p, F)}} at vtree position {} could be trimmed to its prime: {:?}",
            pos,
            els
        );
    }
    if let SddPtr::BDD(b) = n {
        ensure!(b.low() != b.high(), "C04/binary-node-equal-children", "binary node on {} has low == high", b.label().value());
        st.bump("nodes.binary");
    } else {
        st.bump("nodes.general");
        if els.len() >= 3 {
            st.bump("nodes.general_ge3_elements");
        }
    }
    Ok(())
}

pub fn run_case(case: &Case, st: &mut Stats) -> CaseResult {
    let (vt, emb) = crate::props::c03::effective_vtree(case);
    let b = make_builder(&vt, true, case.table_cap);
    let grow0 = rsdd::verif_hooks::table_grows();
    let shape = vt.shape();
    let info = ShapeInfo::new(&shape);
    let mut run = match emb {
        Some(labels) => {
            st.bump("case.embedded_in_a_larger_vtree");
            SddRun::new_embedded(&b, labels)
        }
        None => SddRun::new(&b, shape.leaves()),
    };
    let mut canon: BTreeMap<Tt, (SddPtr, usize)> = BTreeMap::new();
    for (i, (p, t)) in run.pool.iter().enumerate() {
        canon.insert(*t, (*p, i));
    }
    let mut checked: HashSet<SddKey> = HashSet::new();
    let mut memo: SddMemo = HashMap::new();
    let mut positions: BTreeSet<usize> = BTreeSet::new();
    let mut big_node = false;
    let mut widest = 0usize;
    let mut pairs = 0u64;
    let mut sweep_budget = 12usize;
    let mut widest_swept = 0usize;
    for (i, op) in case.ops.iter().enumerate() {
        let Some(out) = run.step(op) else {
            st.bump("op_not_applicable");
            continue;
        };
        st.bump(&format!("op.{}", out.kind));
        let (p, t) = run.pool[out.idx];
        // C03 is the function check: here every diagram is keyed by the function it actually denotes
        let got = sdd_tt_m(p, &mut memo);
        if got != t {
            st.bump("result_differs_from_oracle_function(C03's concern)");
        }
        let t = got;
        for n in sdd_nodes(p) {
            let k = sdd_key(n).unwrap();
            if checked.insert(k) {
                check_node(n, &info, &mut memo, st).map_err(|mut f| {
                    f.detail = format!("{} [reachable from the result of op #{} {:?}; vtree {:?}]", f.detail, i, op, shape);
                    f
                })?;
                positions.insert(n.vtree().value());
                if !matches!(n, SddPtr::BDD(_)) {
                    let ne = sdd_elements(n).len();
                    if ne >= 3 {
                        big_node = true;
                    }
                    widest = widest.max(ne);
                }
            }
        }
        match canon.get(&t) {
            Some((q, j)) => {
                pairs += 1;
                ensure!(
                    *q == p && b.eq(*q, p),
                    "C04/equal-functions-different-pointers",
                    "op #{} {:?} produced {:?} for the function {:?}, but pool entry {} already holds {:?} for it (vtree {:?}, {} table growths)",
                    i,
                    op,
                    p,
                    t,
                    j,
                    q,
                    shape,
                    rsdd::verif_hooks::table_grows() - grow0
                );
            }
            None => {
                canon.insert(t, (p, out.idx));
            }
        }
        // only if: different functions are never reported equal
        for (t2, (q, j)) in canon.iter() {
            if *t2 != t {
                ensure!(
                    *q != p && !b.eq(*q, p) && !b.eq(p, *q),
                    "C04/different-functions-reported-equal",
                    "op #{} {:?} produced {:?} denoting {:?}; pool entry {} is {:?} denoting {:?}, yet the equality test reports them equal",
                    i,
                    op,
                    p,
                    t,
                    j,
                    q,
                    t2
                );
            }
        }
        // negation is the complemented pointer of the same node: both polarities canonical
        let np = b.negate(p);
        if let Some((q, _)) = canon.get(&t.not()) {
            ensure!(
                *q == np,
                "C04/negation-not-canonical",
                "the negation of the result of op #{} is {:?} but the function {:?} is already held by {:?}",
                i,
                np,
                t.not(),
                q
            );
        }
        // library's own predicates are recorded, never decisive
        st.flag("library_is_canonical_false", !p.is_canonical());
        // condition sweep: every cofactor of the new result must be well formed and canonical too
        // (conditioning re-assembles nodes by a route of its own: falsified primes, unchanged subs, ...)
        // budget: the first 8 decision-node results, then up to 4 more that are wider than anything swept so far
        let width = if sdd_is_internal(p) && !matches!(p, SddPtr::BDD(_) | SddPtr::ComplBDD(_)) { sdd_elements(p).len() } else { 2 };
        let take = sdd_is_internal(p) && (sweep_budget > 4 || (sweep_budget > 0 && width > widest_swept));
        if take {
            sweep_budget -= 1;
            widest_swept = widest_swept.max(width);
            for v in run.labels.clone() {
                for val in [false, true] {
                    let c = b.condition(p, rsdd::repr::VarLabel::new_usize(v), val);
                    let want = sdd_tt_m(c, &mut memo);
                    if want != t.cofactor(run.o(v), val) {
                        st.bump("result_differs_from_oracle_function(C03's concern)");
                    }
                    for n in sdd_nodes(c) {
                        let k = sdd_key(n).unwrap();
                        if checked.insert(k) {
                            check_node(n, &info, &mut memo, st).map_err(|mut f| {
                                f.detail = format!(
                                    "{} [reachable from condition(result of op #{} {:?}, x{} = {}); vtree {:?}]",
                                    f.detail, i, op, v, val, shape
                                );
                                f
                            })?;
                        }
                    }
                    match canon.get(&want) {
                        Some((q, j)) => {
                            pairs += 1;
                            ensure!(
                                *q == c,
                                "C04/equal-functions-different-pointers",
                                "condition(result of op #{} {:?}, x{} = {}) is {:?} for the function {:?}, but pool entry {} already holds {:?} for it (vtree {:?})",
                                i,
                                op,
                                v,
                                val,
                                c,
                                want,
                                j,
                                q,
                                shape
                            );
                        }
                        None => {
                            canon.insert(want, (c, out.idx));
                        }
                    }
                    st.bump("condition_sweep");
                }
            }
        }
    }
    st.add("canonicity_pairs", pairs);
    st.add("table_grows", rsdd::verif_hooks::table_grows() - grow0);
    st.bump(&format!("case.vtree_kind.{}", case.vt.kind % 5));
    st.bump(match widest {
        0..=2 => "case.widest_node.le2",
        3..=8 => "case.widest_node.3-8",
        9..=20 => "case.widest_node.9-20",
        _ => "case.widest_node.gt20",
    });
    if big_node || positions.len() >= 2 {
        st.mark_nontrivial();
    }
    Ok(())
}

impl SubCheckT for WellFormed {
    type Case = Case;
    const NAME: &'static str = "wellformed";
    const REPLAY_ATTEMPTS: u32 = 20;
    const RULE: &'static str = "C03-style histories on the compressing builder (unique tables of 1..32 slots or default; in one case of six the <=8 variables are embedded at random leaves of a vtree with 9..120 leaves), with the extra op Rebuild(i) = re-derive entry i from its truth table as a disjunction of cubes in a shuffled variable order, and the op Dense(bits) = build the function with that truth table by Shannon expansion (wide decision nodes, >20 elements). For every node reachable from every result, with left/right variable sets taken from the harness's own in-order numbering of the vtree: primes non-false, pairwise disjoint, exhaustive (truth tables); variables syntactically reachable in primes within the left set and in subs within the right set; subs pairwise distinct (pointer and function); no {(T,s)}, no {(p,T),(!p,F)}, binary nodes with distinct children; and equal truth tables => pointer equality (results, rebuilds and negations); 12 decision-node results of each history (the first 8, then those wider than any conditioned before) are additionally conditioned on every (variable, value) and the cofactors are held to the same function / node / canonicity checks. Non-trivial: a non-binary decision node with >=3 elements or decision nodes at >=2 vtree positions";
    fn cases(tier: Tier) -> u32 {
        tier.pick(12_000, 150_000)
    }
    fn strategy(_tier: Tier) -> BoxedStrategy<Case> {
        let general = (
            vtree_case_strategy(8, false),
            prop_oneof![2 => Just(None), 6 => (1u16..=32).prop_map(Some)],
            proptest::collection::vec(sop_strategy_ext(true, true, true), 0..=40),
        );
        // wide decision nodes: see C03
        let wide = (
            (7u8..=8, proptest::collection::vec(any::<u16>(), 12), proptest::collection::vec(any::<u16>(), 12)).prop_map(|(k, keys, splits)| VtreeCase {
                k,
                keys,
                kind: 4,
                splits,
                stride: 1,
                offset: 0,
            }),
            prop_oneof![2 => Just(None), 6 => (1u16..=32).prop_map(Some)],
            (any::<[u64; 4]>(), proptest::collection::vec(sop_strategy_ext(true, true, true), 0..=12)).prop_map(|(bits, mut ops)| {
                ops.insert(0, SOp::Dense(bits));
                ops
            }),
        );
        let sparse = (
            (1u8..=3, proptest::collection::vec(any::<u16>(), 12), 0u8..5, proptest::collection::vec(any::<u16>(), 12), 2u8..=3, 0u8..=1).prop_map(
                |(k, keys, kind, splits, stride, offset)| VtreeCase { k, keys, kind, splits, stride, offset },
            ),
            prop_oneof![2 => Just(None), 6 => (1u16..=32).prop_map(Some)],
            proptest::collection::vec(sop_strategy_ext(true, true, true), 0..=24),
        );
        // products of wide nodes: two or three dense functions on a vtree whose root has six variables on the left and
        // two on the right, combined with each other (and with the results) by the binary and ternary operations: the
        // element lists that reach compression have dozens to a few hundred entries with many equal and complementary subs
        let product = (
            (proptest::collection::vec(any::<u16>(), 12), proptest::collection::vec(any::<u16>(), 12)).prop_map(|(keys, mut splits)| {
                splits[0] &= !1;
                VtreeCase { k: 8, keys, kind: 4, splits, stride: 1, offset: 0 }
            }),
            prop_oneof![2 => Just(None), 6 => (1u16..=32).prop_map(Some)],
            (
                proptest::collection::vec(any::<[u64; 4]>(), 2..=3),
                proptest::collection::vec((0u8..7, any::<u8>(), any::<u8>(), any::<u8>()), 2..=8),
                proptest::collection::vec(sop_strategy_ext(true, true, false), 0..=4),
            )
                .prop_map(|(dense, combos, tail)| {
                    let base = 2 + 8usize; // constants and the eight literals
                    let mut ops: Vec<SOp> = dense.iter().map(|b| SOp::Dense(*b)).collect();
                    let mut len = base + ops.len();
                    // raw index that `pick` maps to pool entry j when the pool has `len` entries
                    let raw = |j: usize, len: usize| -> u16 { (((j << 16) + len - 1) / len).min(0xFFFF) as u16 };
                    for (kind, a, b, c) in combos {
                        let span = len - base;
                        let (x, y, z) = (base + a as usize % span, base + b as usize % span, base + c as usize % span);
                        let (x, y, z) = (raw(x, len), raw(y, len), raw(z, len));
                        ops.push(match kind {
                            0 | 1 => SOp::And(x, y),
                            2 => SOp::Or(x, y),
                            3 => SOp::Xor(x, y),
                            4 => SOp::Iff(x, y),
                            5 => SOp::Ite(x, y, z),
                            _ => SOp::Not(x),
                        });
                        len += 1;
                    }
                    ops.extend(tail);
                    ops
                }),
        );
        (prop_oneof![12 => general.boxed(), 1 => wide.boxed(), 1 => sparse.boxed(), 1 => product.boxed()], crate::props::c03::embed_strategy())
            .prop_map(|((vt, table_cap, ops), embed)| Case {
                embed: if vt.contiguous() { embed } else { None },
                vt,
                compress: true,
                table_cap,
                ops,
                checkpoints: vec![],
            })
            .boxed()
    }
    fn run(case: &Case, st: &mut Stats) -> CaseResult {
        run_case(case, st)
    }
}

// ---------------------------------------------------------------------------
// canonicity on SDDs with many essential variables, by identities that need no truth table
// ---------------------------------------------------------------------------

#[derive(Clone, Debug, serde::Serialize, serde::Deserialize)]
pub struct IdentCase {
    pub nv: u8,
    pub seed: u64,
    /// 0 random splits, 1 balanced, 2 right-linear, 3 deep left: the root's left child is a right-linear chain over
    /// all but three variables (primes nest as deep as that chain), its right child holds the last three
    pub vt_kind: u8,
    pub table_cap: Option<u16>,
    pub steps: Vec<(u8, u16, u16, u16)>,
    pub idents: Vec<(u8, u16, u16, u16, u8, bool)>,
}

pub struct Identities;

pub fn run_ident(case: &IdentCase, st: &mut Stats) -> CaseResult {
    let deep = case.vt_kind % 4 == 3;
    let n = if deep { (case.nv as usize).clamp(12, 26) } else { (case.nv as usize).clamp(9, 16) };
    let shape: Shape = if deep {
        fn chain(labels: &[usize]) -> Shape {
            if labels.len() == 1 {
                Shape::Leaf(labels[0])
            } else {
                Shape::Node(Box::new(Shape::Leaf(labels[0])), Box::new(chain(&labels[1..])))
            }
        }
        let all: Vec<usize> = (0..n).collect();
        Shape::Node(Box::new(chain(&all[..n - 3])), Box::new(chain(&all[n - 3..])))
    } else {
        VtreeCase {
            k: n as u8,
            keys: (0..n as u64).map(|i| (splitmix(case.seed ^ (i + 1)) >> 48) as u16).collect(),
            kind: [3u8, 2, 0][(case.vt_kind % 4) as usize],
            splits: (0..n as u64).map(|i| (splitmix(case.seed ^ (i + 77)) >> 48) as u16).collect(),
            stride: 1,
            offset: 0,
        }
        .shape()
    };
    rsdd::verif_hooks::set_unique_table_capacity(case.table_cap.map(|c| c as usize));
    let b = rsdd::builder::sdd::CompressionSddBuilder::new(shape.to_vtree());
    rsdd::verif_hooks::set_unique_table_capacity(None);
    let lit = |v: usize, p: bool| b.var(rsdd::repr::VarLabel::new_usize(v), p);
    let mut pool: Vec<SddPtr> = (0..n).map(|v| lit(v, splitmix(case.seed ^ v as u64) & 1 == 1)).collect();
    let mut must_commute: Vec<(SddPtr, SddPtr)> = Vec::new();
    if deep {
        // terms that share a cube over most of the chain and differ only in its last two variables and on the
        // right of the root: their primes agree on a long prefix
        let m = n - 3;
        let mut cube = b.true_ptr();
        for v in (0..m - 2).rev() {
            cube = b.and(lit(v, splitmix(case.seed ^ 0xC0 ^ v as u64) % 4 != 0), cube);
        }
        for k in 0..3u64 {
            let x = splitmix(case.seed ^ 0x7E4 ^ k);
            let tail = b.and(lit(m - 2, x & 1 == 1), lit(m - 1, x & 2 == 2));
            let right = b.and(lit(m + (k as usize % 3), x & 4 == 4), lit(m + ((k as usize + 1) % 3), x & 8 == 8));
            let left = b.and(cube, tail);
            pool.push(b.and(left, right));
        }
        let l = pool.len();
        must_commute.push((pool[l - 1], pool[l - 2]));
        must_commute.push((pool[l - 2], pool[l - 3]));
        must_commute.push((pool[l - 1], pool[l - 3]));
    }
    fn at<'x>(pool: &[SddPtr<'x>], i: u16) -> SddPtr<'x> {
        pool[pick(i, pool.len())]
    }
    let max_steps = if deep { 6 } else { case.steps.len() };
    for (op, a, bb, c) in case.steps.iter().take(max_steps) {
        let (p, q, r) = (at(&pool, *a), at(&pool, *bb), at(&pool, *c));
        let res = match op % 5 {
            0 => b.and(p, q),
            1 => b.or(p, q.neg()),
            2 => b.ite(p, q, r),
            3 => b.or(b.and(p, q), r),
            _ => b.xor(p, q),
        };
        if !res.is_const() {
            pool.push(res);
        }
    }
    let sized = |p: SddPtr| sdd_nodes(p).len();
    let mut largest = 0usize;
    let mut deepest = 0usize;
    let same_on_samples = |p: SddPtr, q: SddPtr, salt: u64| -> bool {
        (0..192u64).all(|k| {
            let a = crate::big::assignment(case.seed ^ salt, k, n);
            crate::big::sdd_eval(p, &a) == crate::big::sdd_eval(q, &a)
        })
    };
    let mut tests: Vec<(String, SddPtr, SddPtr, usize)> = Vec::new();
    for (x, y) in must_commute.iter() {
        tests.push(("or(a,b) = or(b,a) on terms sharing a long cube".into(), b.or(*x, *y), b.or(*y, *x), sized(*x)));
        tests.push(("and(!a,!b) = and(!b,!a) on terms sharing a long cube".into(), b.and(x.neg(), y.neg()), b.and(y.neg(), x.neg()), sized(*x)));
    }
    for (kind, a, bb, c, vb, val) in case.idents.iter() {
        let (p, q, r) = (at(&pool, *a), at(&pool, *bb), at(&pool, *c));
        let v = rsdd::repr::VarLabel::new_usize(((*vb as usize) * n) >> 8);
        let (name, lhs, rhs): (&str, SddPtr, SddPtr) = match kind % 9 {
            0 => ("and(a,b) = and(b,a)", b.and(p, q), b.and(q, p)),
            1 => ("or(a,b) = or(b,a)", b.or(p, q), b.or(q, p)),
            2 => ("or(a,b) = not and(not a, not b)", b.or(p, q), b.and(p.neg(), q.neg()).neg()),
            3 => ("ite(a,b,c) = or(and(a,b), and(!a,c))", b.ite(p, q, r), b.or(b.and(p, q), b.and(p.neg(), r))),
            4 => ("exists(a,v) = or(a|v, a|!v)", b.exists(p, v), b.or(b.condition(p, v, true), b.condition(p, v, false))),
            5 => ("and(a,b)|v = and(a|v, b|v)", b.condition(b.and(p, q), v, *val), b.and(b.condition(p, v, *val), b.condition(q, v, *val))),
            6 => ("or(and(v, a|v), and(!v, a|!v)) = a", b.or(b.and(b.var(v, true), b.condition(p, v, true)), b.and(b.var(v, false), b.condition(p, v, false))), p),
            7 => ("and(and(a,b),c) = and(a,and(b,c))", b.and(b.and(p, q), r), b.and(p, b.and(q, r))),
            _ => ("xor(a,b) = or(and(a,!b), and(!a,b))", b.xor(p, q), b.or(b.and(p, q.neg()), b.and(p.neg(), q))),
        };
        tests.push((name.into(), lhs, rhs, sized(p).max(sized(q))));
    }
    for (k, (name, lhs, rhs, opsize)) in tests.iter().enumerate() {
        largest = largest.max(sized(*lhs)).max(*opsize);
        deepest = deepest.max(crate::big::sdd_depth(*lhs));
        if *lhs != *rhs || !b.eq(*lhs, *rhs) {
            if same_on_samples(*lhs, *rhs, k as u64) {
                return fail(
                    "C04/equal-functions-different-pointers",
                    format!(
                        "identity #{} {} over {} variables (vtree family {}, operands of up to {} nodes): the two sides agree on 192 sampled assignments but are different pointers ({} and {} nodes)",
                        k,
                        name,
                        n,
                        case.vt_kind % 4,
                        opsize,
                        sized(*lhs),
                        sized(*rhs)
                    ),
                );
            }
            st.bump("identity_sides_denote_different_functions(C03's concern)");
        }
        st.bump("identities_checked");
    }
    st.bump(&format!("ident.vtree_family.{}", case.vt_kind % 4));
    st.bump(match largest {
        0..=16 => "ident.largest_diagram.upto_16",
        17..=64 => "ident.largest_diagram.17_64",
        _ => "ident.largest_diagram.above_64",
    });
    st.bump(match deepest {
        0..=8 => "ident.deepest_nesting.upto_8",
        9..=16 => "ident.deepest_nesting.9_16",
        _ => "ident.deepest_nesting.above_16",
    });
    if largest > 16 || deepest > 8 {
        st.mark_nontrivial();
    }
    Ok(())
}

impl SubCheckT for Identities {
    type Case = IdentCase;
    const NAME: &'static str = "identities_on_large_sdds";
    const RULE: &'static str = "compressing builder over 9..16 variables (random / balanced / right-linear vtree) with a pool grown by up to 14 and / or / ite / xor steps, or over 12..26 variables on a vtree whose root has a right-linear chain of all but three variables on its left, with terms that share a cube over most of that chain (the root's primes are nested as deep as the chain and agree on a long prefix); then identities whose two sides are built by different routes and must be the same pointer: commutativity of and / or (always on the cube-sharing terms), De Morgan, ite and xor by and/or, exists = or of the cofactors, conditioning distributes over and, Shannon re-assembly, associativity; sides that differ as pointers are evaluated on 192 sampled assignments: agreeing there they are two pointers for one function (reported here), else recorded as C03's concern. Non-trivial: a diagram of more than 16 nodes or nodes nested deeper than 8";
    fn cases(tier: Tier) -> u32 {
        tier.pick(600, 12_000)
    }
    fn strategy(_tier: Tier) -> BoxedStrategy<IdentCase> {
        (
            9u8..=26,
            any::<u64>(),
            prop_oneof![2 => Just(0u8), 1 => Just(1u8), 1 => Just(2u8), 3 => Just(3u8)],
            prop_oneof![2 => Just(None), 3 => (1u16..=32).prop_map(Some)],
            proptest::collection::vec((any::<u8>(), crate::bddi::idx_strategy(), crate::bddi::idx_strategy(), crate::bddi::idx_strategy()), 4..=14),
            proptest::collection::vec(
                (any::<u8>(), crate::bddi::idx_strategy(), crate::bddi::idx_strategy(), crate::bddi::idx_strategy(), any::<u8>(), any::<bool>()),
                2..=10,
            ),
        )
            .prop_map(|(nv, seed, vt_kind, table_cap, steps, idents)| IdentCase { nv, seed, vt_kind, table_cap, steps, idents })
            .boxed()
    }
    fn run(case: &IdentCase, st: &mut Stats) -> CaseResult {
        run_ident(case, st)
    }
}

pub fn property() -> Property {
    Property {
        id: "C04",
        subs: vec![sub::<WellFormed>(), sub::<Identities>()],
        fuzz: vec![FuzzSpec { target: "sdd_ops", runs: 6000, max_len: 300 }],
        assumptions: vec![
            "compressing builder only (compression switched on); functions of <= 8 variables (vtrees of up to 120 leaves)",
            "the library's is_canonical/is_compressed/is_trimmed are recorded in the histogram but never decide pass/fail",
        ],
        nt_floor_percent: 15,
    }
}
