//! C17 — parsing and serialisation preserve the formula.
use crate::bddi::*;
use crate::cnfgen::*;
use crate::engine::*;
use crate::exprgen::*;
use crate::props::c03::make_builder;
use crate::sddi::*;
use crate::textgen::*;
use crate::tt::Tt;
use crate::vtgen::*;
use crate::walk::*;
use proptest::prelude::*;
use rsdd::builder::bdd::RobddBuilder;
use rsdd::builder::cache::IteTable;
use rsdd::repr::{BddPtr, Cnf, LogicalExpr};
use rsdd::serialize::{BDDSerializer, LogicalSExpr, SDDSerializer, VTreeSerializer};
use serde::{Deserialize, Serialize};
use std::collections::BTreeSet;

// ---------------------------------------------------------------------------
// DIMACS
// ---------------------------------------------------------------------------

#[derive(Clone, Debug, Serialize, Deserialize)]
pub struct DimacsCase {
    pub cnf: CnfCase,
    pub header: (u8, u8),
    pub layout: Vec<u8>,
    pub drop_last_zero: bool,
}

pub struct Dimacs;

const TOKSEP: [&str; 7] = [" ", "  ", "\t", "\n", " \n", "\r\n", "\n\n"];

pub fn dimacs_text(case: &DimacsCase) -> String {
    let mut pos = 0usize;
    let mut next = |lay: &[u8]| -> u8 {
        let s = if lay.is_empty() { 0 } else { lay[pos % lay.len()] };
        pos += 1;
        s
    };
    let mut out = String::new();
    // optional leading comments / blank lines
    let lead = next(&case.layout) % 4;
    for i in 0..lead {
        if next(&case.layout) % 2 == 0 {
            out.push_str(&format!("c comment {} 1 -2 0\n", i));
        } else {
            out.push('\n');
        }
    }
    let hn = case.header.0.max(1);
    let hm = case.header.1.max(1);
    out.push_str(&format!("p cnf {} {}", hn, hm));
    out.push('\n');
    let nclauses = case.cnf.clauses.len();
    for (ci, c) in case.cnf.clauses.iter().enumerate() {
        let mut toks: Vec<String> = c.iter().map(|(v, p)| format!("{}{}", if *p { "" } else { "-" }, *v as usize + 1)).collect();
        let last = ci + 1 == nclauses;
        if !(last && case.drop_last_zero && !c.is_empty()) {
            toks.push("0".to_string());
        }
        for t in toks {
            out.push_str(&t);
            let s = TOKSEP[(next(&case.layout) as usize) % TOKSEP.len()];
            out.push_str(s);
            // a comment may only start at the beginning of a line
            if s.ends_with('\n') && next(&case.layout) % 7 == 0 {
                out.push_str("c mid comment 3 0\n");
            }
        }
    }
    if next(&case.layout) % 3 == 0 {
        out.push_str("\nc trailing comment\n");
    }
    out
}

fn clause_sets(c: &Cnf) -> Vec<BTreeSet<(usize, bool)>> {
    c.clauses()
        .iter()
        .map(|cl| cl.iter().map(|l| (l.label().value_usize(), l.polarity())).collect())
        .collect()
}

pub fn run_dimacs(case: &DimacsCase, st: &mut Stats) -> CaseResult {
    let text = dimacs_text(case);
    let cnf = Cnf::from_dimacs(&text);
    let want: Vec<BTreeSet<(usize, bool)>> = case
        .cnf
        .clauses
        .iter()
        .map(|c| c.iter().map(|(v, p)| (*v as usize, *p)).collect())
        .collect();
    let got = clause_sets(&cnf);
    // the property claims the same models for the parsed formula (asserted next); clause-by-clause identity
    // with the generating list is recorded only
    st.flag("dimacs.parsed_clause_list_differs_from_generating_list(recorded only)", got != want);
    let big = case.cnf.num_vars() > crate::tt::NV;
    if big {
        // more than 8 variables (multi-digit variable numbers): the models are compared on assignments instead of a
        // truth table - pseudo-random ones and, for every clause, ones that falsify exactly that clause
        use crate::big::{assignment, cnf_eval, falsifying, Clause};
        let nn = case.cnf.num_vars().max(cnf.num_vars());
        let gen: Vec<Clause> = want.iter().map(|c| c.iter().copied().collect()).collect();
        let parsed: Vec<Clause> = got.iter().map(|c| c.iter().copied().collect()).collect();
        ensure!(
            cnf.num_vars() <= nn && parsed.iter().flatten().all(|(v, _)| *v < nn),
            "C17/dimacs-models",
            "the parsed formula mentions a variable beyond those of the text"
        );
        let seed = case.layout.iter().fold(0x9E37u64, |a, b| a.wrapping_mul(31).wrapping_add(*b as u64));
        let mut probes: Vec<Vec<bool>> = (0..32).map(|k| assignment(seed, k, nn)).collect();
        for (ci, c) in gen.iter().enumerate().take(48) {
            probes.push(falsifying(seed, ci as u64, nn, c));
        }
        let e = if !case.cnf.clauses.is_empty() && !case.cnf.has_empty_clause() { Some(LogicalExpr::from_dimacs(&text)) } else { None };
        for a in probes.iter() {
            let w = cnf_eval(&gen, a);
            ensure!(
                cnf_eval(&parsed, a) == w,
                "C17/dimacs-models",
                "parsing\n{}\ngave a formula that is {} on an assignment where the text's clauses are {}",
                text,
                !w,
                w
            );
            if let Some(e) = &e {
                ensure!(
                    logical_eval(e, a, 1) == Some(w),
                    "C17/logical-expr-from-dimacs",
                    "LogicalExpr::from_dimacs of\n{}\nis not {} on an assignment where the text's clauses are",
                    text,
                    w
                );
            }
        }
        st.bump("dimacs.many_variables");
        st.flag("dimacs.variable_number_with_a_zero_digit", want.iter().flatten().any(|(v, _)| (v + 1).to_string().contains('0')));
    } else {
    // models (through the library's own structure, read by the harness)
    let t = case.cnf.tt();
    let parsed_tt = got.iter().fold(Tt::TRUE, |acc, c| acc.and(c.iter().fold(Tt::FALSE, |a, (v, p)| a.or(Tt::lit(*v, *p)))));
    ensure!(parsed_tt == t, "C17/dimacs-models", "models differ: {:?} vs {:?}", parsed_tt, t);
    // LogicalExpr::from_dimacs: 1-based labels, needs >= 1 clause and no empty clause
    if !case.cnf.clauses.is_empty() && !case.cnf.has_empty_clause() {
        let e = LogicalExpr::from_dimacs(&text);
        let et = logical_tt_checked(&e, 1);
        ensure!(
            et == Some(t),
            "C17/logical-expr-from-dimacs",
            "LogicalExpr::from_dimacs of\n{}\nevaluates (labels = file variable numbers) to {:?}; the clause list denotes {:?}",
            text,
            et,
            t
        );
        st.bump("dimacs.logical_expr");
    }
    }
    // round trip through to_dimacs
    let n = cnf.num_vars();
    let m = cnf.clauses().len();
    let text2 = format!("p cnf {} {}{}", n.max(1), m.max(1), cnf.to_dimacs());
    let back = Cnf::from_dimacs(&text2);
    let as_set = |v: &Vec<BTreeSet<(usize, bool)>>| v.iter().cloned().collect::<BTreeSet<_>>();
    ensure!(
        as_set(&clause_sets(&back)) == as_set(&got),
        "C17/dimacs-round-trip",
        "printing the parsed CNF with to_dimacs and re-parsing\n{}\ngave {:?}, expected {:?}",
        text2,
        clause_sets(&back),
        got
    );
    st.flag("dimacs.ge256_clauses", case.cnf.clauses.len() >= 256);
    st.flag("dimacs.clause_of_ge256_literals", case.cnf.clauses.iter().any(|c| c.len() >= 256));
    st.flag("dimacs.dropped_final_zero", case.drop_last_zero && case.cnf.clauses.last().map(|c| !c.is_empty()).unwrap_or(false));
    st.flag("dimacs.empty_clause", case.cnf.has_empty_clause());
    st.flag("dimacs.no_clause", case.cnf.clauses.is_empty());
    if case.cnf.mentioned_vars().len() >= 3 && case.cnf.clauses.iter().filter(|c| c.len() >= 2).count() >= 2 {
        st.mark_nontrivial();
    }
    Ok(())
}

/// value of a LogicalExpr under a total assignment (labels are `shift`-based); None if a label is out of range
fn logical_eval(e: &LogicalExpr, a: &[bool], shift: usize) -> Option<bool> {
    Some(match e {
        LogicalExpr::Literal(v, p) => {
            if *v < shift || *v - shift >= a.len() {
                return None;
            }
            a[*v - shift] == *p
        }
        LogicalExpr::Not(x) => !logical_eval(x, a, shift)?,
        LogicalExpr::And(x, y) => logical_eval(x, a, shift)? & logical_eval(y, a, shift)?,
        LogicalExpr::Or(x, y) => logical_eval(x, a, shift)? | logical_eval(y, a, shift)?,
        LogicalExpr::Iff(x, y) => logical_eval(x, a, shift)? == logical_eval(y, a, shift)?,
        LogicalExpr::Xor(x, y) => logical_eval(x, a, shift)? != logical_eval(y, a, shift)?,
        LogicalExpr::Ite { guard, thn, els } => {
            if logical_eval(guard, a, shift)? {
                logical_eval(thn, a, shift)?
            } else {
                logical_eval(els, a, shift)?
            }
        }
    })
}

/// like exprgen::logical_tt but refuses labels outside [shift, shift + 8)
fn logical_tt_checked(e: &LogicalExpr, shift: usize) -> Option<Tt> {
    fn ok(e: &LogicalExpr, shift: usize) -> bool {
        match e {
            LogicalExpr::Literal(v, _) => *v >= shift && *v - shift < crate::tt::NV,
            LogicalExpr::Not(a) => ok(a, shift),
            LogicalExpr::And(a, b) | LogicalExpr::Or(a, b) | LogicalExpr::Iff(a, b) | LogicalExpr::Xor(a, b) => ok(a, shift) && ok(b, shift),
            LogicalExpr::Ite { guard, thn, els } => ok(guard, shift) && ok(thn, shift) && ok(els, shift),
        }
    }
    if ok(e, shift) {
        Some(logical_tt(e, shift))
    } else {
        None
    }
}

impl SubCheckT for Dimacs {
    type Case = DimacsCase;
    const NAME: &'static str = "dimacs";
    const RULE: &'static str = "DIMACS text generated from a clause list (one case in nine with variable numbers up to 251, compared on sampled and clause-falsifying assignments instead of a truth table): header counts right or wrong but >= 1 (a bare 0 is the clause terminator for the third-party lexer), comment lines before/between/after, arbitrary spaces/tabs/newlines/CRLF between tokens, clauses split across lines, empty clauses, optional missing final 0: Cnf::from_dimacs yields a formula with exactly the models of the generating clause list (clause-by-clause identity is recorded only; file variable i = label i-1); LogicalExpr::from_dimacs (>=1 clause, no empty clause) evaluates, under its documented 1-based labels, to the same truth table; printing with to_dimacs behind a header and re-parsing returns the same set of clause sets. Non-trivial: >=3 variables and >=2 clauses with >=2 literals";
    fn cases(tier: Tier) -> u32 {
        tier.pick(10_000, 150_000)
    }
    fn strategy(_tier: Tier) -> BoxedStrategy<DimacsCase> {
        (
            prop_oneof![
                8 => cnf_strategy(),
                // variable numbers with two and three digits (and zeros in them)
                1 => proptest::collection::vec(proptest::collection::vec((prop_oneof![0u8..=30, 0u8..=250, Just(9u8), Just(99u8), Just(100u8), Just(199u8)], any::<bool>()), 1..=5), 1..=12)
                    .prop_map(|clauses| CnfCase { clauses }),
                // hundreds of clauses; clauses of hundreds of literals
                1 => prop_oneof![many_clauses_strategy().boxed(), long_clauses_strategy().boxed()].prop_map(|clauses| CnfCase { clauses }),
            ],
            (1u8..=20, 1u8..=20),
            proptest::collection::vec(any::<u8>(), 1..12),
            any::<bool>(),
        )
            .prop_map(|(cnf, header, layout, drop_last_zero)| DimacsCase {
                cnf,
                header,
                layout,
                drop_last_zero,
            })
            .boxed()
    }
    fn run(case: &DimacsCase, st: &mut Stats) -> CaseResult {
        run_dimacs(case, st)
    }
}

// ---------------------------------------------------------------------------
// s-expressions
// ---------------------------------------------------------------------------

#[derive(Clone, Debug, Serialize, Deserialize)]
pub struct SexprCase {
    pub ex: Ex,
    pub names: Vec<String>,
    pub seps: Vec<u8>,
    pub lead: u8,
}

pub struct Sexpr;

pub fn run_sexpr(case: &SexprCase, st: &mut Stats) -> CaseResult {
    let mut src = SepSource { sel: &case.seps, pos: 0 };
    let body = sexpr_text(&case.ex, &case.names, &mut src);
    let text = format!(
        "{}{}{}",
        ["", " ", "\n", "\t "][(case.lead % 4) as usize],
        body,
        ["", "\n", " ", ""][((case.lead / 4) % 4) as usize]
    );
    let parsed = serde_sexpr::from_str::<LogicalSExpr>(&text);
    let Ok(sx) = parsed else {
        // the third-party parser rejected the text: a generator/domain problem, never a violation of rsdd
        st.bump("sexpr.rejected_by_serde_sexpr");
        return Ok(());
    };
    let e = LogicalExpr::from_sexpr(&sx);
    let used = used_names_sorted(&case.ex, &case.names);
    // documented numbering: the i-th name in lexicographic order is variable i
    let mapping = sx.variable_mapping();
    for (i, nm) in used.iter().enumerate() {
        ensure!(
            mapping.get(nm).copied() == Some(i),
            "C17/sexpr-variable-numbering",
            "variable_mapping gives {:?} to '{}'; lexicographic position among {:?} is {}",
            mapping.get(nm),
            nm,
            used,
            i
        );
    }
    ensure!(mapping.len() == used.len(), "C17/sexpr-variable-numbering", "mapping has {} names, expression uses {:?}", mapping.len(), used);
    let by_name = rename(&case.ex, &|v| used.iter().position(|u| *u == case.names[v]).unwrap());
    let want = by_name.tt();
    let got = logical_tt_checked(&e, 0);
    ensure!(
        got == Some(want),
        "C17/sexpr-models",
        "parsing\n{}\nand converting with from_sexpr evaluates to {:?} under the lexicographic numbering {:?}; the text denotes {:?}",
        text,
        got,
        used,
        want
    );
    if used.len() >= 3 && case.ex.connectives() >= 2 {
        st.mark_nontrivial();
    }
    Ok(())
}

impl SubCheckT for Sexpr {
    type Case = SexprCase;
    const NAME: &'static str = "sexpr";
    const RULE: &'static str = "s-expression text printed from a random AST (7 connectives, depth <= 5, no constants) over distinct names [A-Za-z_][A-Za-z0-9_]{0,5} or digit strings (never a keyword) with random whitespace between siblings: serde_sexpr -> LogicalExpr::from_sexpr evaluated (harness evaluator) under the documented lexicographic name->index numbering equals the AST evaluated by name; variable_mapping is that numbering. Non-trivial: >=3 distinct variables and >=2 connectives";
    fn cases(tier: Tier) -> u32 {
        tier.pick(8000, 120_000)
    }
    fn strategy(_tier: Tier) -> BoxedStrategy<SexprCase> {
        (1u8..=6)
            .prop_flat_map(|nv| (ex_strategy(nv, 5), names_strategy(nv as usize), proptest::collection::vec(any::<u8>(), 1..10), any::<u8>()))
            .prop_map(|(ex, names, seps, lead)| SexprCase { ex, names, seps, lead })
            .boxed()
    }
    fn run(case: &SexprCase, st: &mut Stats) -> CaseResult {
        run_sexpr(case, st)
    }
}

// ---------------------------------------------------------------------------
// JSON: BDD
// ---------------------------------------------------------------------------

#[derive(Clone, Debug, Serialize, Deserialize)]
pub struct JsonBddCase {
    pub cfg: BddCfg,
    pub ops: Vec<BOp>,
}

pub struct JsonBdd;

fn json_bdd_go<'a, T: IteTable<'a, BddPtr<'a>> + Default>(b: &'a RobddBuilder<'a, T>, case: &JsonBddCase, st: &mut Stats) -> CaseResult {
    let mut run = BddRun::new(b, case.cfg.n0 as usize);
    for op in case.ops.iter() {
        run.step(op);
    }
    let mut nt = false;
    // besides the pool: diagrams of other shapes that the same serialiser accepts - two pool functions smoothed over
    // all variables (don't-care nodes) and compiled top-down from a CNF of theirs (unreduced nodes with constant
    // children, false high edges)
    let n_now = run.n;
    let td = rsdd::builder::decision_nnf::StandardDecisionNNFBuilder::new(rsdd::repr::VarOrder::linear_order(n_now.max(1)));
    let mut items: Vec<(BddPtr, crate::tt::Tt)> = run.pool.clone();
    if n_now >= 1 && case.cfg.embed.is_none() {
        let mut by_support: Vec<usize> = (0..run.pool.len()).collect();
        by_support.sort_by_key(|i| std::cmp::Reverse(run.pool[*i].1.support_size()));
        for i in by_support.into_iter().take(2) {
            let (p, t) = run.pool[i];
            let sm = b.smooth(p, b.num_vars());
            items.push((sm, t));
            let walked = bdd_tt(p);
            if !walked.is_const() {
                let mut clauses: Vec<Vec<rsdd::repr::Literal>> = Vec::new();
                for a in 0..(1usize << n_now) {
                    if !walked.get(a) {
                        clauses.push((0..n_now).map(|v| rsdd::repr::Literal::new(rsdd::repr::VarLabel::new_usize(v), (a >> v) & 1 == 0)).collect());
                    }
                }
                let d = rsdd::builder::decision_nnf::DecisionNNFBuilder::compile_cnf_topdown(&td, &rsdd::repr::Cnf::new(&clauses));
                items.push((d, t));
                st.bump("json.bdd.top_down_diagrams");
            }
            st.bump("json.bdd.smoothed_diagrams");
        }
    }
    for (i, (p, t)) in items.iter().enumerate() {
        let ser = BDDSerializer::from_bdd(*p);
        let v = serde_json::to_value(&ser).map_err(|e| Failure {
            signature: "C17/json-bdd-not-serialisable".into(),
            detail: e.to_string(),
        })?;
        // through text as well, as the tools print it
        let text = serde_json::to_string(&ser).unwrap();
        let v2: serde_json::Value = serde_json::from_str(&text).unwrap();
        ensure!(v == v2, "C17/json-bdd-text-roundtrip", "to_string/from_str changed the document");
        let walked = bdd_tt(*p);
        match bdd_json_tt(&v) {
            Ok((jt, nn)) => {
                ensure!(
                    jt == walked,
                    "C17/json-bdd-denotes-other-function",
                    "pool entry {}: the JSON node table denotes {:?}, the in-memory diagram {:?} (oracle {:?}); JSON: {}",
                    i,
                    jt,
                    walked,
                    t,
                    text
                );
                st.flag("json.bdd.node_count_differs(recorded only)", nn != bdd_nodes(*p).len());
            }
            Err(e) => return fail("C17/json-bdd-unreadable", format!("pool entry {}: {} in {}", i, e, text)),
        }
        if bdd_shared_nodes(*p) > 0 || bdd_compl_edges(*p) > 0 {
            nt = true;
        }
        st.flag("json.bdd.constant", p.is_const());
        st.flag("json.bdd.compl_root", bdd_is_compl(*p));
        st.flag("json.bdd.shared", bdd_shared_nodes(*p) > 0);
    }
    if nt {
        st.mark_nontrivial();
    }
    Ok(())
}

impl SubCheckT for JsonBdd {
    type Case = JsonBddCase;
    const NAME: &'static str = "json_bdd";
    const RULE: &'static str = "every entry of a BDD pool built by a <=30-op history (constants, literals, shared nodes, complemented roots and edges), and two of its functions smoothed over all variables and compiled top-down from their CNF (don't-care nodes, unreduced nodes, false high edges): serde_json of BDDSerializer::from_bdd, read by the harness's own reader as nodes[i] = {topvar, low, high} with pointers True / False / {Ptr:{index, compl}} (children defined before use), denotes the truth table read off the in-memory diagram (node-table length recorded only). Non-trivial: a diagram with a shared node or a complemented edge";
    fn cases(tier: Tier) -> u32 {
        tier.pick(3000, 50_000)
    }
    fn strategy(_tier: Tier) -> BoxedStrategy<JsonBddCase> {
        (cfg_strategy(6), ops_strategy(30)).prop_map(|(cfg, ops)| JsonBddCase { cfg, ops }).boxed()
    }
    fn run(case: &JsonBddCase, st: &mut Stats) -> CaseResult {
        with_bdd_builder!(&case.cfg, json_bdd_go(case, st))
    }
}

// ---------------------------------------------------------------------------
// JSON: SDD and vtree
// ---------------------------------------------------------------------------

#[derive(Clone, Debug, Serialize, Deserialize)]
pub struct JsonSddCase {
    pub vt: VtreeCase,
    pub compress: bool,
    pub ops: Vec<SOp>,
}

pub struct JsonSdd;

pub fn run_json_sdd(case: &JsonSddCase, st: &mut Stats) -> CaseResult {
    let compress = case.compress || case.vt.k > 4;
    let b = make_builder(&case.vt, compress, Some(32));
    let shape = case.vt.shape();
    let mut run = SddRun::new(&b, shape.leaves());
    for op in case.ops.iter() {
        run.step(op);
    }
    let mut nt = false;
    for (i, (p, t)) in run.pool.iter().enumerate() {
        let ser = SDDSerializer::from_sdd(*p);
        let text = serde_json::to_string(&ser).unwrap();
        let v: serde_json::Value = serde_json::from_str(&text).unwrap();
        let walked = sdd_tt(*p);
        match sdd_json_tt(&v) {
            Ok((jt, nn)) => {
                ensure!(
                    jt == walked,
                    "C17/json-sdd-denotes-other-function",
                    "pool entry {}: the JSON node table denotes {:?}, the in-memory SDD {:?} (oracle {:?}); JSON: {}",
                    i,
                    jt,
                    walked,
                    t,
                    text
                );
                st.flag("json.sdd.node_count_differs(recorded only)", nn != sdd_nodes(*p).len());
            }
            Err(e) => return fail("C17/json-sdd-unreadable", format!("pool entry {}: {} in {}", i, e, text)),
        }
        if sdd_nodes(*p).len() >= 2 || sdd_is_compl(*p) {
            nt = true;
        }
    }
    // vtree (sparse labels allowed)
    let vser = VTreeSerializer::from_vtree(&shape.to_vtree());
    let vtext = serde_json::to_string(&vser).unwrap();
    let vv: serde_json::Value = serde_json::from_str(&vtext).unwrap();
    match vtree_json_shape(&vv) {
        Ok(s) => ensure!(
            s == shape,
            "C17/json-vtree-differs",
            "the serialised vtree {} reads back as {:?}, the in-memory tree is {:?}",
            vtext,
            s,
            shape
        ),
        Err(e) => return fail("C17/json-vtree-unreadable", format!("{} in {}", e, vtext)),
    }
    if nt {
        st.mark_nontrivial();
    }
    Ok(())
}

impl SubCheckT for JsonSdd {
    type Case = JsonSddCase;
    const NAME: &'static str = "json_sdd_vtree";
    const RULE: &'static str = "every entry of an SDD pool (random vtree <=6 variables, compression on/off, <=25 ops): serde_json of SDDSerializer::from_sdd read as nodes[i] = [{prime, sub}] with pointers True / False / {Literal:{label,polarity}} / {Ptr:{index,compl}} denotes the truth table read off the in-memory SDD (node-table length recorded only); VTreeSerializer output read as Leaf/Node{left,right} equals the vtree. Non-trivial: an SDD with >=2 internal nodes or a complemented root";
    fn cases(tier: Tier) -> u32 {
        tier.pick(3000, 50_000)
    }
    fn strategy(_tier: Tier) -> BoxedStrategy<JsonSddCase> {
        (
            vtree_case_strategy(6, false),
            any::<bool>(),
            proptest::collection::vec(sop_strategy(true, false), 0..=25),
        )
            .prop_map(|(vt, compress, ops)| JsonSddCase { vt, compress, ops })
            .boxed()
    }
    fn run(case: &JsonSddCase, st: &mut Stats) -> CaseResult {
        run_json_sdd(case, st)
    }
}

pub fn property() -> Property {
    Property {
        id: "C17",
        subs: vec![sub::<Dimacs>(), sub::<Sexpr>(), sub::<JsonBdd>(), sub::<JsonSdd>()],
        fuzz: vec![],
        assumptions: vec![
            "DIMACS header counts are >= 1: the third-party dimacs lexer reads a bare 0 as the clause terminator, so 'p cnf 0 0' is rejected by that crate (outside the input domain); '+' signs and '%' end markers are not generated (rejected by that crate)",
            "s-expressions contain no True/False (todo!() in from_sexpr and excluded by the property) and whitespace only where serde_sexpr accepts it (between siblings); a text rejected by serde_sexpr is counted, not reported",
            "LogicalExpr::from_dimacs keeps 1-based variable numbers (documented by its doctest)",
        ],
        nt_floor_percent: 15,
    }
}
