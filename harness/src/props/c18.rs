//! C18 — the C ABI is a faithful wrapper of the Rust operations.
//!
//! The `#[no_mangle] extern "C"` functions of rsdd's private `ffi` module are linked from the rlib and
//! declared here. They are called exactly as a C client would; results are read back through the C
//! accessors (`bdd_is_true/false`, `bdd_topvar`, `bdd_low`, `bdd_high`, `bdd_eq`, ...).
use crate::bddi::{idx_strategy, order_keys_strategy, perm_from_keys};
use crate::cnfgen::*;
use crate::engine::*;
use crate::semi::*;
use crate::textgen::bdd_json_tt;
use crate::tt::Tt;
use crate::vtgen::*;
use crate::walk::*;
use proptest::prelude::*;
use rsdd::builder::bdd::RobddBuilder;
use rsdd::builder::cache::AllIteTable;
use rsdd::builder::decision_nnf::{DecisionNNFBuilder, StandardDecisionNNFBuilder};
use rsdd::builder::sdd::CompressionSddBuilder;
use rsdd::builder::BottomUpBuilder;
use rsdd::repr::{BddPtr, Cnf, DDNNFPtr, DTree, SddPtr, VTree, VarLabel, VarOrder, WmcParams};
use rsdd::util::semirings::{Complex, FiniteField, Polynomial, RealSemiring, Semiring};
use serde::{Deserialize, Serialize};
use std::ffi::{c_char, c_void, CStr, CString};

type CBdd = BddPtr<'static>;

#[repr(C)]
#[derive(Clone, Copy)]
pub struct WeightF64(pub f64, pub f64);

#[repr(C)]
#[derive(Clone, Copy)]
pub struct WeightComplex(pub Complex, pub Complex);

#[repr(C)]
pub struct WeightPoly {
    low: *mut Polynomial<RealSemiring>,
    high: *mut Polynomial<RealSemiring>,
}

#[repr(C)]
pub struct CClause {
    pub vars: *mut u64,
    pub len: usize,
}

#[allow(improper_ctypes)]
extern "C" {
    fn var_order_linear(num_vars: usize) -> *const VarOrder;
    fn var_order_new(order: *const u64, len: usize) -> *mut VarOrder;
    fn literal_new(label: u64, polarity: bool) -> u64;
    fn cnf_from_dimacs(s: *const c_char) -> *const Cnf;
    fn cnf_new(clauses: *const CClause, len: usize) -> *mut Cnf;
    fn cnf_min_fill_order(cnf: *mut Cnf) -> *mut VarOrder;
    fn dtree_from_cnf(cnf: *const Cnf, order: *const VarOrder) -> *mut DTree;
    fn vtree_from_dtree(dtree: *const DTree) -> *mut VTree;
    fn robdd_builder_all_table(order: *mut VarOrder) -> *mut c_void;
    fn mk_bdd_manager_default_order(num_vars: u64) -> *mut c_void;
    fn free_bdd_manager(mgr: *mut c_void);
    fn robdd_builder_compile_cnf(builder: *mut c_void, cnf: *mut Cnf) -> *mut CBdd;
    fn robdd_model_count(builder: *mut c_void, bdd: *mut CBdd) -> u64;
    fn bdd_new_label(builder: *mut c_void) -> u64;
    fn bdd_var(builder: *mut c_void, label: u64, polarity: bool) -> *mut CBdd;
    fn bdd_new_var(builder: *mut c_void, polarity: bool) -> *mut CBdd;
    fn bdd_ite(builder: *mut c_void, f: *mut CBdd, g: *mut CBdd, h: *mut CBdd) -> *mut CBdd;
    fn bdd_and(builder: *mut c_void, l: *mut CBdd, r: *mut CBdd) -> *mut CBdd;
    fn bdd_or(builder: *mut c_void, l: *mut CBdd, r: *mut CBdd) -> *mut CBdd;
    fn bdd_negate(builder: *mut c_void, b: *mut CBdd) -> *mut CBdd;
    fn bdd_compose(builder: *mut c_void, f: *mut CBdd, l: u64, g: *mut CBdd) -> *mut CBdd;
    fn bdd_is_true(b: *mut CBdd) -> bool;
    fn bdd_is_false(b: *mut CBdd) -> bool;
    fn bdd_is_const(b: *mut CBdd) -> bool;
    fn bdd_count_nodes(b: *mut CBdd) -> usize;
    fn bdd_true(builder: *mut c_void) -> *mut CBdd;
    fn bdd_false(builder: *mut c_void) -> *mut CBdd;
    fn bdd_eq(builder: *mut c_void, l: *mut CBdd, r: *mut CBdd) -> bool;
    fn bdd_topvar(b: *mut CBdd) -> u64;
    fn bdd_low(b: *mut CBdd) -> *mut CBdd;
    fn bdd_high(b: *mut CBdd) -> *mut CBdd;
    fn bdd_to_json(b: *mut CBdd) -> *const c_char;
    fn print_bdd(b: *mut CBdd) -> *const c_char;
    fn bdd_num_recursive_calls(builder: *mut c_void) -> usize;
    fn bdd_scratch(b: *mut CBdd, default: usize) -> usize;
    fn bdd_set_scratch(b: *mut CBdd, val: usize);
    fn bdd_clear_scratch(b: *mut CBdd);
    fn bdd_wmc(b: *mut CBdd, w: *mut WmcParams<RealSemiring>) -> f64;
    fn bdd_wmc_complex(b: *mut CBdd, w: *mut WmcParams<Complex>) -> Complex;
    fn new_wmc_params_f64() -> *mut WmcParams<RealSemiring>;
    fn free_wmc_params_f64(w: *mut WmcParams<RealSemiring>);
    fn new_wmc_params_complex() -> *mut WmcParams<Complex>;
    fn free_wmc_params_complex(w: *mut WmcParams<Complex>);
    fn wmc_param_f64_set_weight(w: *mut WmcParams<RealSemiring>, var: u64, low: f64, high: f64);
    fn wmc_param_complex_set_weight(w: *mut WmcParams<Complex>, var: u64, low: Complex, high: Complex);
    fn wmc_param_f64_var_weight(w: *mut WmcParams<RealSemiring>, var: u64) -> WeightF64;
    fn wmc_param_complex_var_weight(w: *mut WmcParams<Complex>, var: u64) -> WeightComplex;
    fn weight_complex_lo(w: WeightComplex) -> Complex;
    fn weight_complex_hi(w: WeightComplex) -> Complex;
    fn weight_f64_lo(w: WeightF64) -> f64;
    fn weight_f64_hi(w: WeightF64) -> f64;
    fn new_polynomial(coeffs: *const f64, len: usize) -> *mut Polynomial<RealSemiring>;
    fn destroy_polynomial(p: *mut Polynomial<RealSemiring>);
    fn new_wmc_params_poly() -> *mut WmcParams<Polynomial<RealSemiring>>;
    fn destroy_wmc_params_poly(w: *mut WmcParams<Polynomial<RealSemiring>>);
    fn wmc_param_poly_set_weight(
        w: *mut WmcParams<Polynomial<RealSemiring>>,
        var: u64,
        low: *const f64,
        low_len: usize,
        high: *const f64,
        high_len: usize,
    );
    fn wmc_param_poly_var_weight(w: *mut WmcParams<Polynomial<RealSemiring>>, var: u64) -> WeightPoly;
    fn polynomial_len(p: *mut Polynomial<RealSemiring>) -> usize;
    fn polynomial_get_coeffs(p: *mut Polynomial<RealSemiring>, buf: *mut f64, max_len: usize) -> usize;
    fn bdd_wmc_poly(b: *mut CBdd, w: *mut WmcParams<Polynomial<RealSemiring>>) -> *mut Polynomial<RealSemiring>;
    fn sdd_builder_new(vtree: *mut VTree) -> *mut c_void;
    fn sdd_builder_compile_cnf(builder: *const c_void, cnf: *const Cnf) -> *mut SddPtr<'static>;
    fn sdd_wmc(sdd: *const SddPtr<'static>, w: *const WmcParams<RealSemiring>) -> f64;
    fn ddnnf_builder_new(order: *mut VarOrder) -> *mut c_void;
    fn ddnnf_builder_compile_cnf_topdown(builder: *const c_void, cnf: *const Cnf) -> *mut CBdd;
}

#[derive(Clone, Debug, Serialize, Deserialize, PartialEq)]
pub enum COp {
    Var(u8, bool),
    Const(bool),
    Negate(u16),
    And(u16, u16),
    Or(u16, u16),
    Ite(u16, u16, u16),
    Compose(u16, u8, u16),
    NewVar(bool),
    NewLabelThenVar(bool),
    // queries
    Eq(u16, u16),
    CountNodes(u16),
    ModelCount(u16),
    WmcReal(u16, Vec<u8>),
    WmcComplex(u16, Vec<u8>),
    WmcPoly(u16, Vec<u8>),
    Json(u16),
    Print(u16),
    Scratch(u16, u16),
    /// the handle returned by bdd_low / bdd_high joins the pool as an operand of later calls
    Child(u16, bool),
}

#[derive(Clone, Debug, Serialize, Deserialize)]
pub struct Case {
    pub n0: u8,
    /// None = mk_bdd_manager_default_order; Some(keys) = robdd_builder_all_table(var_order_new(perm)); linear perm uses var_order_linear
    pub order_keys: Option<Vec<u16>>,
    pub ops: Vec<COp>,
    pub cnf: CnfCase,
    pub vt: VtreeCase,
    /// when set: one model count on a manager with 21 or 22 variables (counts above 2^20; about 0.1 s each)
    #[serde(default)]
    pub big: Option<Vec<u8>>,
}

pub struct Abi;

/// truth table read through the C accessors only
unsafe fn c_tt(p: *mut CBdd, depth: usize) -> Result<Tt, Failure> {
    if depth > 64 {
        return fail("C18/accessor-walk-does-not-terminate", "bdd_low/bdd_high chain longer than 64".into());
    }
    let (t, f, c) = (bdd_is_true(p), bdd_is_false(p), bdd_is_const(p));
    ensure!(
        c == (t || f) && !(t && f),
        "C18/is-const-inconsistent",
        "bdd_is_true = {}, bdd_is_false = {}, bdd_is_const = {}",
        t,
        f,
        c
    );
    if t {
        return Ok(Tt::TRUE);
    }
    if f {
        return Ok(Tt::FALSE);
    }
    let v = bdd_topvar(p) as usize;
    ensure!(v < crate::tt::NV, "C18/topvar-out-of-range", "bdd_topvar = {}", v);
    let lo = c_tt(bdd_low(p), depth + 1)?;
    let hi = c_tt(bdd_high(p), depth + 1)?;
    Ok(Tt::var(v).ite(hi, lo))
}

fn sel(s: &[u8], v: usize, k: usize) -> u8 {
    s.get((v * 3 + k) % s.len().max(1)).copied().unwrap_or(1)
}

pub fn run_case(case: &Case, st: &mut Stats) -> CaseResult {
    unsafe { run_case_inner(case, st) }
}

unsafe fn run_case_inner(case: &Case, st: &mut Stats) -> CaseResult {
    // a manager may start without any variable (all of them added at run time)
    let n0 = (case.n0 as usize).min(6);
    rsdd::verif_hooks::set_unique_table_capacity(Some(64));
    let (mgr, order): (*mut c_void, Vec<usize>) = match &case.order_keys {
        None => (mk_bdd_manager_default_order(n0 as u64), (0..n0).collect()),
        Some(keys) => {
            let perm = perm_from_keys(keys, n0);
            let linear = perm.iter().enumerate().all(|(i, v)| i == *v);
            let o = if linear {
                var_order_linear(n0) as *mut VarOrder
            } else {
                let lbls: Vec<u64> = perm.iter().map(|v| *v as u64).collect();
                var_order_new(lbls.as_ptr(), lbls.len())
            };
            (robdd_builder_all_table(o), perm)
        }
    };
    let native = RobddBuilder::<AllIteTable<BddPtr>>::new(VarOrder::new(&order.iter().map(|v| VarLabel::new_usize(*v)).collect::<Vec<_>>()));
    let nb = &native;
    let mut n = n0;
    // pools in lock step: C handle, native pointer, oracle table
    let mut cp: Vec<*mut CBdd> = vec![bdd_true(mgr), bdd_false(mgr)];
    let mut np: Vec<BddPtr> = vec![nb.true_ptr(), nb.false_ptr()];
    let mut tp: Vec<Tt> = vec![Tt::TRUE, Tt::FALSE];
    for v in 0..n0 {
        cp.push(bdd_var(mgr, v as u64, true));
        np.push(nb.var(VarLabel::new_usize(v), true));
        tp.push(Tt::var(v));
    }
    let mut binops = 0;
    let mut counts = 0;
    // text results handed out so far (pointer, what it read when it was returned, op): a C client may hold on to
    // them, so each must still read the same after any later call
    let mut texts: Vec<(*const c_char, String, usize)> = Vec::new();
    for (i, op) in case.ops.iter().enumerate() {
        for (ptr, was, at_op) in texts.iter() {
            let now = CStr::from_ptr(*ptr).to_string_lossy().to_string();
            ensure!(
                now == *was,
                "C18/text-result-changed-after-a-later-call",
                "the text returned by op #{} read `{}`; before op #{} the same pointer reads `{}`",
                at_op,
                was,
                i,
                now
            );
        }
        let len = cp.len();
        let at = |x: &u16| pick(*x, len);
        let vv = |raw: &u8| ((*raw as usize) * n) >> 8;
        if n == 0 && matches!(op, COp::Var(..) | COp::Compose(..) | COp::WmcPoly(..)) {
            // nothing to name yet
            st.bump("op_needs_a_variable_but_the_manager_has_none");
            continue;
        }
        let produced: Option<(*mut CBdd, BddPtr, Tt, &'static str)> = match op {
            COp::Var(v, p) => {
                let v = vv(v);
                Some((bdd_var(mgr, v as u64, *p), nb.var(VarLabel::new_usize(v), *p), Tt::lit(v, *p), "bdd_var"))
            }
            COp::Const(b) => Some((
                if *b { bdd_true(mgr) } else { bdd_false(mgr) },
                if *b { nb.true_ptr() } else { nb.false_ptr() },
                Tt::constant(*b),
                "bdd_true/false",
            )),
            COp::Negate(a) => {
                let a = at(a);
                Some((bdd_negate(mgr, cp[a]), nb.negate(np[a]), tp[a].not(), "bdd_negate"))
            }
            COp::And(a, b) => {
                let (a, b) = (at(a), at(b));
                binops += 1;
                Some((bdd_and(mgr, cp[a], cp[b]), nb.and(np[a], np[b]), tp[a].and(tp[b]), "bdd_and"))
            }
            COp::Or(a, b) => {
                let (a, b) = (at(a), at(b));
                binops += 1;
                Some((bdd_or(mgr, cp[a], cp[b]), nb.or(np[a], np[b]), tp[a].or(tp[b]), "bdd_or"))
            }
            COp::Ite(f, g, h) => {
                let (f, g, h) = (at(f), at(g), at(h));
                binops += 1;
                Some((
                    bdd_ite(mgr, cp[f], cp[g], cp[h]),
                    nb.ite(np[f], np[g], np[h]),
                    tp[f].ite(tp[g], tp[h]),
                    "bdd_ite",
                ))
            }
            COp::Compose(f, v, g) => {
                let (f, g) = (at(f), at(g));
                let v = vv(v);
                binops += 1;
                Some((
                    bdd_compose(mgr, cp[f], v as u64, cp[g]),
                    nb.compose(np[f], VarLabel::new_usize(v), np[g]),
                    tp[f].compose(v, tp[g]),
                    "bdd_compose",
                ))
            }
            COp::NewVar(p) => {
                if n >= 8 {
                    None
                } else {
                    let c = bdd_new_var(mgr, *p);
                    let (lbl, r) = nb.new_var(*p);
                    n += 1;
                    Some((c, r, Tt::lit(lbl.value_usize(), *p), "bdd_new_var"))
                }
            }
            COp::NewLabelThenVar(p) => {
                if n >= 8 {
                    None
                } else {
                    let l = bdd_new_label(mgr);
                    let nl = nb.new_label();
                    ensure!(
                        l == nl.value(),
                        "C18/new-label",
                        "bdd_new_label returned {} but the native builder with the same history returns {}",
                        l,
                        nl.value()
                    );
                    n += 1;
                    Some((bdd_var(mgr, l, *p), nb.var(nl, *p), Tt::lit(l as usize, *p), "bdd_new_label+bdd_var"))
                }
            }
            COp::Child(a, hi) => {
                let a = at(a);
                if np[a].is_const() {
                    None
                } else {
                    let (c, nat) = if *hi { (bdd_high(cp[a]), np[a].high()) } else { (bdd_low(cp[a]), np[a].low()) };
                    st.bump("child_handle_joined_the_pool");
                    Some((c, nat, bdd_tt(nat), if *hi { "bdd_high" } else { "bdd_low" }))
                }
            }
            COp::Eq(a, b) => {
                let (a, b) = (at(a), at(b));
                let ce = bdd_eq(mgr, cp[a], cp[b]);
                let ne = nb.eq(np[a], np[b]);
                // whether equality coincides with equality of functions is C02's concern
                st.flag("native_eq_differs_from_function_equality(C02's concern)", ne != (bdd_tt(np[a]) == bdd_tt(np[b])));
                ensure!(
                    ce == ne,
                    "C18/bdd-eq",
                    "op #{}: bdd_eq(pool {}, pool {}) = {}, native eq = {}, functions equal = {}",
                    i,
                    a,
                    b,
                    ce,
                    ne,
                    tp[a] == tp[b]
                );
                None
            }
            COp::CountNodes(a) => {
                let a = at(a);
                let c = bdd_count_nodes(cp[a]);
                ensure!(
                    c == np[a].count_nodes(),
                    "C18/count-nodes",
                    "op #{}: bdd_count_nodes = {}, native count_nodes = {}",
                    i,
                    c,
                    np[a].count_nodes()
                );
                None
            }
            COp::ModelCount(a) => {
                let a = at(a);
                counts += 1;
                let c = robdd_model_count(mgr, cp[a]);
                // the native value: smooth over all variables, count with unit weights in the 64-bit field
                // (whether that is the number of models is C08's concern)
                let want = {
                    let mut ones = WmcParams::<FiniteField<{ rsdd::constants::primes::U64_LARGEST }>>::default();
                    for v in 0..nb.num_vars() {
                        ones.set_weight(VarLabel::new_usize(v), FiniteField::new(1), FiniteField::new(1));
                    }
                    nb.smooth(np[a], nb.num_vars()).unsmoothed_wmc(&ones).value() as u64
                };
                st.flag("native_model_count_differs_from_oracle(C08's concern)", want != tp[a].count_n(n));
                ensure!(
                    c == want,
                    "C18/model-count",
                    "op #{}: robdd_model_count = {} but the native smooth-and-count over the manager's {} variables gives {} (function {:?})",
                    i,
                    c,
                    n,
                    want,
                    tp[a]
                );
                None
            }
            COp::WmcReal(a, s) => {
                let a = at(a);
                counts += 1;
                let w = new_wmc_params_f64();
                let mut nat = WmcParams::<RealSemiring>::default();
                // normalised pairs (k/8, 1-k/8) or, a third of the time, arbitrary small pairs: the wrapper must
                // return the native (unsmoothed) count either way
                let unnormalised = sel(s, 1, 2) % 3 == 0;
                st.flag("wmc_real.unnormalised_weights", unnormalised);
                let wf = |v: usize, b: bool| -> f64 {
                    if unnormalised {
                        return [0.0, 0.5, 1.0, 2.0, 3.0][(sel(s, v, if b { 1 } else { 0 }) % 5) as usize];
                    }
                    let k = (sel(s, v, 0) % 9) as f64 / 8.0;
                    if b {
                        k
                    } else {
                        1.0 - k
                    }
                };
                for v in 0..n {
                    wmc_param_f64_set_weight(w, v as u64, wf(v, false), wf(v, true));
                    nat.set_weight(VarLabel::new_usize(v), RealSemiring(wf(v, false)), RealSemiring(wf(v, true)));
                    let back = wmc_param_f64_var_weight(w, v as u64);
                    ensure!(
                        weight_f64_lo(back) == wf(v, false) && weight_f64_hi(back) == wf(v, true),
                        "C18/wmc-param-var-weight",
                        "wmc_param_f64_var_weight({}) = ({}, {}), set ({}, {})",
                        v,
                        weight_f64_lo(back),
                        weight_f64_hi(back),
                        wf(v, false),
                        wf(v, true)
                    );
                }
                let c = bdd_wmc(cp[a], w);
                let nv = np[a].unsmoothed_wmc(&nat).0;
                let fops = Ops::<f64> { zero: 0.0, one: 1.0, add: &|a, b| a + b, mul: &|a, b| a * b };
                let brute = brute_force(tp[a], &(0..n).collect::<Vec<_>>(), &wf, &fops);
                free_wmc_params_f64(w);
                st.flag("native_wmc_differs_from_brute_force(C07's concern)", !unnormalised && nv != brute);
                ensure!(
                    c == nv,
                    "C18/wmc-real",
                    "op #{}: bdd_wmc = {}, native unsmoothed_wmc = {}, brute force = {}",
                    i,
                    c,
                    nv,
                    brute
                );
                None
            }
            COp::WmcComplex(a, s) => {
                let a = at(a);
                counts += 1;
                let w = new_wmc_params_complex();
                let mut nat = WmcParams::<Complex>::default();
                for v in 0..n {
                    let re = (sel(s, v, 0) % 9) as f64 / 8.0;
                    let im = (sel(s, v, 1) % 5) as f64 - 2.0;
                    let (lo, hi) = if sel(s, 0, 2) % 3 == 0 {
                        (Complex { re: (sel(s, v, 2) % 4) as f64, im: 1.0 - im }, Complex { re, im })
                    } else {
                        (Complex { re: 1.0 - re, im: -im }, Complex { re, im })
                    };
                    wmc_param_complex_set_weight(w, v as u64, lo, hi);
                    nat.set_weight(VarLabel::new_usize(v), lo, hi);
                    // the pair comes back by value as a struct of two complex numbers
                    let back = wmc_param_complex_var_weight(w, v as u64);
                    let (bl, bh) = (weight_complex_lo(back), weight_complex_hi(back));
                    ensure!(
                        bl.re == lo.re && bl.im == lo.im && bh.re == hi.re && bh.im == hi.im && back.0.re == lo.re && back.1.im == hi.im,
                        "C18/wmc-param-var-weight",
                        "wmc_param_complex_var_weight({}) reads back ({:?}, {:?}), set ({:?}, {:?})",
                        v,
                        bl,
                        bh,
                        lo,
                        hi
                    );
                }
                let c = bdd_wmc_complex(cp[a], w);
                let nv = np[a].unsmoothed_wmc(&nat);
                free_wmc_params_complex(w);
                ensure!(
                    c.re == nv.re && c.im == nv.im,
                    "C18/wmc-complex",
                    "op #{}: bdd_wmc_complex = {:?}, native = {:?}",
                    i,
                    c,
                    nv
                );
                None
            }
            COp::WmcPoly(a, s) => {
                let a = at(a);
                counts += 1;
                let w = new_wmc_params_poly();
                let mut nat = WmcParams::<Polynomial<RealSemiring>>::default();
                // one variable (chosen by the selector) gets a long polynomial, up to the 32-coefficient limit
                let long_var = (sel(s, 0, 2) as usize) % n;
                let long_len = [2usize, 5, 17, 31, 32, 32][(sel(s, 1, 2) as usize) % 6];
                // another variable gets low and high polynomials of independent lengths, including 0, 1 and more
                // than the limit (documented: an empty input is the zero polynomial, longer inputs are truncated)
                let odd_var = (long_var + 1 + (sel(s, 2, 2) as usize) % n.max(1)) % n;
                let odd_lens = [0usize, 1, 2, 17, 32, 40];
                let (odd_lo, odd_hi) = (odd_lens[(sel(s, 3, 2) as usize) % 6], odd_lens[(sel(s, 4, 2) as usize) % 6]);
                for v in 0..n {
                    if v == odd_var && v != long_var {
                        let lo: Vec<f64> = (0..odd_lo).map(|j| ((j + sel(s, v, 0) as usize) % 3) as f64).collect();
                        let hi: Vec<f64> = (0..odd_hi).map(|j| ((j * 2 + sel(s, v, 1) as usize) % 4) as f64 - 1.0).collect();
                        wmc_param_poly_set_weight(w, v as u64, lo.as_ptr(), lo.len(), hi.as_ptr(), hi.len());
                        let mk = |c: &Vec<f64>| {
                            let mut p = Polynomial::<RealSemiring>::zero();
                            if !c.is_empty() {
                                for (i, x) in c.iter().take(32).enumerate() {
                                    p.coefficients[i] = RealSemiring(*x);
                                }
                                p.len = c.len().min(32);
                            }
                            p
                        };
                        let (nlo, nhi) = (mk(&lo), mk(&hi));
                        nat.set_weight(VarLabel::new_usize(v), nlo, nhi);
                        let back = wmc_param_poly_var_weight(w, v as u64);
                        let mut bl = [0f64; 40];
                        let mut bh = [0f64; 40];
                        let kl = polynomial_get_coeffs(back.low, bl.as_mut_ptr(), 40);
                        let kh = polynomial_get_coeffs(back.high, bh.as_mut_ptr(), 40);
                        ensure!(
                            kl == nlo.len && kh == nhi.len && (0..kl).all(|j| bl[j] == nlo.coefficients[j].0) && (0..kh).all(|j| bh[j] == nhi.coefficients[j].0),
                            "C18/poly-var-weight",
                            "wmc_param_poly_set_weight({}, low of {} coefficients, high of {}) reads back as low {:?} / high {:?}",
                            v,
                            odd_lo,
                            odd_hi,
                            &bl[..kl.min(40)],
                            &bh[..kh.min(40)]
                        );
                        destroy_polynomial(back.low);
                        destroy_polynomial(back.high);
                        st.bump("poly_weight_with_independent_lengths");
                        continue;
                    }
                    let len = if v == long_var { long_len } else { 2 };
                    let mut hi = vec![0f64; len];
                    hi[0] = (sel(s, v, 0) % 3) as f64;
                    hi[1] = (sel(s, v, 1) % 3) as f64 - 1.0;
                    if len > 2 {
                        hi[len - 1] = 1.0 + (sel(s, v, 2) % 3) as f64;
                        hi[len / 2] = 2.0;
                    }
                    let mut lo: Vec<f64> = hi.iter().map(|c| -c).collect();
                    lo[0] = 1.0 - hi[0];
                    wmc_param_poly_set_weight(w, v as u64, lo.as_ptr(), lo.len(), hi.as_ptr(), hi.len());
                    let mk = |c: &Vec<f64>| {
                        let mut p = Polynomial::<RealSemiring>::zero();
                        for (i, x) in c.iter().enumerate() {
                            p.coefficients[i] = RealSemiring(*x);
                        }
                        p.len = c.len();
                        p
                    };
                    nat.set_weight(VarLabel::new_usize(v), mk(&lo), mk(&hi));
                    let back = wmc_param_poly_var_weight(w, v as u64);
                    let mut buf = [0f64; 40];
                    let k = polynomial_get_coeffs(back.high, buf.as_mut_ptr(), 40);
                    ensure!(
                        k == len && buf[..k] == hi[..] && polynomial_len(back.low) == len,
                        "C18/poly-var-weight",
                        "wmc_param_poly_var_weight({}) high reads back {:?} (len {}), set {:?}",
                        v,
                        &buf[..k.min(40)],
                        k,
                        hi
                    );
                    let kl = polynomial_get_coeffs(back.low, buf.as_mut_ptr(), 40);
                    ensure!(
                        kl == len && buf[..kl] == lo[..],
                        "C18/poly-var-weight",
                        "wmc_param_poly_var_weight({}) low reads back {:?}, set {:?}",
                        v,
                        &buf[..kl.min(40)],
                        lo
                    );
                    destroy_polynomial(back.low);
                    destroy_polynomial(back.high);
                }
                let r = bdd_wmc_poly(cp[a], w);
                let nv = np[a].unsmoothed_wmc(&nat);
                let mut buf = [0f64; 32];
                let k = polynomial_get_coeffs(r, buf.as_mut_ptr(), 32);
                ensure!(
                    k == polynomial_len(r) && k == nv.len && (0..k).all(|j| buf[j] == nv.coefficients[j].0),
                    "C18/wmc-poly",
                    "op #{}: bdd_wmc_poly = {:?} (len {}), native = {:?} (len {})",
                    i,
                    &buf[..k.min(32)],
                    k,
                    nv.coefficients.iter().map(|c| c.0).collect::<Vec<_>>(),
                    nv.len
                );
                // a buffer shorter than the polynomial: exactly max_len coefficients are written, nothing beyond
                if k >= 2 {
                    let short = k / 2;
                    let mut buf3 = [-777f64; 40];
                    let k3 = polynomial_get_coeffs(r, buf3.as_mut_ptr(), short);
                    ensure!(
                        k3 == short && (0..short).all(|j| buf3[j] == buf[j]) && buf3[short..].iter().all(|x| *x == -777.0),
                        "C18/polynomial-get-coeffs",
                        "polynomial_get_coeffs with max_len {} on a polynomial of {} coefficients returned {} and wrote {:?}",
                        short,
                        k,
                        k3,
                        &buf3[..k.min(40)]
                    );
                }
                // new_polynomial round trip, including inputs longer than the 32-coefficient limit (documented: truncated)
                for len in [0usize, 1, k.max(1), 31, 32, 40] {
                    let src: Vec<f64> = (0..len).map(|j| 1.0 + ((j * 7 + sel(s, j, 0) as usize) % 5) as f64).collect();
                    let np2 = new_polynomial(src.as_ptr(), len);
                    let mut buf2 = [0f64; 40];
                    let k2 = polynomial_get_coeffs(np2, buf2.as_mut_ptr(), 40);
                    let want_len = len.min(32);
                    ensure!(
                        k2 == want_len && polynomial_len(np2) == want_len && buf2[..k2] == src[..want_len],
                        "C18/new-polynomial",
                        "new_polynomial of {} coefficients {:?} reads back as {:?} (len {})",
                        len,
                        src,
                        &buf2[..k2.min(40)],
                        k2
                    );
                    destroy_polynomial(np2);
                }
                destroy_polynomial(r);
                destroy_wmc_params_poly(w);
                None
            }
            COp::Print(a) => {
                let a = at(a);
                let tp_ptr = print_bdd(cp[a]);
                let text = CStr::from_ptr(tp_ptr).to_string_lossy().to_string();
                texts.push((tp_ptr as *const c_char, text.clone(), i));
                ensure!(
                    text == np[a].print_bdd(),
                    "C18/print-bdd",
                    "op #{}: print_bdd gives `{}`, the native print_bdd of the same diagram `{}`",
                    i,
                    text,
                    np[a].print_bdd()
                );
                let (c, nat) = (bdd_num_recursive_calls(mgr), nb.num_recursive_calls());
                ensure!(
                    c == nat,
                    "C18/num-recursive-calls",
                    "op #{}: bdd_num_recursive_calls = {} but the native builder with the same history reports {}",
                    i,
                    c,
                    nat
                );
                None
            }
            COp::Scratch(a, val) => {
                let a = at(a);
                if !np[a].is_const() {
                    let v = *val as usize + 1;
                    // the C view of "no scratch" must agree with the native one (leftovers themselves are C10's concern)
                    let c_empty = bdd_scratch(cp[a], 424242) == 424242;
                    let n_empty = np[a].is_scratch_cleared();
                    st.flag("scratch_not_empty_before_use(C10's concern)", !n_empty);
                    ensure!(
                        c_empty == n_empty || !n_empty,
                        "C18/scratch",
                        "op #{}: native node has no scratch but bdd_scratch does not return the default",
                        i
                    );
                    bdd_set_scratch(cp[a], v);
                    let got = bdd_scratch(cp[a], 424242);
                    bdd_clear_scratch(cp[a]);
                    let after = bdd_scratch(cp[a], 424242);
                    ensure!(
                        got == v && after == 424242,
                        "C18/scratch",
                        "op #{}: bdd_set_scratch({}) then bdd_scratch = {}, after bdd_clear_scratch = {} (default 424242)",
                        i,
                        v,
                        got,
                        after
                    );
                }
                None
            }
            COp::Json(a) => {
                let a = at(a);
                let s = bdd_to_json(cp[a]);
                let text = CStr::from_ptr(s).to_string_lossy().to_string();
                texts.push((s as *const c_char, text.clone(), i));
                let v: serde_json::Value = serde_json::from_str(&text).map_err(|e| Failure {
                    signature: "C18/json-unparsable".into(),
                    detail: format!("{}: {}", e, text),
                })?;
                match bdd_json_tt(&v) {
                    Ok((jt, _)) => ensure!(
                        jt == bdd_tt(np[a]),
                        "C18/json-denotes-other-function",
                        "op #{}: bdd_to_json denotes {:?}, the native diagram {:?}: {}",
                        i,
                        jt,
                        bdd_tt(np[a]),
                        text
                    ),
                    Err(e) => return fail("C18/json-unreadable", format!("{} in {}", e, text)),
                }
                None
            }
        };
        if let Some((c, nat, t, what)) = produced {
            let ct = c_tt(c, 0)?;
            let nt = bdd_tt(nat);
            // whether the native operation is right is C01's concern: the wrapper must agree with it
            if nt != t {
                st.bump("native_result_differs_from_oracle(C01's concern)");
            }
            ensure!(
                ct == nt,
                format!("C18/wrong-function:{}", what),
                "op #{} {:?}: read through the C accessors the result denotes {:?}, the native result {:?} (oracle {:?})",
                i,
                op,
                ct,
                nt,
                t
            );
            // top variable and children agree with the native ones
            let want_top = nat.var_safe().map(|v| v.value()).unwrap_or(0);
            ensure!(
                bdd_topvar(c) == want_top,
                "C18/topvar",
                "op #{}: bdd_topvar = {}, native var_safe = {:?}",
                i,
                bdd_topvar(c),
                nat.var_safe()
            );
            if !nat.is_const() {
                let (cl, ch) = (bdd_low(c), bdd_high(c));
                ensure!(
                    bdd_iso(*cl, nat.low()) && bdd_iso(*ch, nat.high()),
                    "C18/low-high",
                    "op #{}: bdd_low/bdd_high differ structurally from native low()/high()",
                    i
                );
            }
            ensure!(bdd_iso(*c, nat), "C18/structure", "op #{} {:?}: C result and native result are not isomorphic", i, op);
            cp.push(c);
            np.push(nat);
            tp.push(t);
        }
    }
    free_bdd_manager(mgr);

    // ---- one-shot wrappers: cnf, orders, dtree, vtree, sdd, ddnnf --------------------
    if !case.cnf.clauses.is_empty() && case.cnf.num_vars() >= 1 {
        let ncnf = case.cnf.to_rsdd();
        let nn = ncnf.num_vars();
        // cnf_new from literal_new
        let mut store: Vec<Vec<u64>> = case
            .cnf
            .clauses
            .iter()
            .map(|c| c.iter().map(|(v, p)| literal_new(*v as u64, *p)).collect())
            .collect();
        let cl: Vec<CClause> = store.iter_mut().map(|v| CClause { vars: v.as_mut_ptr(), len: v.len() }).collect();
        let ccnf = cnf_new(cl.as_ptr(), cl.len());
        ensure!(*ccnf == ncnf, "C18/cnf-new", "cnf_new differs from Cnf::new for {:?}", case.cnf.clauses);
        // dimacs
        let mut text = format!("p cnf {} {}\n", nn.max(1), case.cnf.clauses.len().max(1));
        for c in case.cnf.clauses.iter() {
            for (v, p) in c {
                text.push_str(&format!("{}{} ", if *p { "" } else { "-" }, *v as usize + 1));
            }
            text.push_str("0\n");
        }
        let cs = CString::new(text.clone()).unwrap();
        let dcnf = cnf_from_dimacs(cs.as_ptr());
        ensure!(*dcnf == ncnf, "C18/cnf-from-dimacs", "cnf_from_dimacs differs from Cnf::new for {:?}", case.cnf.clauses);
        // min-fill order
        let co = cnf_min_fill_order(ccnf);
        let no = ncnf.min_fill_order();
        let cseq: Vec<usize> = (*co).in_order_iter().map(|v| v.value_usize()).collect();
        let nseq: Vec<usize> = no.in_order_iter().map(|v| v.value_usize()).collect();
        ensure!(cseq == nseq, "C18/min-fill-order", "cnf_min_fill_order {:?} vs native {:?}", cseq, nseq);
        // dtree / vtree
        let cd = dtree_from_cnf(ccnf, co);
        let nd = DTree::from_cnf(&ncnf, &no);
        ensure!(
            format!("{:?}", *cd) == format!("{:?}", nd),
            "C18/dtree-from-cnf",
            "dtree_from_cnf differs from DTree::from_cnf"
        );
        let cv = vtree_from_dtree(cd);
        let nv = VTree::from_dtree(&nd);
        match (cv.is_null(), &nv) {
            (true, None) => {}
            (false, Some(v)) => ensure!(*cv == *v, "C18/vtree-from-dtree", "vtree_from_dtree differs from VTree::from_dtree"),
            _ => return fail("C18/vtree-from-dtree", "null-ness differs from the native Option".into()),
        }
        let expect = case.cnf.tt();
        // compile through a C manager (consumes the cnf)
        let m2 = robdd_builder_all_table(var_order_linear(nn) as *mut VarOrder);
        let r = robdd_builder_compile_cnf(m2, dcnf as *mut Cnf);
        let ct = c_tt(r, 0)?;
        // native counterparts (whether they denote the CNF is C05's concern; recorded only)
        let nm2 = RobddBuilder::<AllIteTable<BddPtr>>::new(VarOrder::linear_order(nn));
        let nr = nm2.compile_cnf(&ncnf);
        st.flag("native_compile_differs_from_oracle(C05's concern)", bdd_tt(nr) != expect);
        ensure!(
            ct == bdd_tt(nr) && bdd_iso(*r, nr),
            "C18/compile-cnf",
            "robdd_builder_compile_cnf denotes {:?}, the native compile_cnf {:?} (the CNF {:?})",
            ct,
            bdd_tt(nr),
            expect
        );
        let nmc = {
            let mut ones = WmcParams::<FiniteField<{ rsdd::constants::primes::U64_LARGEST }>>::default();
            for v in 0..nm2.num_vars() {
                ones.set_weight(VarLabel::new_usize(v), FiniteField::new(1), FiniteField::new(1));
            }
            nm2.smooth(nr, nm2.num_vars()).unsmoothed_wmc(&ones).value() as u64
        };
        ensure!(robdd_model_count(m2, r) == nmc, "C18/model-count", "model count of the compiled CNF: {} vs native {}", robdd_model_count(m2, r), nmc);
        free_bdd_manager(m2);
        // sdd
        let mut vt = case.vt.clone();
        // the vtree may have up to two leaves more than the CNF has variables (weighted variables no diagram tests)
        let wbits = crate::engine::splitmix(case.vt.keys.iter().fold(0x18u64, |a, k| a.wrapping_mul(31).wrapping_add(*k as u64)));
        let nleaves = (nn + (wbits % 3) as usize).min(8);
        vt.k = nleaves as u8;
        vt.stride = 1;
        vt.offset = 0;
        let sb = sdd_builder_new(Box::into_raw(Box::new(vt.to_vtree())));
        let sr = sdd_builder_compile_cnf(sb, ccnf);
        let nsb = CompressionSddBuilder::new(vt.to_vtree());
        let nsr = nsb.compile_cnf(&ncnf);
        ensure!(
            sdd_tt(*sr) == sdd_tt(nsr) && sdd_iso(*sr, nsr),
            "C18/sdd-compile-cnf",
            "sdd_builder_compile_cnf denotes {:?}, the native compile_cnf {:?} (the CNF {:?})",
            sdd_tt(*sr),
            sdd_tt(nsr),
            expect
        );
        let w = new_wmc_params_f64();
        let mut nat = WmcParams::<RealSemiring>::default();
        // three weight tables in turn on the same parameter object: arbitrary small pairs (the wrapper must return
        // the native unsmoothed count whatever the pairs sum to), some entries overwritten, then normalised pairs
        // (which the d-DNNF part below uses as well)
        for round in 0..3u64 {
            for v in 0..nleaves {
                let x = crate::engine::splitmix(wbits ^ (round << 32) ^ v as u64);
                let (lo, hi) = match round {
                    0 => ([0.0, 0.5, 1.0, 2.0, 3.0][(x % 5) as usize], [0.0, 0.5, 1.0, 2.0, 3.0][((x >> 8) % 5) as usize]),
                    1 if x & 1 == 0 => continue,
                    1 => ([0.25, 1.0, 1.5][(x >> 4) as usize % 3], [0.75, 2.0, 0.5][(x >> 12) as usize % 3]),
                    _ => {
                        let k = ((v * 3 + 1) % 9) as f64 / 8.0;
                        (1.0 - k, k)
                    }
                };
                wmc_param_f64_set_weight(w, v as u64, lo, hi);
                nat.set_weight(VarLabel::new_usize(v), RealSemiring(lo), RealSemiring(hi));
            }
            let cw = sdd_wmc(sr, w);
            let nw = nsr.unsmoothed_wmc(&nat).0;
            ensure!(
                cw == nw,
                "C18/sdd-wmc",
                "sdd_wmc = {}, native unsmoothed count = {} (weight table #{}, vtree with {} leaves for a CNF over {} variables)",
                cw,
                nw,
                round,
                nleaves,
                nn
            );
        }
        st.flag("oneshot.vtree_wider_than_cnf", nleaves > nn);
        // ddnnf
        let db = ddnnf_builder_new(var_order_linear(nn) as *mut VarOrder);
        let dr = ddnnf_builder_compile_cnf_topdown(db, ccnf);
        let ndb = StandardDecisionNNFBuilder::new(VarOrder::linear_order(nn));
        let ndr = ndb.compile_cnf_topdown(&ncnf);
        ensure!(
            bdd_tt(*dr) == bdd_tt(ndr) && bdd_iso(*dr, ndr),
            "C18/ddnnf-compile",
            "ddnnf_builder_compile_cnf_topdown differs from the native compiler: {:?} vs {:?}",
            bdd_tt(*dr),
            bdd_tt(ndr)
        );
        let cwd = bdd_wmc(dr, w);
        ensure!(cwd == ndr.unsmoothed_wmc(&nat).0, "C18/ddnnf-wmc", "bdd_wmc on the d-DNNF: {} vs native {}", cwd, ndr.unsmoothed_wmc(&nat).0);
        free_wmc_params_f64(w);
        st.bump("oneshot_wrappers");
    }
    // a model count that does not fit in 20 bits: 21 or 22 manager variables, some of them added at run time
    if let Some(sl) = &case.big {
        let g = |i: usize| sl.get(i).copied().unwrap_or(3) as usize;
        let total = 21 + g(0) % 2;
        let declared = total - g(1) % 3;
        let bm = mk_bdd_manager_default_order(declared as u64);
        let bn = RobddBuilder::<AllIteTable<BddPtr>>::new(VarOrder::linear_order(declared));
        for _ in declared..total {
            let _ = bdd_new_var(bm, true);
            let _ = bn.new_var(true);
        }
        // f = (x_a & x_b) | !x_c | x_d   or   x_a ^ x_b : at least a quarter of all assignments are models
        let (a, b, c, d) = (g(2) % total, g(3) % total, g(4) % total, g(5) % total);
        let (cf, nf) = if g(0) % 3 == 0 {
            let cx = bdd_ite(bm, bdd_var(bm, a as u64, true), bdd_negate(bm, bdd_var(bm, b as u64, true)), bdd_var(bm, b as u64, true));
            (cx, bn.xor(bn.var(VarLabel::new_usize(a), true), bn.var(VarLabel::new_usize(b), true)))
        } else {
            let cx = bdd_or(
                bm,
                bdd_or(bm, bdd_and(bm, bdd_var(bm, a as u64, true), bdd_var(bm, b as u64, true)), bdd_var(bm, c as u64, false)),
                bdd_var(bm, d as u64, true),
            );
            let nx = bn.or(
                bn.or(bn.and(bn.var(VarLabel::new_usize(a), true), bn.var(VarLabel::new_usize(b), true)), bn.var(VarLabel::new_usize(c), false)),
                bn.var(VarLabel::new_usize(d), true),
            );
            (cx, nx)
        };
        ensure!(bdd_iso(*cf, nf), "C18/wrong-function:big-manager", "the C-side diagram on the {}-variable manager differs from the native one", total);
        let want = {
            let mut ones = WmcParams::<FiniteField<{ rsdd::constants::primes::U64_LARGEST }>>::default();
            for v in 0..bn.num_vars() {
                ones.set_weight(VarLabel::new_usize(v), FiniteField::new(1), FiniteField::new(1));
            }
            bn.smooth(nf, bn.num_vars()).unsmoothed_wmc(&ones).value() as u64
        };
        let got = robdd_model_count(bm, cf);
        ensure!(
            got == want,
            "C18/model-count",
            "robdd_model_count on a manager with {} variables ({} declared, {} added at run time) = {}, the native smooth-and-count gives {}",
            total,
            declared,
            total - declared,
            got,
            want
        );
        st.flag("model_count_above_2^20", want > (1 << 20));
        free_bdd_manager(bm);
    }
    rsdd::verif_hooks::set_unique_table_capacity(None);
    if binops >= 1 && counts >= 1 {
        st.mark_nontrivial();
    }
    Ok(())
}

fn selv() -> impl Strategy<Value = Vec<u8>> {
    proptest::collection::vec(any::<u8>(), 3..7)
}

impl SubCheckT for Abi {
    type Case = Case;
    const NAME: &'static str = "c_api";
    const RULE: &'static str = "histories of <=40 C-API calls on one manager (mk_bdd_manager_default_order or robdd_builder_all_table over var_order_new / var_order_linear; 0..6 declared variables, the rest added at run time): bdd_var, bdd_true/false, bdd_negate/and/or/ite/compose, bdd_new_var, bdd_new_label, interleaved with bdd_eq, bdd_count_nodes, robdd_model_count, bdd_wmc / _complex / _poly (weights — normalised or not — set and read back through the wmc_param_* / weight_* / polynomial_* calls, one polynomial weight of up to 32 coefficients, one with independent low/high lengths 0..40, short read-back buffers), handles from bdd_low / bdd_high used as operands, bdd_to_json, print_bdd (every text pointer handed out is read again before each later call and must not have changed), bdd_num_recursive_calls, bdd_scratch/set_scratch/clear_scratch, in lock step with a native RobddBuilder: the truth table read through bdd_is_true/false/topvar/low/high equals the one read off the native result, bdd_eq = native eq, topvar/low/high and whole results are isomorphic to the native ones, counts equal the native values exactly, model count = native smooth-and-count over the manager's current variables (differences between native results and the oracle are recorded only: they are other properties' concern); then the one-shot wrappers cnf_new/literal_new, cnf_from_dimacs, cnf_min_fill_order, dtree_from_cnf, vtree_from_dtree, robdd_builder_compile_cnf, sdd_builder_new/compile_cnf/sdd_wmc, ddnnf_builder_new/compile_cnf_topdown against their native counterparts. In about 1 % of the cases one more model count is taken on a manager with 21 or 22 variables (counts above 2^20). Non-trivial: >=1 binary/ternary op and >=1 count query";
    fn cases(tier: Tier) -> u32 {
        tier.pick(5000, 60_000)
    }
    fn strategy(_tier: Tier) -> BoxedStrategy<Case> {
        let i = || idx_strategy();
        let op = prop_oneof![
            3 => (any::<u8>(), any::<bool>()).prop_map(|(v, p)| COp::Var(v, p)),
            1 => any::<bool>().prop_map(COp::Const),
            2 => i().prop_map(COp::Negate),
            5 => (i(), i()).prop_map(|(a, b)| COp::And(a, b)),
            5 => (i(), i()).prop_map(|(a, b)| COp::Or(a, b)),
            4 => (i(), i(), i()).prop_map(|(a, b, c)| COp::Ite(a, b, c)),
            3 => (i(), any::<u8>(), i()).prop_map(|(a, v, g)| COp::Compose(a, v, g)),
            1 => any::<bool>().prop_map(COp::NewVar),
            1 => any::<bool>().prop_map(COp::NewLabelThenVar),
            2 => (i(), i()).prop_map(|(a, b)| COp::Eq(a, b)),
            1 => i().prop_map(COp::CountNodes),
            2 => i().prop_map(COp::ModelCount),
            2 => (i(), selv()).prop_map(|(a, s)| COp::WmcReal(a, s)),
            1 => (i(), selv()).prop_map(|(a, s)| COp::WmcComplex(a, s)),
            1 => (i(), selv()).prop_map(|(a, s)| COp::WmcPoly(a, s)),
            1 => i().prop_map(COp::Json),
            1 => i().prop_map(COp::Print),
            1 => (i(), any::<u16>()).prop_map(|(a, v)| COp::Scratch(a, v)),
            2 => (i(), any::<bool>()).prop_map(|(a, hi)| COp::Child(a, hi)),
        ];
        (
            prop_oneof![1 => Just(0u8), 14 => 1u8..=6],
            proptest::option::weighted(0.7, order_keys_strategy()),
            proptest::collection::vec(op, 0..=40),
            sat_cnf_strategy(),
            vtree_case_strategy(6, false),
            proptest::option::weighted(0.012, proptest::collection::vec(any::<u8>(), 6)),
        )
            .prop_map(|(n0, order_keys, ops, cnf, vt, big)| Case {
                n0,
                order_keys,
                ops,
                cnf,
                vt,
                big,
            })
            .boxed()
    }
    fn run(case: &Case, st: &mut Stats) -> CaseResult {
        run_case(case, st)
    }
}

// ---------------------------------------------------------------------------
// counts and accessors through the C ABI on diagrams of thousands of nodes
// ---------------------------------------------------------------------------

#[derive(Clone, Debug, Serialize, Deserialize)]
pub struct BigAbiCase {
    /// number of variables of a pseudo-random function built by if-then-else on both sides (a random function of 16
    /// variables has about 8000 nodes, many of them reached through regular and complemented edges)
    pub n: u8,
    pub seed: u64,
}

pub struct BigAbi;

pub fn run_big_abi(case: &BigAbiCase, st: &mut Stats) -> CaseResult {
    let n = (case.n as usize).clamp(8, 16);
    let bit = |a: usize| splitmix(case.seed ^ (a as u64 >> 6).wrapping_mul(0x9E37_79B9_7F4A_7C15)) >> (a & 63) & 1 == 1;
    unsafe {
        let mgr = mk_bdd_manager_default_order(n as u64);
        let nb = RobddBuilder::<AllIteTable<BddPtr>>::new(VarOrder::linear_order(n));
        // Shannon expansion from the deepest variable upwards, level by level, on both sides in lock step
        let mut layer_c: Vec<*mut CBdd> = (0..(1usize << n)).map(|a| if bit(a) { bdd_true(mgr) } else { bdd_false(mgr) }).collect();
        let mut layer_n: Vec<BddPtr> = (0..(1usize << n)).map(|a| if bit(a) { nb.true_ptr() } else { nb.false_ptr() }).collect();
        for v in (0..n).rev() {
            // index bit v is the value of variable v: entries are indexed by the values of variables 0..v after this step
            let half = 1usize << v;
            let xc = bdd_var(mgr, v as u64, true);
            let xn = nb.var(VarLabel::new_usize(v), true);
            let mut next_c = Vec::with_capacity(half);
            let mut next_n = Vec::with_capacity(half);
            for a in 0..half {
                next_c.push(bdd_ite(mgr, xc, layer_c[a | half], layer_c[a]));
                next_n.push(nb.ite(xn, layer_n[a | half], layer_n[a]));
            }
            layer_c = next_c;
            layer_n = next_n;
        }
        let (fc, fnat) = (layer_c[0], layer_n[0]);
        let nodes = fnat.count_nodes();
        ensure!(bdd_count_nodes(fc) == nodes, "C18/count-nodes", "bdd_count_nodes = {} but the native diagram built by the same calls has {} nodes", bdd_count_nodes(fc), nodes);
        // the C handle and the native pointer denote the same function (sampled) and have the same top variable
        for k in 0..64u64 {
            let a = crate::big::assignment(case.seed ^ 0xC18, k, n);
            ensure!(crate::big::bdd_eval(*fc, &a) == crate::big::bdd_eval(fnat, &a), "C18/function-differs-from-native", "a diagram of {} nodes built through bdd_var / bdd_ite differs from the native one on an assignment", nodes);
        }
        // real, complex and polynomial counts: weights are quarters (all partial sums are exact multiples of 2^-32)
        let q = |v: usize, salt: u64| (1 + splitmix(case.seed ^ salt ^ (v as u64) << 12) % 3) as f64 / 4.0;
        let wr = new_wmc_params_f64();
        let mut nr = WmcParams::<RealSemiring>::default();
        let wc = new_wmc_params_complex();
        let mut nc = WmcParams::<Complex>::default();
        let wp = new_wmc_params_poly();
        let mut np_ = WmcParams::<Polynomial<RealSemiring>>::default();
        for v in 0..n {
            let h = q(v, 0x11);
            wmc_param_f64_set_weight(wr, v as u64, 1.0 - h, h);
            nr.set_weight(VarLabel::new_usize(v), RealSemiring(1.0 - h), RealSemiring(h));
            let (re, im) = (q(v, 0x22), q(v, 0x33) - 0.5);
            let (lo, hi) = (Complex { re: 1.0 - re, im: -im }, Complex { re, im });
            wmc_param_complex_set_weight(wc, v as u64, lo, hi);
            nc.set_weight(VarLabel::new_usize(v), lo, hi);
            // low = 1 - h, high = h x  (degree = number of variables set to true, at most 16)
            let (plo, phi) = (vec![1.0 - h], vec![0.0, h]);
            wmc_param_poly_set_weight(wp, v as u64, plo.as_ptr(), plo.len(), phi.as_ptr(), phi.len());
            let mk = |c: &Vec<f64>| {
                let mut p = Polynomial::<RealSemiring>::zero();
                for (i, x) in c.iter().enumerate() {
                    p.coefficients[i] = RealSemiring(*x);
                }
                p.len = c.len();
                p
            };
            np_.set_weight(VarLabel::new_usize(v), mk(&plo), mk(&phi));
        }
        for round in 0..2 {
            let (c, nv) = (bdd_wmc(fc, wr), fnat.unsmoothed_wmc(&nr).0);
            ensure!(c == nv, "C18/wmc-real", "bdd_wmc on a diagram of {} nodes (call {}) = {} but the native unsmoothed_wmc = {}", nodes, round + 1, c, nv);
            let (c, nv) = (bdd_wmc_complex(fc, wc), fnat.unsmoothed_wmc(&nc));
            ensure!(c.re == nv.re && c.im == nv.im, "C18/wmc-complex", "bdd_wmc_complex on a diagram of {} nodes = {:?} but the native unsmoothed_wmc = {:?}", nodes, c, nv);
            let cpoly = bdd_wmc_poly(fc, wp);
            let npoly = fnat.unsmoothed_wmc(&np_);
            let mut buf = [0f64; 40];
            let kl = polynomial_get_coeffs(cpoly, buf.as_mut_ptr(), 40);
            let same = (0..32).all(|j| (if j < kl { buf[j] } else { 0.0 }) == npoly.coefficients[j].0);
            ensure!(same, "C18/wmc-poly", "bdd_wmc_poly on a diagram of {} nodes has coefficients {:?} but the native count has {:?}", nodes, &buf[..kl.min(40)], npoly.coefficients.iter().map(|x| x.0).collect::<Vec<_>>());
            destroy_polynomial(cpoly);
        }
        // children through the accessors: the high child of the root on both sides has the same count
        if !fnat.is_const() {
            let (hc, hn) = (bdd_high(fc), fnat.high());
            let (c, nv) = (bdd_wmc(hc, wr), hn.unsmoothed_wmc(&nr).0);
            ensure!(c == nv, "C18/wmc-real", "bdd_wmc on the high child of a diagram of {} nodes = {} but natively {}", nodes, c, nv);
        }
        free_wmc_params_f64(wr);
        free_wmc_params_complex(wc);
        destroy_wmc_params_poly(wp);
        free_bdd_manager(mgr);
        st.flag(
            match nodes {
                0..=1023 => "big.nodes.lt1024",
                1024..=4095 => "big.nodes.1024-4095",
                _ => "big.nodes.ge4096",
            },
            true,
        );
        if nodes >= 1024 {
            st.mark_nontrivial();
        }
    }
    Ok(())
}

impl SubCheckT for BigAbi {
    type Case = BigAbiCase;
    const NAME: &'static str = "c_api_large_diagrams";
    const RULE: &'static str = "a pseudo-random function of 10..16 variables built by Shannon expansion through bdd_var / bdd_ite on a C manager and, call for call, natively (up to about 8000 nodes, shared in both polarities): bdd_count_nodes, the function on sampled assignments (C handle read by the harness's walk), bdd_wmc / bdd_wmc_complex / bdd_wmc_poly (twice each; weights in quarters so that every partial sum is exact) and the count of the root's high child equal the native values. Non-trivial: >= 1024 nodes";
    fn cases(tier: Tier) -> u32 {
        tier.pick(12, 200)
    }
    fn strategy(_tier: Tier) -> BoxedStrategy<BigAbiCase> {
        (prop_oneof![1 => 10u8..=13, 2 => 14u8..=15, 3 => Just(16u8)], any::<u64>()).prop_map(|(n, seed)| BigAbiCase { n, seed }).boxed()
    }
    fn run(case: &BigAbiCase, st: &mut Stats) -> CaseResult {
        run_big_abi(case, st)
    }
}

pub fn property() -> Property {
    Property {
        id: "C18",
        subs: vec![sub::<Abi>(), sub::<BigAbi>()],
        fuzz: vec![],
        assumptions: vec![
            "the exported symbols are linked from the rlib (feature ffi) and called through extern \"C\" declarations mirroring the signatures in src/ffi; handles are never freed twice; leaked result boxes are ignored",
            "bdd_topvar of a constant is 0 (the library's documented TODO), so topvar is compared with the native var_safe() mapped the same way",
            "call histories on managers of <= 8 variables (one model count in a hundred on 21/22 variables); sub-check c_api_large_diagrams: one function of 10..16 variables per case",
        ],
        nt_floor_percent: 15,
    }
}
