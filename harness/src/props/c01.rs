//! C01 — BDD operations compute exactly the Boolean function they name.
use crate::bddi::*;
use crate::engine::*;
use crate::tt::Tt;
use crate::walk::*;
use proptest::prelude::*;
use rsdd::builder::bdd::RobddBuilder;
use rsdd::builder::cache::IteTable;
use rsdd::builder::BottomUpBuilder;
use rsdd::repr::BddPtr;
use serde::{Deserialize, Serialize};
use std::collections::{BTreeSet, HashMap};

#[derive(Clone, Debug, Serialize, Deserialize)]
pub struct Case {
    pub cfg: BddCfg,
    pub ops: Vec<BOp>,
    pub checkpoints: Vec<u16>,
}

pub struct Hist;

fn recheck<'a>(pool: &[(BddPtr<'a>, Tt)], when: &str) -> CaseResult {
    let mut memo = HashMap::new();
    for (i, (p, t)) in pool.iter().enumerate() {
        let got = bdd_tt_m(*p, &mut memo);
        ensure!(
            got == *t,
            "C01/function-changed-later",
            "pool entry {} no longer denotes its function {}: expected {:?}, diagram now reads {:?} ({})",
            i,
            when,
            t,
            got,
            p.to_string_debug()
        );
    }
    Ok(())
}

fn go<'a, T: IteTable<'a, BddPtr<'a>> + Default>(
    b: &'a RobddBuilder<'a, T>,
    case: &Case,
    st: &mut Stats,
) -> CaseResult {
    let lru0 = rsdd::verif_hooks::lru_overwrites();
    let grow0 = rsdd::verif_hooks::table_grows();
    let mut run = BddRun::new_embedded(b, case.cfg.labels());
    let cps: BTreeSet<usize> = if case.ops.is_empty() {
        BTreeSet::new()
    } else {
        case.checkpoints.iter().map(|c| pick(*c, case.ops.len())).collect()
    };
    let mut interesting = 0usize;
    for (i, op) in case.ops.iter().enumerate() {
        let stepped = run.step(op);
        if let Some(msg) = run.label_fault.take() {
            return fail("C01/run-time-variable-not-fresh", format!("op #{}: {}", i, msg));
        }
        if let Some((what, msg)) = run.sibling_fault.take() {
            return fail(&format!("C01/wrong-function:siblings:{}", what), format!("op #{} {:?}: {}", i, op, msg));
        }
        match stepped {
            None => st.bump("op_not_applicable"),
            Some(out) => {
                st.bump(&format!("op.{}", out.kind));
                let (p, t) = run.pool[out.idx];
                let got = bdd_tt(p);
                if let Some(l) = take_foreign_label() {
                    return fail(
                        &format!("C01/wrong-function:{}", out.kind),
                        format!("op #{} {:?} on args {:?}: the returned diagram tests builder variable {}, which none of the operands mentions ({})", i, op, out.args, l, p.to_string_debug()),
                    );
                }
                ensure!(
                    got == t,
                    format!("C01/wrong-function:{}", out.kind),
                    "op #{} {:?} on args {:?}: expected {:?}, returned diagram denotes {:?} ({})",
                    i,
                    op,
                    out.args,
                    t,
                    got,
                    p.to_string_debug()
                );
                // what the generator reaches: size of every result, and of the operands of the cofactor-style ops
                let bucket = |n: usize| match n {
                    0..=4 => "0_4",
                    5..=16 => "5_16",
                    17..=64 => "17_64",
                    _ => "above_64",
                };
                st.bump(&format!("result_nodes.{}", bucket(bdd_nodes(p).len())));
                if matches!(out.kind, "cond" | "cond_model" | "exists" | "compose" | "ite" | "and" | "xor") {
                    let big = out.args.iter().map(|a| bdd_nodes(run.pool[*a].0).len()).max().unwrap_or(0);
                    st.bump(&format!("largest_operand_nodes.{}.{}", out.kind, bucket(big)));
                }
                if out.args.len() >= 2 || matches!(out.kind, "cond" | "cond_model" | "exists" | "compose") {
                    let nonlit = out.args.iter().filter(|a| !is_literal_or_const(run.pool[**a].0)).count();
                    if nonlit >= 1 && !t.is_const() && t.support_size() >= 2 {
                        interesting += 1;
                    }
                    if out.args.iter().any(|a| bdd_is_compl(run.pool[*a].0)) {
                        st.bump("compl_arg_ops");
                    }
                }
            }
        }
        if cps.contains(&i) {
            recheck(&run.pool, &format!("at checkpoint after op #{}", i))?;
            st.bump("checkpoints");
        }
    }
    recheck(&run.pool, "at the end of the history")?;
    let lru = rsdd::verif_hooks::lru_overwrites() - lru0;
    let grows = rsdd::verif_hooks::table_grows() - grow0;
    st.add("lru_overwrites", lru);
    st.add("table_grows", grows);
    st.flag("case.lru_overwrote", lru > 0);
    st.flag("case.table_grew", grows > 0);
    st.flag("case.nonlinear_order", !case.cfg.is_linear());
    st.flag("case.embedded_in_a_larger_builder", case.cfg.embed.is_some());
    st.flag("case.embedded_beyond_64_variables", case.cfg.embed.map(|e| e.0 > 64).unwrap_or(false));
    st.flag("case.lru_cache", case.cfg.cache != 0);
    st.flag("case.all_cache", case.cfg.cache == 0);
    st.flag("case.default_table", case.cfg.table_cap.is_none());
    st.flag("case.new_var_used", run.new_vars > 0);
    if interesting >= 3 {
        st.mark_nontrivial();
    }
    Ok(())
}

impl SubCheckT for Hist {
    type Case = Case;
    const NAME: &'static str = "history";
    const RULE: &'static str = "random builder configuration (n0<=8 initial variables, occasionally none, up to 8 in total through new_var; in a fifth of the cases embedded in a builder with 9..200 variables under a pseudo-random order, the history's variables scattered among them and partial models assigning the others too, random order permutation, AllIteTable / LruIteTable default / LruIteTable with 1..16 or 32..256 slots, unique table default or 1..64 slots) and <=60 (thorough: <=100) operations over a growing pool, three histories in ten starting from one or two dense random functions (truth table drawn as a whole, several dozen nodes); every result's truth table (read by walking var/low/high) is compared with the oracle, and the whole pool is re-read at 3 checkpoints and at the end. Non-trivial: >=3 results that are non-constant, depend on >=2 variables and come from a binary/ternary/cofactor-style op with at least one non-literal argument; distinct = distinct (configuration, history)";
    fn cases(tier: Tier) -> u32 {
        tier.pick(20_000, 200_000)
    }
    fn strategy(tier: Tier) -> BoxedStrategy<Case> {
        (
            cfg_strategy(8),
            // now and then: a builder that starts without any variable (all variables added at run time), and
            // lossy caches of 32..256 slots, which grow several times within one history
            prop_oneof![30 => Just(None), 1 => Just(Some(0u8))],
            prop_oneof![8 => Just(None), 1 => (7u8..=10).prop_map(Some)],
            // a fifth of the histories run inside a builder with 9..200 variables in a pseudo-random order, the
            // history's own variables scattered among them
            prop_oneof![4 => Just(None), 1 => (prop_oneof![9u8..=40, 41u8..=200], any::<u64>()).prop_map(Some)],
            ops_strategy(tier.pick(60, 100)),
            proptest::collection::vec(any::<u16>(), 3),
        )
            .prop_map(|(mut cfg, n0, cache, embed, ops, checkpoints)| {
                cfg.embed = embed;
                if let Some(z) = n0 {
                    cfg.n0 = z;
                }
                if let Some(c) = cache {
                    cfg.cache = c;
                }
                Case { cfg, ops, checkpoints }
            })
            .boxed()
    }
    fn run(case: &Case, st: &mut Stats) -> CaseResult {
        with_bdd_builder!(&case.cfg, go(case, st))
    }
}

// ---------------------------------------------------------------------------
// histories over more variables than the truth-table oracle holds
// ---------------------------------------------------------------------------

pub struct BigHist;

struct BddOps<'a, T: IteTable<'a, BddPtr<'a>> + Default>(&'a RobddBuilder<'a, T>);

impl<'a, T: IteTable<'a, BddPtr<'a>> + Default> crate::bighist::BigOps<BddPtr<'a>> for BddOps<'a, T> {
    fn lit(&self, v: usize, p: bool) -> BddPtr<'a> {
        self.0.var(rsdd::repr::VarLabel::new_usize(v), p)
    }
    fn not(&self, a: BddPtr<'a>) -> BddPtr<'a> {
        self.0.negate(a)
    }
    fn and(&self, a: BddPtr<'a>, b: BddPtr<'a>) -> BddPtr<'a> {
        self.0.and(a, b)
    }
    fn or(&self, a: BddPtr<'a>, b: BddPtr<'a>) -> BddPtr<'a> {
        self.0.or(a, b)
    }
    fn xor(&self, a: BddPtr<'a>, b: BddPtr<'a>) -> BddPtr<'a> {
        self.0.xor(a, b)
    }
    fn iff(&self, a: BddPtr<'a>, b: BddPtr<'a>) -> BddPtr<'a> {
        self.0.iff(a, b)
    }
    fn ite(&self, a: BddPtr<'a>, b: BddPtr<'a>, c: BddPtr<'a>) -> BddPtr<'a> {
        self.0.ite(a, b, c)
    }
    fn cond(&self, a: BddPtr<'a>, v: usize, val: bool) -> BddPtr<'a> {
        self.0.condition(a, rsdd::repr::VarLabel::new_usize(v), val)
    }
    fn exists(&self, a: BddPtr<'a>, v: usize) -> BddPtr<'a> {
        self.0.exists(a, rsdd::repr::VarLabel::new_usize(v))
    }
    fn compose(&self, a: BddPtr<'a>, v: usize, g: BddPtr<'a>) -> BddPtr<'a> {
        self.0.compose(a, rsdd::repr::VarLabel::new_usize(v), g)
    }
    fn eval(&self, a: BddPtr<'a>, asg: &[bool]) -> bool {
        crate::big::bdd_eval(a, asg)
    }
    fn size(&self, a: BddPtr<'a>) -> usize {
        bdd_nodes(a).len()
    }
}

pub fn run_big_hist(case: &crate::bighist::BigHistCase, st: &mut Stats) -> CaseResult {
    let n = (case.nv as usize).clamp(10, 18);
    let order: Vec<rsdd::repr::VarLabel> = crate::big::permutation(case.seed, n).into_iter().map(rsdd::repr::VarLabel::new_usize).collect();
    rsdd::verif_hooks::set_unique_table_capacity(case.table_cap.map(|c| c as usize));
    if case.shape == 0 {
        let b = RobddBuilder::<rsdd::builder::cache::AllIteTable<BddPtr>>::new(rsdd::repr::VarOrder::new(&order));
        rsdd::verif_hooks::set_unique_table_capacity(None);
        let _ = b.true_ptr();
        crate::bighist::run_big_hist(&BddOps(&b), case, n, "C01", true, st)
    } else {
        let b = RobddBuilder::<rsdd::builder::cache::LruIteTable<BddPtr>>::new(rsdd::repr::VarOrder::new(&order));
        rsdd::verif_hooks::set_unique_table_capacity(None);
        let _ = b.true_ptr();
        crate::bighist::run_big_hist(&BddOps(&b), case, n, "C01", true, st)
    }
}

impl SubCheckT for BigHist {
    type Case = crate::bighist::BigHistCase;
    const NAME: &'static str = "histories_on_many_variables";
    const RULE: &'static str = "builder over 10..18 variables (pseudo-random order, either cache, unique table default or 1..64 slots); a pool grown from parity-like seeds by 8..40 operations (and, or, xor, iff, ite, not, condition, and up to five exists / compose), every entry paired with a node of an expression DAG that records how it was made; after every operation, and for the whole pool at the end, the diagram read by the harness's own walk and the harness's evaluation of the DAG agree on 20 sampled assignments (compose evaluated as exists v. (v <=> g) & f). Non-trivial: a diagram of more than 64 nodes took part";
    fn cases(tier: Tier) -> u32 {
        tier.pick(1200, 30_000)
    }
    fn strategy(_tier: Tier) -> BoxedStrategy<crate::bighist::BigHistCase> {
        crate::bighist::big_hist_strategy(18, 40)
    }
    fn run(case: &crate::bighist::BigHistCase, st: &mut Stats) -> CaseResult {
        run_big_hist(case, st)
    }
}

pub fn property() -> Property {
    Property {
        id: "C01",
        subs: vec![sub::<Hist>(), sub::<BigHist>()],
        fuzz: vec![FuzzSpec { target: "bdd_ops", runs: 60000, max_len: 400 }],
        assumptions: vec![
            "truth tables over <= 8 variables, histories of <= 60 operations; sub-check histories_on_many_variables: 10..18 variables, oracle = the harness's evaluation of the recorded operations on sampled assignments",
            "the walker reads BddPtr/BddNode public fields; the oracle is a 256-bit truth table written from the operation definitions (compose = exists v. (v<=>g) & f as documented)",
        ],
        nt_floor_percent: 20,
    }
}
