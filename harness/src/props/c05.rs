//! C05 — bottom-up compilation of CNFs, expressions and plans is exact.
use crate::bddi::*;
use crate::cnfgen::*;
use crate::engine::*;
use crate::exprgen::*;
use crate::tt::Tt;
use crate::vtgen::*;
use crate::walk::*;
use proptest::prelude::*;
use rsdd::builder::bdd::{BddBuilder, RobddBuilder};
use rsdd::builder::cache::IteTable;
use rsdd::builder::sdd::CompressionSddBuilder;
use rsdd::builder::sdd::SddBuilder;
use rsdd::builder::BottomUpBuilder;
use rsdd::plan::BottomUpPlan;
use rsdd::repr::{BddPtr, Cnf, DTree, PartialModel, VTree, VarLabel, VarOrder};
use serde::{Deserialize, Serialize};

// ---------------------------------------------------------------------------
// CNF
// ---------------------------------------------------------------------------

#[derive(Clone, Debug, Serialize, Deserialize)]
pub struct CnfCompileCase {
    pub cnf: CnfCase,
    pub cfg: BddCfg,
    pub partial: Vec<Option<bool>>,
    pub vt: VtreeCase,
    pub compress: bool,
    /// elimination order for the dtree route: 0 linear 1 min-fill 2 FORCE 3 random
    pub elim: u8,
}

pub struct CnfCompile;

fn bdd_part<'a, T: IteTable<'a, BddPtr<'a>> + Default>(
    b: &'a RobddBuilder<'a, T>,
    case: &CnfCompileCase,
    cnf: &Cnf,
    expect: Tt,
    st: &mut Stats,
) -> CaseResult {
    let n = cnf.num_vars();
    let r = b.compile_cnf(cnf);
    let got = bdd_tt(r);
    ensure!(
        got == expect,
        "C05/cnf-bdd-wrong-function",
        "compile_cnf (BDD, order {:?}) denotes {:?}, the CNF {:?} denotes {:?}",
        case.cfg.order(),
        got,
        case.cnf.clauses,
        expect
    );
    let m: Vec<Option<bool>> = (0..n).map(|i| case.partial.get(i).copied().flatten()).collect();
    let pm = PartialModel::from_assignments(&m);
    let under = b.compile_cnf_with_assignments(cnf, &pm);
    let cond = b.condition_model(r, &pm);
    let mut want = expect;
    for (v, x) in m.iter().enumerate() {
        if let Some(val) = x {
            want = want.cofactor(v, *val);
        }
    }
    let got_u = bdd_tt(under);
    ensure!(
        got_u == want,
        "C05/compile-under-assignment-wrong-function",
        "compile_cnf_with_assignments({:?}) denotes {:?}, the iterated cofactor is {:?} (CNF {:?})",
        m,
        got_u,
        want,
        case.cnf.clauses
    );
    ensure!(
        under == cond,
        "C05/compile-under-assignment-differs-from-compile-then-condition",
        "compiling under {:?} gives {:?} but compiling and then conditioning gives {:?} (CNF {:?})",
        m,
        under.to_string_debug(),
        cond.to_string_debug(),
        case.cnf.clauses
    );
    st.flag("cnf.partial_nonempty", m.iter().any(|x| x.is_some()));
    // the dtree plan on this builder too (its order is unrelated to the elimination order, either cache,
    // small unique table)
    if !case.cnf.clauses.is_empty() {
        let dt = DTree::from_cnf(cnf, &cnf.min_fill_order());
        let plan = BottomUpPlan::from_dtree(&dt);
        let pr = b.compile_plan(&plan);
        ensure!(
            bdd_tt(pr) == expect,
            "C05/dtree-plan-bdd-wrong-function",
            "compile_plan(from_dtree, min-fill) on the BDD builder with order {:?} denotes {:?}, the CNF {:?} denotes {:?}",
            case.cfg.order(),
            bdd_tt(pr),
            case.cnf.clauses,
            expect
        );
        st.flag("plan_and_cnf_routes_gave_different_nodes(C02's concern)", pr != r);
    }
    Ok(())
}

pub fn run_cnf_compile(case: &CnfCompileCase, st: &mut Stats) -> CaseResult {
    let cnf = case.cnf.to_rsdd();
    let n = cnf.num_vars();
    // the input is the clause list the user wrote: the property names clauses with repeated or complementary
    // literals, empty clauses and the empty formula explicitly, so what Cnf::new makes of them is part of it
    let seen = CnfCase::read_back(&cnf);
    st.flag("cnf_object_differs_from_generating_list", seen.tt() != case.cnf.tt() || n != case.cnf.num_vars());
    let expect = case.cnf.tt();
    // BDD builder over exactly the CNF's variables
    let mut cfg = case.cfg.clone();
    cfg.n0 = n as u8;
    let case2 = CnfCompileCase { cfg: cfg.clone(), ..case.clone() };
    with_bdd_builder!(&cfg, bdd_part(&case2, &cnf, expect, st))?;

    // SDD builder: random vtree over max(n,1) variables
    let k = n.max(1);
    let mut vt = case.vt.clone();
    vt.k = k as u8;
    vt.stride = 1;
    vt.offset = 0;
    rsdd::verif_hooks::set_unique_table_capacity(case.cfg.table_cap.map(|c| c as usize));
    let mut sb = CompressionSddBuilder::new(vt.to_vtree());
    rsdd::verif_hooks::set_unique_table_capacity(None);
    // without compression SDDs (and the library's structural node comparison) blow up exponentially:
    // keep that mode to small inputs so that a case never takes minutes (time is not a correctness signal)
    let compress = case.compress || n > 4 || case.cnf.clauses.len() > 6;
    st.flag("cnf.sdd_uncompressed", !compress);
    sb.set_compression(compress);
    let sr = sb.compile_cnf(&cnf);
    let got = sdd_tt(sr);
    ensure!(
        got == expect,
        "C05/cnf-sdd-wrong-function",
        "compile_cnf (SDD, vtree {:?}, compression {}) denotes {:?}, the CNF {:?} denotes {:?}",
        vt.shape(),
        compress,
        got,
        case.cnf.clauses,
        expect
    );
    // dtree route: derived vtree (when it exists) and the dtree plan
    if !case.cnf.clauses.is_empty() {
        let order = match case.elim % 4 {
            0 => cnf.linear_order(),
            1 => cnf.min_fill_order(),
            2 if !case.cnf.has_empty_clause() => cnf.force_order(),
            2 => cnf.linear_order(),
            _ => VarOrder::new(&perm_from_keys(&case.cfg.order_keys, n).iter().map(|v| VarLabel::new_usize(*v)).collect::<Vec<_>>()),
        };
        let dt = DTree::from_cnf(&cnf, &order);
        if let Some(dv) = VTree::from_dtree(&dt) {
            let db = CompressionSddBuilder::new(dv);
            let dr = db.compile_cnf(&cnf);
            let got = sdd_tt(dr);
            ensure!(
                got == expect,
                "C05/cnf-sdd-dtree-vtree-wrong-function",
                "compile_cnf on the SDD builder with the dtree-derived vtree denotes {:?}, the CNF {:?} denotes {:?}",
                got,
                case.cnf.clauses,
                expect
            );
            st.bump("cnf.dtree_vtree");
            let dpr = db.compile_plan(&BottomUpPlan::from_dtree(&dt));
            ensure!(
                sdd_tt(dpr) == expect,
                "C05/dtree-plan-sdd-wrong-function",
                "compile_plan(from_dtree) on the SDD builder over the dtree-derived vtree denotes {:?}, the CNF {:?} denotes {:?}",
                sdd_tt(dpr),
                case.cnf.clauses,
                expect
            );
        }
        let plan = BottomUpPlan::from_dtree(&dt);
        ensure!(
            plan_tt(&plan) == expect,
            "C05/dtree-plan-denotes-other-function",
            "the plan derived from the dtree evaluates to {:?}, the CNF {:?} denotes {:?}",
            plan_tt(&plan),
            case.cnf.clauses,
            expect
        );
        let pb = RobddBuilder::<rsdd::builder::cache::AllIteTable<BddPtr>>::new(order.clone());
        let pr = pb.compile_plan(&plan);
        ensure!(
            bdd_tt(pr) == expect,
            "C05/dtree-plan-bdd-wrong-function",
            "compile_plan(from_dtree) on the BDD builder denotes {:?}, the CNF {:?} denotes {:?}",
            bdd_tt(pr),
            case.cnf.clauses,
            expect
        );
        let psr = sb.compile_plan(&plan);
        ensure!(
            sdd_tt(psr) == expect,
            "C05/dtree-plan-sdd-wrong-function",
            "compile_plan(from_dtree) on the SDD builder denotes {:?}, the CNF {:?} denotes {:?}",
            sdd_tt(psr),
            case.cnf.clauses,
            expect
        );
    }
    st.flag("cnf.no_clauses", case.cnf.clauses.is_empty());
    st.flag("cnf.empty_clause", case.cnf.has_empty_clause());
    st.flag("cnf.unit_clause", case.cnf.clauses.iter().any(|c| c.len() == 1));
    st.flag("cnf.tautological_clause", case.cnf.clauses.iter().any(|c| is_tautology(c)));
    st.flag("cnf.unused_index", case.cnf.mentioned_vars().len() < n);
    if case.cnf.clauses.iter().filter(|c| c.len() >= 2).count() >= 2 && !expect.is_const() {
        st.mark_nontrivial();
    }
    Ok(())
}

impl SubCheckT for CnfCompile {
    type Case = CnfCompileCase;
    const NAME: &'static str = "cnf";
    const RULE: &'static str = "random CNF (all edge cases) compiled by the BDD builder under a random order and either cache, by the SDD builder under a random vtree (compression on/off) and under the dtree-derived vtree, and through BottomUpPlan::from_dtree on both builders: walked truth table = the harness's CNF truth table; compile_cnf_with_assignments(cnf, m) is pointer-equal to condition_model(compile_cnf(cnf), m) and denotes the iterated cofactor. Non-trivial: >=2 clauses with >=2 literals and a non-constant result";
    fn cases(tier: Tier) -> u32 {
        tier.pick(8000, 120_000)
    }
    fn strategy(_tier: Tier) -> BoxedStrategy<CnfCompileCase> {
        (
            cnf_strategy(),
            cfg_strategy(7),
            proptest::collection::vec(proptest::option::weighted(0.3, any::<bool>()), 8),
            vtree_case_strategy(7, false),
            any::<bool>(),
            0u8..4,
        )
            .prop_map(|(cnf, cfg, partial, vt, compress, elim)| CnfCompileCase {
                cnf,
                cfg,
                partial,
                vt,
                compress,
                elim,
            })
            .boxed()
    }
    fn run(case: &CnfCompileCase, st: &mut Stats) -> CaseResult {
        run_cnf_compile(case, st)
    }
}

// ---------------------------------------------------------------------------
// expressions and plans
// ---------------------------------------------------------------------------

#[derive(Clone, Debug, Serialize, Deserialize)]
pub struct ExprCase {
    pub nv: u8,
    pub ex: Ex,
    pub pl: Pl,
    pub cfg: BddCfg,
    pub vt: VtreeCase,
    pub compress: bool,
}

pub struct Expr;

fn expr_bdd<'a, T: IteTable<'a, BddPtr<'a>> + Default>(b: &'a RobddBuilder<'a, T>, case: &ExprCase) -> CaseResult {
    let le = case.ex.to_logical();
    let r = b.compile_logical_expr(&le);
    ensure!(
        bdd_tt(r) == case.ex.tt(),
        "C05/expr-bdd-wrong-function",
        "compile_logical_expr (BDD) denotes {:?}, the expression {:?} denotes {:?}",
        bdd_tt(r),
        case.ex,
        case.ex.tt()
    );
    let p = case.pl.to_plan();
    let r = b.compile_plan(&p);
    ensure!(
        bdd_tt(r) == case.pl.tt(),
        "C05/plan-bdd-wrong-function",
        "compile_plan (BDD) denotes {:?}, the plan {:?} denotes {:?}",
        bdd_tt(r),
        case.pl,
        case.pl.tt()
    );
    Ok(())
}

pub fn run_expr(case: &ExprCase, st: &mut Stats) -> CaseResult {
    let nv = case.nv.max(1);
    let mut cfg = case.cfg.clone();
    cfg.n0 = nv;
    with_bdd_builder!(&cfg, expr_bdd(case))?;
    let mut vt = case.vt.clone();
    vt.k = nv;
    vt.stride = 1;
    vt.offset = 0;
    let mut sb = CompressionSddBuilder::new(vt.to_vtree());
    let compress = case.compress || nv > 4 || case.ex.connectives() > 8;
    st.flag("expr.sdd_uncompressed", !compress);
    sb.set_compression(compress);
    let r = sb.compile_logical_expr(&case.ex.to_logical());
    ensure!(
        sdd_tt(r) == case.ex.tt(),
        "C05/expr-sdd-wrong-function",
        "compile_logical_expr (SDD, vtree {:?}) denotes {:?}, the expression {:?} denotes {:?}",
        vt.shape(),
        sdd_tt(r),
        case.ex,
        case.ex.tt()
    );
    let r = sb.compile_plan(&case.pl.to_plan());
    ensure!(
        sdd_tt(r) == case.pl.tt(),
        "C05/plan-sdd-wrong-function",
        "compile_plan (SDD, vtree {:?}) denotes {:?}, the plan {:?} denotes {:?}",
        vt.shape(),
        sdd_tt(r),
        case.pl,
        case.pl.tt()
    );
    st.flag("expr.constant", case.ex.tt().is_const());
    if case.ex.connectives() >= 3 && !case.ex.tt().is_const() && case.ex.tt().support_size() >= 2 {
        st.mark_nontrivial();
    }
    Ok(())
}

impl SubCheckT for Expr {
    type Case = ExprCase;
    const NAME: &'static str = "expr_plan";
    const RULE: &'static str = "random logical expressions (depth <= 5, all seven constructors) and random plans (all eight constructors incl. constants) over 1..6 variables compiled with the BDD builder (random order, either cache) and the SDD builder (random vtree, compression on/off): walked truth table = the harness's evaluator. Non-trivial: >=3 connectives and a non-constant result over >=2 variables";
    fn cases(tier: Tier) -> u32 {
        tier.pick(8000, 120_000)
    }
    fn strategy(_tier: Tier) -> BoxedStrategy<ExprCase> {
        (1u8..=6)
            .prop_flat_map(|nv| {
                (
                    Just(nv),
                    ex_strategy(nv, 5),
                    pl_strategy(nv, 4),
                    cfg_strategy(6),
                    vtree_case_strategy(6, false),
                    any::<bool>(),
                )
            })
            .prop_map(|(nv, ex, pl, cfg, vt, compress)| ExprCase {
                nv,
                ex,
                pl,
                cfg,
                vt,
                compress,
            })
            .boxed()
    }
    fn run(case: &ExprCase, st: &mut Stats) -> CaseResult {
        run_expr(case, st)
    }
}

pub fn property() -> Property {
    Property {
        id: "C05",
        subs: vec![sub::<CnfCompile>(), sub::<Expr>()],
        fuzz: vec![],
        assumptions: vec![
            "CNFs over <= 7 variables, expressions over <= 6 variables and depth <= 5",
            "the SDD builder's vtree covers every variable of the input (labels 0..n-1, or the dtree-derived vtree which holds exactly the mentioned variables)",
            "CNFs without clauses are not sent through DTree::from_cnf (the library asserts a dtree needs a leaf); FORCE is not used on CNFs with an empty clause",
        ],
        nt_floor_percent: 15,
    }
}
