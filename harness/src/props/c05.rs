//! C05 — bottom-up compilation of CNFs, expressions and plans is exact.
use crate::bddi::*;
use crate::cnfgen::*;
use crate::engine::*;
use crate::exprgen::*;
use crate::tt::Tt;
use crate::vtgen::*;
use crate::walk::*;
use proptest::prelude::*;
use rsdd::builder::bdd::{BddBuilder, RobddBuilder};
use rsdd::builder::cache::IteTable;
use rsdd::builder::sdd::CompressionSddBuilder;
use rsdd::builder::sdd::SddBuilder;
use rsdd::builder::BottomUpBuilder;
use rsdd::plan::BottomUpPlan;
use rsdd::repr::{BddPtr, Cnf, DTree, PartialModel, VTree, VarLabel, VarOrder};
use serde::{Deserialize, Serialize};

// ---------------------------------------------------------------------------
// CNF
// ---------------------------------------------------------------------------

#[derive(Clone, Debug, Serialize, Deserialize)]
pub struct CnfCompileCase {
    pub cnf: CnfCase,
    pub cfg: BddCfg,
    pub partial: Vec<Option<bool>>,
    pub vt: VtreeCase,
    pub compress: bool,
    /// elimination order for the dtree route: 0 linear 1 min-fill 2 FORCE 3 random
    pub elim: u8,
}

pub struct CnfCompile;

fn bdd_part<'a, T: IteTable<'a, BddPtr<'a>> + Default>(
    b: &'a RobddBuilder<'a, T>,
    case: &CnfCompileCase,
    cnf: &Cnf,
    expect: Tt,
    st: &mut Stats,
) -> CaseResult {
    let n = cnf.num_vars();
    let r = b.compile_cnf(cnf);
    let got = bdd_tt(r);
    ensure!(
        got == expect,
        "C05/cnf-bdd-wrong-function",
        "compile_cnf (BDD, order {:?}) denotes {:?}, the CNF {:?} denotes {:?}",
        case.cfg.order(),
        got,
        case.cnf.clauses,
        expect
    );
    let m: Vec<Option<bool>> = (0..n).map(|i| case.partial.get(i).copied().flatten()).collect();
    let pm = PartialModel::from_assignments(&m);
    let under = b.compile_cnf_with_assignments(cnf, &pm);
    let cond = b.condition_model(r, &pm);
    let mut want = expect;
    for (v, x) in m.iter().enumerate() {
        if let Some(val) = x {
            want = want.cofactor(v, *val);
        }
    }
    let got_u = bdd_tt(under);
    ensure!(
        got_u == want,
        "C05/compile-under-assignment-wrong-function",
        "compile_cnf_with_assignments({:?}) denotes {:?}, the iterated cofactor is {:?} (CNF {:?})",
        m,
        got_u,
        want,
        case.cnf.clauses
    );
    ensure!(
        under == cond,
        "C05/compile-under-assignment-differs-from-compile-then-condition",
        "compiling under {:?} gives {:?} but compiling and then conditioning gives {:?} (CNF {:?})",
        m,
        under.to_string_debug(),
        cond.to_string_debug(),
        case.cnf.clauses
    );
    st.flag("cnf.partial_nonempty", m.iter().any(|x| x.is_some()));
    // further formulas on the same builder: the clauses behind a contradicting pair of unit clauses (unsatisfiable, and
    // found to be so before the last clause is conjoined), every second clause, and the first formula once more
    if n >= 1 {
        let mut unsat = vec![vec![(0u8, true)], vec![(0u8, false)]];
        unsat.extend(case.cnf.clauses.iter().cloned());
        let subset: Vec<Vec<Lit>> = case.cnf.clauses.iter().step_by(2).cloned().collect();
        for (what, cl) in [("a contradicting pair of unit clauses followed by the same clauses", unsat), ("every second clause", subset), ("the first formula again", case.cnf.clauses.clone())] {
            let c2 = CnfCase { clauses: cl };
            let got = bdd_tt(b.compile_cnf(&c2.to_rsdd()));
            ensure!(
                got == c2.tt(),
                "C05/cnf-bdd-wrong-function",
                "a later compile_cnf on the same BDD builder ({}) denotes {:?}, the CNF {:?} denotes {:?}",
                what,
                got,
                c2.clauses,
                c2.tt()
            );
        }
        st.bump("cnf.further_formulas_on_the_same_bdd_builder");
    }
    // the dtree plan on this builder too (its order is unrelated to the elimination order, either cache,
    // small unique table)
    if !case.cnf.clauses.is_empty() {
        let dt = DTree::from_cnf(cnf, &cnf.min_fill_order());
        let plan = BottomUpPlan::from_dtree(&dt);
        let pr = b.compile_plan(&plan);
        ensure!(
            bdd_tt(pr) == expect,
            "C05/dtree-plan-bdd-wrong-function",
            "compile_plan(from_dtree, min-fill) on the BDD builder with order {:?} denotes {:?}, the CNF {:?} denotes {:?}",
            case.cfg.order(),
            bdd_tt(pr),
            case.cnf.clauses,
            expect
        );
        st.flag("plan_and_cnf_routes_gave_different_nodes(C02's concern)", pr != r);
    }
    Ok(())
}

pub fn run_cnf_compile(case: &CnfCompileCase, st: &mut Stats) -> CaseResult {
    let cnf = case.cnf.to_rsdd();
    let n = cnf.num_vars();
    // the input is the clause list the user wrote: the property names clauses with repeated or complementary
    // literals, empty clauses and the empty formula explicitly, so what Cnf::new makes of them is part of it
    let seen = CnfCase::read_back(&cnf);
    st.flag("cnf_object_differs_from_generating_list", seen.tt() != case.cnf.tt() || n != case.cnf.num_vars());
    let expect = case.cnf.tt();
    // BDD builder over exactly the CNF's variables
    let mut cfg = case.cfg.clone();
    cfg.n0 = n as u8;
    let case2 = CnfCompileCase { cfg: cfg.clone(), ..case.clone() };
    with_bdd_builder!(&cfg, bdd_part(&case2, &cnf, expect, st))?;

    // SDD builder: random vtree over max(n,1) variables
    let k = n.max(1);
    let mut vt = case.vt.clone();
    vt.k = k as u8;
    vt.stride = 1;
    vt.offset = 0;
    rsdd::verif_hooks::set_unique_table_capacity(case.cfg.table_cap.map(|c| c as usize));
    let mut sb = CompressionSddBuilder::new(vt.to_vtree());
    rsdd::verif_hooks::set_unique_table_capacity(None);
    // without compression SDDs (and the library's structural node comparison) blow up exponentially:
    // keep that mode to small inputs so that a case never takes minutes (time is not a correctness signal)
    let compress = case.compress || n > 4 || case.cnf.clauses.len() > 6;
    st.flag("cnf.sdd_uncompressed", !compress);
    sb.set_compression(compress);
    let sr = sb.compile_cnf(&cnf);
    let got = sdd_tt(sr);
    ensure!(
        got == expect,
        "C05/cnf-sdd-wrong-function",
        "compile_cnf (SDD, vtree {:?}, compression {}) denotes {:?}, the CNF {:?} denotes {:?}",
        vt.shape(),
        compress,
        got,
        case.cnf.clauses,
        expect
    );
    // dtree route: derived vtree (when it exists) and the dtree plan
    if !case.cnf.clauses.is_empty() {
        let order = match case.elim % 4 {
            0 => cnf.linear_order(),
            1 => cnf.min_fill_order(),
            2 if !case.cnf.has_empty_clause() => cnf.force_order(),
            2 => cnf.linear_order(),
            _ => VarOrder::new(&perm_from_keys(&case.cfg.order_keys, n).iter().map(|v| VarLabel::new_usize(*v)).collect::<Vec<_>>()),
        };
        let dt = DTree::from_cnf(&cnf, &order);
        if let Some(dv) = VTree::from_dtree(&dt) {
            let db = CompressionSddBuilder::new(dv);
            let dr = db.compile_cnf(&cnf);
            let got = sdd_tt(dr);
            ensure!(
                got == expect,
                "C05/cnf-sdd-dtree-vtree-wrong-function",
                "compile_cnf on the SDD builder with the dtree-derived vtree denotes {:?}, the CNF {:?} denotes {:?}",
                got,
                case.cnf.clauses,
                expect
            );
            st.bump("cnf.dtree_vtree");
            let dpr = db.compile_plan(&BottomUpPlan::from_dtree(&dt));
            ensure!(
                sdd_tt(dpr) == expect,
                "C05/dtree-plan-sdd-wrong-function",
                "compile_plan(from_dtree) on the SDD builder over the dtree-derived vtree denotes {:?}, the CNF {:?} denotes {:?}",
                sdd_tt(dpr),
                case.cnf.clauses,
                expect
            );
        }
        let plan = BottomUpPlan::from_dtree(&dt);
        ensure!(
            plan_tt(&plan) == expect,
            "C05/dtree-plan-denotes-other-function",
            "the plan derived from the dtree evaluates to {:?}, the CNF {:?} denotes {:?}",
            plan_tt(&plan),
            case.cnf.clauses,
            expect
        );
        let pb = RobddBuilder::<rsdd::builder::cache::AllIteTable<BddPtr>>::new(order.clone());
        let pr = pb.compile_plan(&plan);
        ensure!(
            bdd_tt(pr) == expect,
            "C05/dtree-plan-bdd-wrong-function",
            "compile_plan(from_dtree) on the BDD builder denotes {:?}, the CNF {:?} denotes {:?}",
            bdd_tt(pr),
            case.cnf.clauses,
            expect
        );
        let psr = sb.compile_plan(&plan);
        ensure!(
            sdd_tt(psr) == expect,
            "C05/dtree-plan-sdd-wrong-function",
            "compile_plan(from_dtree) on the SDD builder denotes {:?}, the CNF {:?} denotes {:?}",
            sdd_tt(psr),
            case.cnf.clauses,
            expect
        );
    }
    st.flag("cnf.no_clauses", case.cnf.clauses.is_empty());
    st.flag(
        match case.cnf.clauses.len() {
            0..=15 => "cnf.clauses.le15",
            16..=63 => "cnf.clauses.16-63",
            64..=255 => "cnf.clauses.64-255",
            256..=511 => "cnf.clauses.256-511",
            _ => "cnf.clauses.ge512",
        },
        true,
    );
    st.flag("cnf.empty_clause", case.cnf.has_empty_clause());
    st.flag("cnf.unit_clause", case.cnf.clauses.iter().any(|c| c.len() == 1));
    st.flag("cnf.tautological_clause", case.cnf.clauses.iter().any(|c| is_tautology(c)));
    st.flag("cnf.unused_index", case.cnf.mentioned_vars().len() < n);
    if case.cnf.clauses.iter().filter(|c| c.len() >= 2).count() >= 2 && !expect.is_const() {
        st.mark_nontrivial();
    }
    Ok(())
}

impl SubCheckT for CnfCompile {
    type Case = CnfCompileCase;
    const NAME: &'static str = "cnf";
    const RULE: &'static str = "random CNF (all edge cases) compiled by the BDD builder under a random order and either cache, by the SDD builder under a random vtree (compression on/off) and under the dtree-derived vtree, and through BottomUpPlan::from_dtree on both builders: walked truth table = the harness's CNF truth table; compile_cnf_with_assignments(cnf, m) is pointer-equal to condition_model(compile_cnf(cnf), m) and denotes the iterated cofactor. Non-trivial: >=2 clauses with >=2 literals and a non-constant result";
    fn cases(tier: Tier) -> u32 {
        tier.pick(8000, 120_000)
    }
    fn strategy(_tier: Tier) -> BoxedStrategy<CnfCompileCase> {
        (
            prop_oneof![
                24 => cnf_strategy(),
                1 => crate::cnfgen::many_clauses_strategy().prop_map(|clauses| CnfCase { clauses }),
            ],
            cfg_strategy(7),
            proptest::collection::vec(proptest::option::weighted(0.3, any::<bool>()), 8),
            vtree_case_strategy(7, false),
            any::<bool>(),
            0u8..4,
        )
            .prop_map(|(cnf, cfg, partial, vt, compress, elim)| CnfCompileCase {
                cnf,
                cfg,
                partial,
                vt,
                compress,
                elim,
            })
            .boxed()
    }
    fn run(case: &CnfCompileCase, st: &mut Stats) -> CaseResult {
        run_cnf_compile(case, st)
    }
}

// ---------------------------------------------------------------------------
// expressions and plans
// ---------------------------------------------------------------------------

#[derive(Clone, Debug, Serialize, Deserialize)]
pub struct ExprCase {
    pub nv: u8,
    pub ex: Ex,
    pub pl: Pl,
    pub cfg: BddCfg,
    pub vt: VtreeCase,
    pub compress: bool,
}

pub struct Expr;

fn expr_bdd<'a, T: IteTable<'a, BddPtr<'a>> + Default>(b: &'a RobddBuilder<'a, T>, case: &ExprCase) -> CaseResult {
    let le = case.ex.to_logical();
    let r = b.compile_logical_expr(&le);
    ensure!(
        bdd_tt(r) == case.ex.tt(),
        "C05/expr-bdd-wrong-function",
        "compile_logical_expr (BDD) denotes {:?}, the expression {:?} denotes {:?}",
        bdd_tt(r),
        case.ex,
        case.ex.tt()
    );
    let p = case.pl.to_plan();
    let r = b.compile_plan(&p);
    ensure!(
        bdd_tt(r) == case.pl.tt(),
        "C05/plan-bdd-wrong-function",
        "compile_plan (BDD) denotes {:?}, the plan {:?} denotes {:?}",
        bdd_tt(r),
        case.pl,
        case.pl.tt()
    );
    Ok(())
}

pub fn run_expr(case: &ExprCase, st: &mut Stats) -> CaseResult {
    let nv = case.nv.max(1);
    let mut cfg = case.cfg.clone();
    cfg.n0 = nv;
    with_bdd_builder!(&cfg, expr_bdd(case))?;
    let mut vt = case.vt.clone();
    vt.k = nv;
    vt.stride = 1;
    vt.offset = 0;
    let mut sb = CompressionSddBuilder::new(vt.to_vtree());
    let compress = case.compress || nv > 4 || case.ex.connectives() > 8;
    st.flag("expr.sdd_uncompressed", !compress);
    sb.set_compression(compress);
    let r = sb.compile_logical_expr(&case.ex.to_logical());
    ensure!(
        sdd_tt(r) == case.ex.tt(),
        "C05/expr-sdd-wrong-function",
        "compile_logical_expr (SDD, vtree {:?}) denotes {:?}, the expression {:?} denotes {:?}",
        vt.shape(),
        sdd_tt(r),
        case.ex,
        case.ex.tt()
    );
    let r = sb.compile_plan(&case.pl.to_plan());
    ensure!(
        sdd_tt(r) == case.pl.tt(),
        "C05/plan-sdd-wrong-function",
        "compile_plan (SDD, vtree {:?}) denotes {:?}, the plan {:?} denotes {:?}",
        vt.shape(),
        sdd_tt(r),
        case.pl,
        case.pl.tt()
    );
    st.flag("expr.constant", case.ex.tt().is_const());
    if case.ex.connectives() >= 3 && !case.ex.tt().is_const() && case.ex.tt().support_size() >= 2 {
        st.mark_nontrivial();
    }
    Ok(())
}

impl SubCheckT for Expr {
    type Case = ExprCase;
    const NAME: &'static str = "expr_plan";
    const RULE: &'static str = "random logical expressions (depth <= 5, all seven constructors) and random plans (all eight constructors incl. constants) over 1..6 variables compiled with the BDD builder (random order, either cache) and the SDD builder (random vtree, compression on/off): walked truth table = the harness's evaluator. Non-trivial: >=3 connectives and a non-constant result over >=2 variables";
    fn cases(tier: Tier) -> u32 {
        tier.pick(8000, 120_000)
    }
    fn strategy(_tier: Tier) -> BoxedStrategy<ExprCase> {
        (1u8..=6)
            .prop_flat_map(|nv| {
                (
                    Just(nv),
                    ex_strategy(nv, 5),
                    pl_strategy(nv, 4),
                    cfg_strategy(6),
                    vtree_case_strategy(6, false),
                    any::<bool>(),
                )
            })
            .prop_map(|(nv, ex, pl, cfg, vt, compress)| ExprCase {
                nv,
                ex,
                pl,
                cfg,
                vt,
                compress,
            })
            .boxed()
    }
    fn run(case: &ExprCase, st: &mut Stats) -> CaseResult {
        run_expr(case, st)
    }
}

// ---------------------------------------------------------------------------
// CNFs over many variables (labels up to 200, crossing 32 / 64 / 128): no truth table, assignments instead
// ---------------------------------------------------------------------------

#[derive(Clone, Debug, Serialize, Deserialize)]
pub struct BigCnfCase {
    pub clauses: Vec<Vec<(u8, bool)>>,
    pub seed: u64,
    /// vtree built by the library's own constructors: 0 right_linear, 1 left_linear, 2 even_split(.., 2), 3 even_split(.., 5)
    pub vtree_kind: u8,
    pub partial: Vec<(u8, bool)>,
}

pub struct CnfLarge;

pub fn run_cnf_large(case: &BigCnfCase, st: &mut Stats) -> CaseResult {
    use crate::big::*;
    let clauses: Vec<Clause> = case.clauses.iter().map(|c| c.iter().map(|(v, p)| (*v as usize, *p)).collect()).collect();
    let lits: Vec<Vec<rsdd::repr::Literal>> = clauses.iter().map(|c| c.iter().map(|(v, p)| rsdd::repr::Literal::new(VarLabel::new_usize(*v), *p)).collect()).collect();
    let cnf = Cnf::new(&lits);
    let n = cnf.num_vars();
    if n == 0 {
        return Ok(());
    }
    let order: Vec<usize> = if case.seed & 3 == 0 { (0..n).collect() } else { permutation(case.seed, n) };
    let labels: Vec<VarLabel> = order.iter().map(|v| VarLabel::new_usize(*v)).collect();
    // the assignments every diagram is read on: pseudo-random ones, and for every clause some that falsify exactly
    // that clause's literals (a compiler that loses or weakens a clause is wrongly true there)
    let mut probes: Vec<Vec<bool>> = (0..48).map(|k| assignment(case.seed, k, n)).collect();
    for (ci, c) in clauses.iter().enumerate().take(40) {
        for k in 0..3 {
            probes.push(falsifying(case.seed, (ci * 8 + k) as u64, n, c));
        }
    }
    // assignments that satisfy every unit clause (when the units are consistent): a formula with many unit clauses is
    // false almost everywhere else, and a compiler that loses a clause is wrongly true exactly there
    {
        let mut forced: Vec<Option<bool>> = vec![None; n];
        let mut consistent = true;
        for c in clauses.iter().filter(|c| c.len() == 1) {
            let (v, p) = c[0];
            if forced[v].map(|x| x != p).unwrap_or(false) {
                consistent = false;
            }
            forced[v] = Some(p);
        }
        if consistent && forced.iter().any(|x| x.is_some()) {
            for k in 0..6u64 {
                let mut a = assignment(case.seed ^ 0x0171, k, n);
                for (v, x) in forced.iter().enumerate() {
                    if let Some(val) = x {
                        a[v] = *val;
                    }
                }
                probes.push(a);
            }
        }
    }
    let mut models_seen = 0;
    let mut check = |what: &str, f: &dyn Fn(&[bool]) -> bool| -> CaseResult {
        for a in probes.iter() {
            let want = cnf_eval(&clauses, a);
            if want {
                models_seen += 1;
            }
            ensure!(
                f(a) == want,
                format!("C05/large-cnf-{}-wrong-function", what),
                "{} of the CNF {:?} ({} variables, order seed {}) is {} on an assignment where the CNF is {} (true variables: {:?})",
                what,
                case.clauses,
                n,
                case.seed,
                !want,
                want,
                a.iter().enumerate().filter(|(_, b)| **b).map(|(i, _)| i).collect::<Vec<_>>()
            );
        }
        Ok(())
    };
    let b = RobddBuilder::<rsdd::builder::cache::AllIteTable<BddPtr>>::new(VarOrder::new(&labels));
    let r = b.compile_cnf(&cnf);
    check("bdd", &|a| bdd_eval(r, a))?;
    // the route through a decomposition tree and its plan on the same builder (clauses of a dozen literals over a dozen
    // and more variables become plan leaves here, which the 8-variable sub-checks cannot have without tautologies)
    if !clauses.is_empty() && !clauses.iter().any(|c| c.is_empty()) {
        let elim = match (case.seed >> 3) & 1 {
            0 => cnf.linear_order(),
            _ => VarOrder::new(&labels),
        };
        let dt = DTree::from_cnf(&cnf, &elim);
        let plan = BottomUpPlan::from_dtree(&dt);
        let pr = b.compile_plan(&plan);
        check("dtree-plan-bdd", &|a| bdd_eval(pr, a))?;
        st.bump("large.dtree_plan");
        st.flag("large.dtree_plan_with_a_clause_of_9_or_more_literals", clauses.iter().any(|c| c.len() >= 9));
    }
    // compile under a partial assignment = compile, then condition (same diagram), and the right function
    let mut pmv: Vec<Option<bool>> = vec![None; n];
    for (v, val) in case.partial.iter() {
        pmv[(*v as usize) % n] = Some(*val);
    }
    let pm = PartialModel::from_assignments(&pmv);
    let under = b.compile_cnf_with_assignments(&cnf, &pm);
    let cond = b.condition_model(r, &pm);
    ensure!(
        under == cond,
        "C05/compile-under-assignment-differs-from-compile-then-condition",
        "large CNF {:?}: compiling under {:?} and compiling then conditioning give different diagrams",
        case.clauses,
        case.partial
    );
    for a in probes.iter() {
        let mut a2 = a.clone();
        for (v, x) in pmv.iter().enumerate() {
            if let Some(val) = x {
                a2[v] = *val;
            }
        }
        ensure!(
            bdd_eval(under, a) == cnf_eval(&clauses, &a2),
            "C05/compile-under-assignment-wrong-function",
            "large CNF {:?} compiled under {:?}: wrong value on an assignment",
            case.clauses,
            case.partial
        );
    }
    // SDD over a vtree made by the library's own constructors from the same order
    // SDDs over deep vtrees blow up quickly (and the library's structural node comparison is exponential in the
    // nesting depth): left-linear vtrees only for tiny inputs; time is never a verdict
    let occurrences: usize = clauses.iter().map(|c| c.len()).sum();
    let vt = match case.vtree_kind % 4 {
        0 => VTree::right_linear(&labels),
        1 if occurrences <= 8 => VTree::left_linear(&labels),
        // even_split panics when a part becomes empty: only with enough leaves for every split
        2 if n >= 8 => VTree::even_split(&labels, 2),
        3 if n >= 64 => VTree::even_split(&labels, 5),
        _ => VTree::right_linear(&labels),
    };
    let sb = CompressionSddBuilder::new(vt);
    let sr = sb.compile_cnf(&cnf);
    check("sdd", &|a| sdd_eval(sr, a))?;
    st.flag("large.label_at_or_above_64", clauses.iter().flatten().any(|(v, _)| *v >= 64));
    st.flag("large.label_at_or_above_128", clauses.iter().flatten().any(|(v, _)| *v >= 128));
    st.flag("large.two_labels_congruent_mod_64_in_one_clause", clauses.iter().any(|c| c.iter().any(|(v, _)| c.iter().any(|(w, _)| v != w && v % 64 == w % 64))));
    st.bump(&format!("large.vtree_kind.{}", case.vtree_kind % 4));
    let dense = clauses.len() >= 20;
    st.flag("large.dense_family", dense);
    st.flag("large.dense_family_with_probed_model", dense && models_seen >= 1);
    if (n >= 33 || dense) && clauses.len() >= 2 && models_seen >= 1 {
        st.mark_nontrivial();
    }
    Ok(())
}

impl SubCheckT for CnfLarge {
    type Case = BigCnfCase;
    const NAME: &'static str = "cnf_many_variables";
    const RULE: &'static str = "CNFs of 1..10 clauses (1..4 literals) whose labels are a small base plus an offset from {0, 32, 64, 128, 190} (so that 32-, 64- and 128-boundaries are crossed and labels congruent modulo 64 meet in one clause), or (one case in six) 20..60 clauses of 3..12 literals over 12..28 variables, compiled by the BDD builder under a linear or pseudo-random order over all num_vars variables and by the SDD builder over a vtree made by the library's own right_linear / left_linear / even_split: each diagram is evaluated by the harness's own walk on 48 pseudo-random assignments and on 3 assignments per clause that falsify exactly that clause, against direct evaluation of the clause list; compile_cnf_with_assignments = compile then condition_model (same node) and the right function. Non-trivial: >= 33 variables (or the dense family), >= 2 clauses and at least one probed model";
    fn cases(tier: Tier) -> u32 {
        tier.pick(1200, 30_000)
    }
    fn strategy(_tier: Tier) -> BoxedStrategy<BigCnfCase> {
        let lit = (0u8..10, prop_oneof![3 => Just(0u8), 1 => Just(32u8), 3 => Just(64u8), 2 => Just(128u8), 1 => Just(190u8)], any::<bool>())
            .prop_map(|(b, off, p)| (b + off, p));
        // a second family: many and wide clauses (20..60 clauses of 3..12 literals) over 12..28 contiguous labels
        let dense = (12u8..=28).prop_flat_map(|nv| proptest::collection::vec(proptest::collection::vec((0..nv, any::<bool>()), 3..=12), 20..=60));
        (
            prop_oneof![
                5 => proptest::collection::vec(proptest::collection::vec(lit, 1..=4), 1..=10),
                1 => dense,
                // many unit clauses (4..24 of them over 10..40 variables), a few clauses over the same variables (half of
                // their literals contradict a unit), and some unrelated short clauses
                1 => (10u8..=40, 4usize..=24).prop_flat_map(|(nv, k)| {
                    (
                        proptest::collection::vec((0..nv, any::<bool>()), k),
                        proptest::collection::vec(proptest::collection::vec((any::<u16>(), any::<bool>()), 2..=4), 1..=3),
                        proptest::collection::vec(proptest::collection::vec((0..nv, any::<bool>()), 1..=3), 0..=3),
                    )
                        .prop_map(|(units, over, other)| {
                            let mut cl: Vec<Vec<(u8, bool)>> = units.iter().map(|l| vec![*l]).collect();
                            for c in over {
                                cl.push(c.iter().map(|(i, flip)| { let (v, p) = units[(*i as usize) % units.len()]; (v, p != *flip) }).collect());
                            }
                            cl.extend(other);
                            cl
                        })
                }),
                // a few clauses of 9..17 literals (lengths on both sides of 8 and 16) with short ones
                1 => (14u8..=40).prop_flat_map(|nv| proptest::collection::vec(prop_oneof![1 => proptest::collection::vec((0..nv, any::<bool>()), 1..=3), 2 => proptest::collection::vec((0..nv, any::<bool>()), 9..=17)], 2..=8)),
            ],
            any::<u64>(),
            0u8..4,
            proptest::collection::vec((any::<u8>(), any::<bool>()), 0..=4),
        )
            .prop_map(|(clauses, seed, vtree_kind, partial)| BigCnfCase { clauses, seed, vtree_kind, partial })
            .boxed()
    }
    fn run(case: &BigCnfCase, st: &mut Stats) -> CaseResult {
        run_cnf_large(case, st)
    }
}

pub fn property() -> Property {
    Property {
        id: "C05",
        subs: vec![sub::<CnfCompile>(), sub::<Expr>(), sub::<CnfLarge>()],
        fuzz: vec![],
        assumptions: vec![
            "truth-table oracle: CNFs over <= 7 variables, expressions over <= 6 variables and depth <= 5; sub-check cnf_many_variables: up to 200 variables, read on sampled and clause-falsifying assignments instead of a truth table",
            "the SDD builder's vtree covers every variable of the input (labels 0..n-1, or the dtree-derived vtree which holds exactly the mentioned variables)",
            "CNFs without clauses are not sent through DTree::from_cnf (the library asserts a dtree needs a leaf); FORCE is not used on CNFs with an empty clause",
        ],
        nt_floor_percent: 15,
    }
}
