//! C02 — ROBDD canonicity and shape, including under unique-table growth.
use crate::bddi::*;
use crate::engine::*;
use crate::tt::Tt;
use crate::walk::*;
use proptest::prelude::*;
use rsdd::builder::bdd::{BddBuilder, RobddBuilder};
use rsdd::builder::cache::{AllIteTable, IteTable};
use rsdd::builder::BottomUpBuilder;
use rsdd::repr::{BddNode, BddPtr, DDNNFPtr, VarLabel, VarOrder};
use rsdd::verif_hooks::BackedRobinhoodTable;
use serde::{Deserialize, Serialize};
use std::collections::{BTreeMap, BTreeSet, HashMap, HashSet};

// ---------------------------------------------------------------------------
// layer 1: builder level
// ---------------------------------------------------------------------------

#[derive(Clone, Debug, Serialize, Deserialize)]
pub struct Case {
    pub cfg: BddCfg,
    pub ops: Vec<BOp>,
    pub checkpoints: Vec<u16>,
}

pub struct Builder;

/// every node reachable from the pool is requested again through the public
/// get_or_insert and must come back at the same address
fn rerequest<'a, T: IteTable<'a, BddPtr<'a>> + Default>(
    b: &'a RobddBuilder<'a, T>,
    pool: &[(BddPtr<'a>, Tt)],
    when: &str,
    st: &mut Stats,
) -> CaseResult {
    let mut seen: HashSet<*const BddNode<'a>> = HashSet::new();
    for (p, _) in pool.iter() {
        for n in bdd_nodes(*p) {
            if !seen.insert(n as *const _) {
                continue;
            }
            let again = b.get_or_insert(BddNode::new(n.var, n.low, n.high));
            st.bump("rerequests");
            let same = match again {
                BddPtr::Reg(m) => std::ptr::eq(m, n),
                _ => false,
            };
            ensure!(
                same,
                "C02/duplicate-node-for-existing-key",
                "re-requesting node (var {}, low {:?}, high {:?}) {} returned {:?} instead of the existing node at {:p}",
                n.var.value(),
                n.low,
                n.high,
                when,
                again,
                n
            );
        }
    }
    Ok(())
}

fn go<'a, T: IteTable<'a, BddPtr<'a>> + Default>(
    b: &'a RobddBuilder<'a, T>,
    case: &Case,
    st: &mut Stats,
) -> CaseResult {
    let grow0 = rsdd::verif_hooks::table_grows();
    let lru0 = rsdd::verif_hooks::lru_overwrites();
    let mut run = BddRun::new_embedded(b, case.cfg.labels());
    let cps: BTreeSet<usize> = if case.ops.is_empty() {
        BTreeSet::new()
    } else {
        case.checkpoints.iter().map(|c| pick(*c, case.ops.len())).collect()
    };
    // function -> first pointer that denoted it
    let mut canon: BTreeMap<Tt, (BddPtr<'a>, usize, u64)> = BTreeMap::new();
    for (i, (p, t)) in run.pool.iter().enumerate() {
        canon.insert(*t, (*p, i, 0));
    }
    let mut post_growth_hits = 0u64;
    let mut rereq_after_growth = false;
    for (i, op) in case.ops.iter().enumerate() {
        if let Some(out) = run.step(op) {
            st.bump(&format!("op.{}", out.kind));
            let (p, t) = run.pool[out.idx];
            // C01 is the function check: canonicity is keyed by the function the diagram actually denotes
            // (read by walking it), so a wrong result of an operation is not reported under this property
            let walked = bdd_tt(p);
            let _ = take_foreign_label(); // a result outside the embedding is a wrong function: C01's concern
            if walked != t {
                st.bump("result_differs_from_oracle_function(C01's concern)");
            }
            let t = walked;
            // order levels can change with new_var: recompute from the builder's public order
            let lv = order_levels(b.order());
            if let Some(msg) = bdd_shape_violation(p, &|v| lv[v]) {
                return fail(
                    "C02/shape",
                    format!("result of op #{} {:?} is not a reduced ordered BDD: {} ({})", i, op, msg, p.to_string_debug()),
                );
            }
            let grows_now = rsdd::verif_hooks::table_grows() - grow0;
            match canon.get(&t) {
                Some((q, j, g_then)) => {
                    st.bump("canonicity_pairs");
                    if grows_now > *g_then {
                        post_growth_hits += 1;
                    }
                    ensure!(
                        *q == p && b.eq(*q, p),
                        "C02/equal-functions-different-pointers",
                        "op #{} {:?} produced {:?} which denotes {:?}, but pool entry {} already denotes that function with a different pointer {:?} (table growths so far: {}, at first sight: {})",
                        i,
                        op,
                        p,
                        t,
                        j,
                        q,
                        grows_now,
                        g_then
                    );
                }
                None => {
                    canon.insert(t, (p, out.idx, grows_now));
                }
            }
            // only if: the equality test must separate every pair of different functions
            for (t2, (q, j, _)) in canon.iter() {
                if *t2 != t {
                    st.bump("distinctness_pairs");
                    ensure!(
                        *q != p && !b.eq(*q, p) && !b.eq(p, *q),
                        "C02/different-functions-reported-equal",
                        "op #{} {:?} produced {:?} denoting {:?}; pool entry {} is {:?} denoting {:?}, yet the equality test reports them equal",
                        i,
                        op,
                        p,
                        t,
                        j,
                        q,
                        t2
                    );
                }
            }
        } else {
            st.bump("op_not_applicable");
        }
        if cps.contains(&i) {
            let g = rsdd::verif_hooks::table_grows() - grow0;
            rerequest(b, &run.pool, &format!("at checkpoint after op #{}", i), st)?;
            if g > 0 {
                rereq_after_growth = true;
            }
        }
    }
    let grows = rsdd::verif_hooks::table_grows() - grow0;
    rerequest(b, &run.pool, "at the end of the history", st)?;
    if grows > 0 {
        rereq_after_growth = true;
    }
    // the complement of every pool entry is the complemented pointer, and distinct functions are distinct pointers
    let mut by_ptr: HashMap<BddPtr<'a>, Tt> = HashMap::new();
    for (p, _) in run.pool.iter() {
        let t = bdd_tt(*p);
        if let Some(t2) = by_ptr.insert(*p, t) {
            ensure!(t2 == t, "C02/one-pointer-two-functions", "pointer {:?} read as {:?} and {:?}", p, t, t2);
        }
    }
    st.add("table_grows", grows);
    st.add("post_growth_canonicity_hits", post_growth_hits);
    st.flag("case.table_grew", grows > 0);
    st.flag("case.lru_overwrote", rsdd::verif_hooks::lru_overwrites() > lru0);
    st.flag("case.nonlinear_order", !case.cfg.is_linear());
    if grows > 0 && rereq_after_growth {
        st.mark_nontrivial();
    }
    Ok(())
}

impl SubCheckT for Builder {
    type Case = Case;
    const NAME: &'static str = "builder";
    const REPLAY_ATTEMPTS: u32 = 40;
    const RULE: &'static str = "BDD histories as in C01 (a fifth of them embedded in builders with 9..200 variables under pseudo-random orders) with the unique table started at 1..24 slots in most cases; every result is keyed by the truth table read off the diagram itself and must be pointer-equal (and builder.eq) to the first diagram of that function, and unequal (pointer and builder.eq, both argument orders) to every diagram of a different function; every result of a logical op is walked for order/reducedness/high-edge shape; every reachable node is re-requested through get_or_insert at checkpoints and at the end and must come back at the same address. Non-trivial: the table grew at least once and nodes were re-requested after a growth";
    fn cases(tier: Tier) -> u32 {
        tier.pick(12_000, 200_000)
    }
    fn strategy(_tier: Tier) -> BoxedStrategy<Case> {
        (
            (
                1u8..=8,
                order_keys_strategy(),
                prop_oneof![3 => Just(0u8), 2 => Just(1u8), 5 => 2u8..=6],
                prop_oneof![1 => Just(None), 6 => (1u16..=24).prop_map(Some), 2 => (25u16..=64).prop_map(Some)],
            )
                .prop_map(|(n0, order_keys, cache, table_cap)| BddCfg {
                    n0,
                    order_keys,
                    cache,
                    table_cap,
                    embed: None,
                }),
            // a fifth of the histories run inside a builder with 9..200 variables (see C01)
            prop_oneof![4 => Just(None), 1 => (prop_oneof![9u8..=40, 41u8..=200], any::<u64>()).prop_map(Some)],
            ops_strategy(60),
            proptest::collection::vec(any::<u16>(), 3),
        )
            .prop_map(|(mut cfg, embed, ops, checkpoints)| {
                cfg.embed = embed;
                Case { cfg, ops, checkpoints }
            })
            .boxed()
    }
    fn run(case: &Case, st: &mut Stats) -> CaseResult {
        with_bdd_builder!(&case.cfg, go(case, st))
    }
}

// ---------------------------------------------------------------------------
// layer 2: the unique table driven directly against a set model
// ---------------------------------------------------------------------------

#[derive(Clone, Debug, Serialize, Deserialize)]
pub enum TOp {
    /// get_or_insert_by_hash(hash_of[key], key, false)
    Insert(u8),
    /// get_by_hash(hash_of[key])
    Lookup(u8),
}

#[derive(Clone, Debug, Serialize, Deserialize)]
pub struct TableCase {
    pub cap: u16,
    /// fixed hash of key k (keys are 0..hashes.len())
    pub hashes: Vec<u64>,
    pub ops: Vec<TOp>,
}

pub struct Table;

pub fn hash_strategy() -> impl Strategy<Value = u64> {
    prop_oneof![
        5 => 0u64..6,
        2 => (0u64..4, 1u32..9).prop_map(|(b, s)| b + (1u64 << s)),
        1 => (0u64..4, 0u64..4, 1u32..9).prop_map(|(b, m, s)| b + m * (1u64 << s)),
        1 => any::<u64>(),
        1 => Just(u64::MAX),
    ]
}

pub fn run_table_case(case: &TableCase, st: &mut Stats) -> CaseResult {
    type K = (u32, u32);
    rsdd::verif_hooks::set_unique_table_capacity(Some(case.cap as usize));
    let tbl: *mut BackedRobinhoodTable<'static, K> = Box::into_raw(Box::new(BackedRobinhoodTable::new()));
    rsdd::verif_hooks::set_unique_table_capacity(None);
    let grow0 = rsdd::verif_hooks::table_grows();
    let nk = case.hashes.len();
    let res = (|| -> CaseResult {
        if nk == 0 {
            return Ok(());
        }
        let mut model: BTreeMap<usize, *const K> = BTreeMap::new();
        let mut addrs: HashMap<*const K, usize> = HashMap::new();
        let mut first_insert_grows: BTreeMap<usize, u64> = BTreeMap::new();
        let mut hits_after_growth = 0u64;
        for (i, op) in case.ops.iter().enumerate() {
            match op {
                TOp::Insert(k) => {
                    let k = ((*k as usize) * nk) >> 8;
                    let key: K = (k as u32, 0xABCD_0000 + k as u32);
                    let h = case.hashes[k];
                    let r: &K = unsafe { (*tbl).get_or_insert_by_hash(h, key, false) };
                    let grows = rsdd::verif_hooks::table_grows() - grow0;
                    ensure!(
                        *r == key,
                        "C02/table-returned-wrong-element",
                        "op #{}: inserting key {} (hash {}) returned a cell holding {:?}",
                        i,
                        k,
                        h,
                        r
                    );
                    let addr = r as *const K;
                    match model.get(&k) {
                        Some(&a) => {
                            st.bump("table.hits");
                            if grows > first_insert_grows[&k] {
                                hits_after_growth += 1;
                            }
                            ensure!(
                                a == addr,
                                "C02/table-duplicate-after-growth",
                                "op #{}: key {} (hash {}) was already stored at {:p} but get_or_insert returned a new cell {:p} (capacity {} initially, {} growths, {} keys stored)",
                                i,
                                k,
                                h,
                                a,
                                addr,
                                case.cap,
                                grows,
                                model.len()
                            );
                        }
                        None => {
                            if let Some(other) = addrs.get(&addr) {
                                return fail(
                                    "C02/table-two-keys-one-cell",
                                    format!("op #{}: new key {} was given the cell of key {}", i, k, other),
                                );
                            }
                            model.insert(k, addr);
                            addrs.insert(addr, k);
                            first_insert_grows.insert(k, grows);
                        }
                    }
                    // bookkeeping that node identity does not depend on: recorded, never decisive
                    let n = unsafe { (*tbl).num_nodes() };
                    st.flag("table.num_nodes_differs_from_model(recorded only)", n != model.len());
                }
                TOp::Lookup(k) => {
                    let k = ((*k as usize) * nk) >> 8;
                    let h = case.hashes[k];
                    let r: Option<&K> = unsafe { (*tbl).get_by_hash(h) };
                    let present: Vec<usize> = model.keys().copied().filter(|j| case.hashes[*j] == h).collect();
                    st.bump("table.lookups");
                    // get_by_hash is not used by the BDD builder (the hash-identified builders use it: C11);
                    // recorded, never decisive here
                    let ok = match r {
                        None => present.is_empty(),
                        Some(cell) => {
                            let kk = cell.0 as usize;
                            present.contains(&kk) && model.get(&kk) == Some(&(cell as *const K))
                        }
                    };
                    st.flag("table.get_by_hash_differs_from_model(recorded only)", !ok);
                }
            }
        }
        // final sweep: every key is still found at its address, iter() lists exactly the model
        for (k, a) in model.iter() {
            let key: K = (*k as u32, 0xABCD_0000 + *k as u32);
            let r: &K = unsafe { (*tbl).get_or_insert_by_hash(case.hashes[*k], key, false) };
            ensure!(
                r as *const K == *a,
                "C02/table-duplicate-after-growth",
                "final sweep: key {} (hash {}) stored at {:p} was re-allocated at {:p}",
                k,
                case.hashes[*k],
                *a,
                r
            );
        }
        let listed: BTreeSet<usize> = unsafe { (*tbl).iter().map(|c| c.0 as usize).collect() };
        let listed_n = unsafe { (*tbl).iter().count() };
        st.flag(
            "table.iter_differs_from_model(recorded only)",
            !(listed == model.keys().copied().collect::<BTreeSet<_>>() && listed_n == model.len()),
        );
        let grows = rsdd::verif_hooks::table_grows() - grow0;
        st.add("table.grows", grows);
        st.add("table.hits_after_growth", hits_after_growth);
        if grows >= 1 && hits_after_growth >= 1 {
            st.mark_nontrivial();
        }
        Ok(())
    })();
    unsafe {
        drop(Box::from_raw(tbl));
    }
    res
}

impl SubCheckT for Table {
    type Case = TableCase;
    const NAME: &'static str = "table";
    const RULE: &'static str = "the unique table (hook re-export) started at 1..32 slots and driven with get_or_insert_by_hash/get_by_hash over <=40 keys whose fixed hashes come from a tiny colliding set, against a map key->address: returned cell holds the key, same key => same address for ever, distinct keys => distinct addresses (num_nodes, iter and get_by_hash are compared with the model and recorded in the histogram, but are not part of node identity and never decide). Non-trivial: >=1 growth and >=1 re-insertion of a key first stored before a growth";
    fn cases(tier: Tier) -> u32 {
        tier.pick(30_000, 400_000)
    }
    fn strategy(_tier: Tier) -> BoxedStrategy<TableCase> {
        (
            prop_oneof![3 => 1u16..=8, 2 => 9u16..=32],
            proptest::collection::vec(hash_strategy(), 1..=40),
            proptest::collection::vec(
                prop_oneof![5 => any::<u8>().prop_map(TOp::Insert), 1 => any::<u8>().prop_map(TOp::Lookup)],
                0..=160,
            ),
        )
            .prop_map(|(cap, hashes, ops)| TableCase { cap, hashes, ops })
            .boxed()
    }
    fn run(case: &TableCase, st: &mut Stats) -> CaseResult {
        run_table_case(case, st)
    }
}

// ---------------------------------------------------------------------------
// layer 2b: the table at mid sizes (hundreds to thousands of keys, capacities 1 .. 1024 growing to 8192)
// ---------------------------------------------------------------------------

#[derive(Clone, Debug, Serialize, Deserialize)]
pub struct TableMidCase {
    pub cap: u16,
    pub count: u16,
    pub seed: u64,
    /// 0 full 64-bit hashes, 1 every hash shared by three keys, 2 only the low 32 bits vary, 3 odd hashes shared by
    /// two keys
    pub hash_kind: u8,
}

pub struct TableMid;

pub fn run_table_mid(case: &TableMidCase, st: &mut Stats) -> CaseResult {
    type K = (u32, u32);
    let count = case.count as usize;
    let hash = |k: usize| -> u64 {
        // home slots stay close to uniform, as with the hasher the builders use: the probe length is a u8 and
        // clusters of > 255 entries (which need adversarial hashes) are outside the domain
        let r = |x: usize| splitmix(case.seed ^ (x as u64).wrapping_mul(0x9E37_79B9));
        match case.hash_kind % 4 {
            0 => r(k),
            1 => r(k / 3),
            2 => r(k) & 0xFFFF_FFFF,
            _ => r(k / 2) | 1,
        }
    };
    rsdd::verif_hooks::set_unique_table_capacity(Some(case.cap as usize));
    let tbl: *mut BackedRobinhoodTable<'static, K> = Box::into_raw(Box::new(BackedRobinhoodTable::new()));
    rsdd::verif_hooks::set_unique_table_capacity(None);
    let grow0 = rsdd::verif_hooks::table_grows();
    let res = (|| -> CaseResult {
        let mut addr: Vec<*const K> = Vec::with_capacity(count);
        let mut seen: HashMap<*const K, usize> = HashMap::new();
        let key = |k: usize| -> K { (k as u32, 0x5EED_0000 ^ k as u32) };
        for k in 0..count {
            let r: &K = unsafe { (*tbl).get_or_insert_by_hash(hash(k), key(k), false) };
            ensure!(*r == key(k), "C02/table-returned-wrong-element", "inserting key {} returned a cell holding {:?}", k, r);
            let a = r as *const K;
            if let Some(o) = seen.insert(a, k) {
                return fail("C02/table-two-keys-one-cell", format!("new key {} was given the cell of key {}", k, o));
            }
            addr.push(a);
            // every 61st insertion: an earlier key, picked pseudo-randomly, must still be where it was
            if k % 61 == 60 {
                let j = (splitmix(case.seed ^ k as u64) % (k as u64 + 1)) as usize;
                let r2: &K = unsafe { (*tbl).get_or_insert_by_hash(hash(j), key(j), false) };
                ensure!(
                    r2 as *const K == addr[j],
                    "C02/table-duplicate-after-growth",
                    "after {} insertions ({} growths, initial capacity {}), key {} stored at {:p} was re-allocated at {:p}",
                    k + 1,
                    rsdd::verif_hooks::table_grows() - grow0,
                    case.cap,
                    j,
                    addr[j],
                    r2
                );
            }
        }
        // second pass in a scrambled order
        for i in 0..count {
            let j = (i * 7919 + (case.seed % 1009) as usize) % count.max(1);
            let r2: &K = unsafe { (*tbl).get_or_insert_by_hash(hash(j), key(j), false) };
            ensure!(
                r2 as *const K == addr[j],
                "C02/table-duplicate-after-growth",
                "second pass: key {} (hash {}) stored at {:p} was re-allocated at {:p} ({} keys, {} growths, initial capacity {})",
                j,
                hash(j),
                addr[j],
                r2,
                count,
                rsdd::verif_hooks::table_grows() - grow0,
                case.cap
            );
        }
        let grows = rsdd::verif_hooks::table_grows() - grow0;
        st.add("table_mid.grows", grows);
        st.bump(&format!("table_mid.hash_kind.{}", case.hash_kind % 4));
        if grows >= 3 {
            st.mark_nontrivial();
        }
        Ok(())
    })();
    unsafe {
        drop(Box::from_raw(tbl));
    }
    res
}

impl SubCheckT for TableMid {
    type Case = TableMidCase;
    const NAME: &'static str = "table_midsize";
    const RULE: &'static str = "the unique table started at 1..1024 slots and filled with 200..4000 keys (pseudo-random hashes: full 64 bits / each shared by three keys / low 32 bits only / odd and shared by two keys): every key gets a cell of its own, every 61st insertion re-requests an earlier key, and a second pass over all keys in a scrambled order must find every key at its first address. Non-trivial: >=3 growths";
    fn cases(tier: Tier) -> u32 {
        tier.pick(300, 6000)
    }
    fn strategy(_tier: Tier) -> BoxedStrategy<TableMidCase> {
        (prop_oneof![Just(1u16), Just(16u16), Just(128u16), 1u16..=1024], 200u16..=4000, any::<u64>(), 0u8..4)
            .prop_map(|(cap, count, seed, hash_kind)| TableMidCase { cap, count, seed, hash_kind })
            .boxed()
    }
    fn run(case: &TableMidCase, st: &mut Stats) -> CaseResult {
        run_table_mid(case, st)
    }
}

// ---------------------------------------------------------------------------
// layer 3: default capacity, one large builder (no hooks set)
// ---------------------------------------------------------------------------

#[derive(Clone, Debug, Serialize, Deserialize)]
pub struct BigCase {
    pub seed: u64,
    pub nvars: u8,
    pub target_nodes: u32,
}

pub struct Big;

fn lcg(s: &mut u64) -> u64 {
    *s = splitmix(*s);
    *s
}

pub fn run_big(case: &BigCase, st: &mut Stats) -> CaseResult {
    let n = case.nvars as usize;
    rsdd::verif_hooks::set_unique_table_capacity(None);
    let grow0 = rsdd::verif_hooks::table_grows();
    let b = RobddBuilder::<AllIteTable<BddPtr>>::new(VarOrder::linear_order(n));
    let mut s = case.seed;
    let mut pool: Vec<BddPtr> = Vec::new();
    for v in 0..n {
        pool.push(b.var(VarLabel::new_usize(v), true));
    }
    // registry of every node seen so far: (var, low, high) -> address
    let mut registry: Vec<&BddNode> = Vec::new();
    let mut seen: HashSet<*const BddNode> = HashSet::new();
    let mut steps = 0u64;
    let mut rounds = 0u64;
    loop {
        // build a batch of random functions: xor/and/or/ite of random pool entries (xor chains blow up quickly)
        for _ in 0..64 {
            let x = pool[(lcg(&mut s) % pool.len() as u64) as usize];
            let y = pool[(lcg(&mut s) % pool.len() as u64) as usize];
            let z = pool[(lcg(&mut s) % pool.len() as u64) as usize];
            let r = match lcg(&mut s) % 5 {
                0 => b.and(x, y),
                1 => b.or(x, y.neg()),
                2 => b.xor(x, y),
                3 => b.ite(x, y, z),
                _ => b.iff(x, z),
            };
            steps += 1;
            if !r.is_const() {
                pool.push(r);
            }
            if pool.len() > 400 {
                let k = (lcg(&mut s) % (pool.len() as u64 - n as u64)) as usize + n;
                pool.swap_remove(k);
            }
        }
        rounds += 1;
        // register nodes of a few pool entries
        for _ in 0..8 {
            let p = pool[(lcg(&mut s) % pool.len() as u64) as usize];
            for nd in bdd_nodes(p) {
                if seen.insert(nd as *const _) {
                    registry.push(nd);
                }
            }
        }
        let stored = registry.len();
        if stored as u32 >= case.target_nodes || rounds > 20_000 {
            break;
        }
    }
    let grows = rsdd::verif_hooks::table_grows() - grow0;
    // every registered node must be found again at its address
    let mut dup = 0u64;
    let mut first: Option<String> = None;
    for nd in registry.iter() {
        let again = b.get_or_insert(BddNode::new(nd.var, nd.low, nd.high));
        let same = matches!(again, BddPtr::Reg(m) if std::ptr::eq(m, *nd));
        if !same {
            dup += 1;
            if first.is_none() {
                first = Some(format!("node (var {}, low {:?}, high {:?}) at {:p} came back as {:?}", nd.var.value(), nd.low, nd.high, *nd, again));
            }
        }
    }
    st.add("big.nodes_registered", registry.len() as u64);
    st.add("big.ops", steps);
    st.add("big.grows", grows);
    if grows >= 1 {
        st.mark_nontrivial();
    }
    ensure!(
        dup == 0,
        "C02/duplicate-node-for-existing-key",
        "default-capacity builder, {} variables, {} registered nodes, {} table growths: {} nodes were duplicated on re-request; first: {}",
        n,
        registry.len(),
        grows,
        dup,
        first.unwrap_or_default()
    );
    Ok(())
}

impl SubCheckT for Big {
    type Case = BigCase;
    const NAME: &'static str = "default_capacity";
    const RULE: &'static str = "hooks unset: one builder over 20..26 variables, pseudo-random and/or/xor/ite/iff until the number of distinct registered nodes exceeds the target (past the 131072-slot table's growth thresholds), then every registered node is re-requested and must come back at its address. Non-trivial: the default-size table grew at least once";
    fn cases(tier: Tier) -> u32 {
        tier.pick(4, 32)
    }
    fn strategy(tier: Tier) -> BoxedStrategy<BigCase> {
        let target = tier.pick(100_000u32..200_000, 200_000u32..420_000);
        (any::<u64>(), 20u8..=26, target)
            .prop_map(|(seed, nvars, target_nodes)| BigCase {
                seed,
                nvars,
                target_nodes,
            })
            .no_shrink()
            .boxed()
    }
    fn run(case: &BigCase, st: &mut Stats) -> CaseResult {
        run_big(case, st)
    }
}

// ---------------------------------------------------------------------------
// layer 4: canonicity on diagrams of hundreds of nodes, by identities that need no truth table
// ---------------------------------------------------------------------------

#[derive(Clone, Debug, Serialize, Deserialize)]
pub struct IdentCase {
    pub nv: u8,
    pub seed: u64,
    /// 0 cache everything, else the lossy cache (default size)
    pub cache: u8,
    pub table_cap: Option<u16>,
    /// building steps: (operation, three operand picks)
    pub steps: Vec<(u8, u16, u16, u16)>,
    /// identities to test: (kind, three operand picks, variable byte, value)
    pub idents: Vec<(u8, u16, u16, u16, u8, bool)>,
    /// where the builder's order comes from: 0 a pseudo-random permutation made by the harness; 1 / 2 / 3 the library's
    /// linear / min-fill / FORCE order of a pseudo-random CNF over the same variables, about a third of which occur in
    /// no clause (the orders a user gets from the library are orders builders are made with)
    #[serde(default)]
    pub lib_order: u8,
}

pub struct Identities;

fn ident_go<'a, T: IteTable<'a, BddPtr<'a>> + Default>(b: &'a RobddBuilder<'a, T>, case: &IdentCase, st: &mut Stats) -> CaseResult {
    let n = b.num_vars();
    let mut pool: Vec<BddPtr<'a>> = (0..n).map(|v| b.var(VarLabel::new_usize(v), splitmix(case.seed ^ v as u64) & 1 == 1)).collect();
    // two parity-like seeds give the later operations something of size to work on
    let mut x = pool[0];
    for v in 1..n {
        x = if splitmix(case.seed ^ 0xAA ^ v as u64) % 3 == 0 { b.and(x, pool[v]) } else { b.xor(x, pool[v]) };
        if v % 3 == 2 {
            pool.push(x);
        }
    }
    let at = |pool: &Vec<BddPtr<'a>>, i: u16| pool[pick(i, pool.len())];
    for (op, a, bb, c) in case.steps.iter() {
        let (p, q, r) = (at(&pool, *a), at(&pool, *bb), at(&pool, *c));
        let res = match op % 6 {
            0 => b.and(p, q),
            1 => b.or(p, q.neg()),
            2 => b.xor(p, q),
            3 => b.ite(p, q, r),
            4 => b.iff(p, r),
            _ => b.ite(p, q.neg(), r),
        };
        if !res.is_const() {
            pool.push(res);
        }
    }
    let lv = order_levels(b.order());
    let sized = |p: BddPtr| bdd_nodes(p).len();
    let mut largest = 0usize;
    // sampled evaluation of two diagrams, to tell "different pointers for one function" (this property) from
    // "an operation returned another function" (C01's concern)
    let same_on_samples = |p: BddPtr, q: BddPtr, salt: u64| -> bool {
        (0..192u64).all(|k| {
            let a = crate::big::assignment(case.seed ^ salt, k, n);
            crate::big::bdd_eval(p, &a) == crate::big::bdd_eval(q, &a)
        })
    };
    for (k, (kind, a, bb, c, vb, val)) in case.idents.iter().enumerate() {
        let (p, q, r) = (at(&pool, *a), at(&pool, *bb), at(&pool, *c));
        let v = VarLabel::new_usize(((*vb as usize) * n) >> 8);
        let (name, lhs, rhs): (&str, BddPtr<'a>, BddPtr<'a>) = match kind % 10 {
            0 => ("and(a,b) = and(b,a)", b.and(p, q), b.and(q, p)),
            1 => ("or(a,b) = not and(not a, not b)", b.or(p, q), b.and(p.neg(), q.neg()).neg()),
            2 => ("xor(a,b) = or(and(a,!b), and(!a,b))", b.xor(p, q), b.or(b.and(p, q.neg()), b.and(p.neg(), q))),
            3 => ("ite(a,b,c) = or(and(a,b), and(!a,c))", b.ite(p, q, r), b.or(b.and(p, q), b.and(p.neg(), r))),
            4 => ("exists(a,v) = or(a|v, a|!v)", b.exists(p, v), b.or(b.condition(p, v, true), b.condition(p, v, false))),
            // the documented meaning of compose: exists v. (v <=> b) & a (which is a[v := b] when b ignores v)
            5 => ("compose(a,v,b) = exists v. (v <=> b) & a", b.compose(p, v, q), b.exists(b.and(b.iff(b.var(v, true), q), p), v)),
            6 => ("and(a,b)|v = and(a|v, b|v)", b.condition(b.and(p, q), v, *val), b.and(b.condition(p, v, *val), b.condition(q, v, *val))),
            7 => ("ite(v, a|v, a|!v) = a", b.ite(b.var(v, true), b.condition(p, v, true), b.condition(p, v, false)), p),
            8 => ("and_lst([a,b,c]) = and(and(a,b),c)", b.and_lst(&[p, q, r]), b.and(b.and(p, q), r)),
            _ => ("iff(a,b) = not xor(a,b)", b.iff(p, q), b.xor(p, q).neg()),
        };
        largest = largest.max(sized(lhs)).max(sized(p));
        for (side, d) in [("left", lhs), ("right", rhs)] {
            if let Some(msg) = bdd_shape_violation(d, &|x| lv[x]) {
                return fail(
                    "C02/shape",
                    format!("identity #{} {} over {} variables: the {} side ({} nodes) is not a reduced ordered BDD: {}", k, name, n, side, sized(d), msg),
                );
            }
        }
        if lhs != rhs || !b.eq(lhs, rhs) {
            if same_on_samples(lhs, rhs, k as u64) {
                return fail(
                    "C02/equal-functions-different-pointers",
                    format!(
                        "identity #{} {} over {} variables (operands of {} / {} / {} nodes): the two sides agree on 192 sampled assignments but are different pointers ({} and {} nodes)",
                        k,
                        name,
                        n,
                        sized(p),
                        sized(q),
                        sized(r),
                        sized(lhs),
                        sized(rhs)
                    ),
                );
            }
            st.bump("identity_sides_denote_different_functions(C01's concern)");
        }
        st.bump("identities_checked");
    }
    st.bump(match largest {
        0..=16 => "ident.largest_diagram.upto_16",
        17..=64 => "ident.largest_diagram.17_64",
        65..=256 => "ident.largest_diagram.65_256",
        _ => "ident.largest_diagram.above_256",
    });
    if largest > 64 {
        st.mark_nontrivial();
    }
    Ok(())
}

pub fn run_ident(case: &IdentCase, st: &mut Stats) -> CaseResult {
    let n = (case.nv as usize).clamp(9, 20);
    let order: Vec<VarLabel> = crate::big::permutation(case.seed, n).into_iter().map(VarLabel::new_usize).collect();
    let make_order = || -> VarOrder {
        if case.lib_order % 4 == 0 {
            return VarOrder::new(&order);
        }
        // a CNF over labels 0..n in which about a third of the labels occur in no clause; the last label always occurs
        let used: Vec<usize> = (0..n).filter(|v| *v + 1 == n || splitmix(case.seed ^ 0x0DD ^ (*v as u64) << 7) % 3 != 0).collect();
        let lit = |k: u64| {
            let v = used[(splitmix(case.seed ^ 0xC1A ^ k) as usize) % used.len()];
            rsdd::repr::Literal::new(VarLabel::new_usize(v), splitmix(case.seed ^ 0xB0 ^ k) & 1 == 1)
        };
        let mut clauses: Vec<Vec<rsdd::repr::Literal>> = (0..(n as u64 + 3)).map(|c| (0..(2 + c % 3)).map(|j| lit(c * 8 + j)).collect()).collect();
        clauses.push(vec![rsdd::repr::Literal::new(VarLabel::new_usize(n - 1), true), lit(999)]);
        let cnf = rsdd::repr::Cnf::new(&clauses);
        match case.lib_order % 4 {
            1 => cnf.linear_order(),
            2 => cnf.min_fill_order(),
            _ => cnf.force_order(),
        }
    };
    st.bump(["order.harness_permutation", "order.library_linear", "order.library_min_fill", "order.library_force"][(case.lib_order % 4) as usize]);
    rsdd::verif_hooks::set_unique_table_capacity(case.table_cap.map(|c| c as usize));
    if case.cache == 0 {
        let b = RobddBuilder::<AllIteTable<BddPtr>>::new(make_order());
        rsdd::verif_hooks::set_unique_table_capacity(None);
        ident_go(&b, case, st)
    } else {
        let b = RobddBuilder::<rsdd::builder::cache::LruIteTable<BddPtr>>::new(make_order());
        rsdd::verif_hooks::set_unique_table_capacity(None);
        ident_go(&b, case, st)
    }
}

impl SubCheckT for Identities {
    type Case = IdentCase;
    const NAME: &'static str = "identities_on_large_diagrams";
    const RULE: &'static str = "a builder over 9..20 variables (pseudo-random order, or in two cases of five the library's own linear / min-fill / FORCE order of a CNF in which a third of the variables do not occur; either cache, unique table default or 1..64 slots), a pool grown by 10..40 and / or / xor / ite / iff steps from parity-like seeds (diagrams of hundreds of nodes), then 4..16 identities whose two sides are built by different routes and must be the same pointer: commutativity, De Morgan, xor and ite by and/or, exists = or of the two cofactors, compose = exists v. (v <=> g) & f, conditioning distributes over and, Shannon re-assembly, and_lst = nested and, iff = not xor; both sides pass the shape walk (ordered, reduced, regular non-false high edges); sides that differ as pointers are evaluated on 192 sampled assignments: agreeing there, they are two pointers for one function (reported here), else an operation returned another function (recorded, C01's concern). Non-trivial: a diagram of more than 64 nodes took part";
    fn cases(tier: Tier) -> u32 {
        tier.pick(1500, 40_000)
    }
    fn strategy(_tier: Tier) -> BoxedStrategy<IdentCase> {
        (
            9u8..=20,
            any::<u64>(),
            0u8..2,
            prop_oneof![2 => Just(None), 3 => (1u16..=64).prop_map(Some)],
            proptest::collection::vec((any::<u8>(), idx_strategy(), idx_strategy(), idx_strategy()), 10..=40),
            proptest::collection::vec((any::<u8>(), idx_strategy(), idx_strategy(), idx_strategy(), any::<u8>(), any::<bool>()), 4..=16),
            prop_oneof![3 => Just(0u8), 2 => 1u8..=3],
        )
            .prop_map(|(nv, seed, cache, table_cap, steps, idents, lib_order)| IdentCase { nv, seed, cache, table_cap, steps, idents, lib_order })
            .boxed()
    }
    fn run(case: &IdentCase, st: &mut Stats) -> CaseResult {
        run_ident(case, st)
    }
}

pub fn property() -> Property {
    Property {
        id: "C02",
        subs: vec![sub::<Builder>(), sub::<Table>(), sub::<TableMid>(), sub::<Big>(), sub::<Identities>()],
        fuzz: vec![FuzzSpec { target: "bdd_ops", runs: 60000, max_len: 400 }, FuzzSpec { target: "tables", runs: 150000, max_len: 500 }],
        assumptions: vec![
            "functions over <= 8 variables for the truth-table keyed canonicity map; <= 60 operations",
            "per-key hashes are functions of the key; <= 40 keys per small-table history, <= 4000 keys with near-uniform home slots in the mid-size histories (the probe length is a u8: clusters of > 255 entries need adversarial hashes and are outside the domain)",
            "smooth() and direct get_or_insert results are not subject to the shape clause (the property speaks of logical operations)",
        ],
        nt_floor_percent: 10,
    }
}
