//! C08 — smoothing keeps the function and makes counting exact for any weights.
use crate::bddi::*;
use crate::engine::*;
use crate::oracle::mulmod;
use crate::walk::*;
use proptest::prelude::*;
use rsdd::builder::bdd::RobddBuilder;
use rsdd::builder::cache::IteTable;
use rsdd::constants::primes;
use rsdd::repr::{BddPtr, DDNNFPtr, VarLabel, WmcParams};
use rsdd::util::semirings::{FiniteField, RealSemiring};
use serde::{Deserialize, Serialize};

#[derive(Clone, Debug, Serialize, Deserialize)]
pub struct Case {
    pub cfg: BddCfg,
    pub ops: Vec<BOp>,
    pub target: u16,
    pub ns: u8,
    /// further (target, n_s) smoothings issued on the same builder afterwards (a later call must not depend
    /// on earlier ones)
    #[serde(default)]
    pub more: Vec<(u16, u8)>,
    /// variables added to the builder (new_var) after the i-th smoothing: 0, 1 or 2 each time, while fewer than 8
    /// exist; a later smoothing then works over a longer order than an earlier one on the same builder
    #[serde(default)]
    pub grow: Vec<u8>,
    /// per label: (low, high) small integers
    pub weights: Vec<(u8, u8)>,
    /// per label: residues selector for the finite-field count
    pub ff: Vec<(u8, u8)>,
}

pub struct Smooth;

const P: u128 = primes::U64_LARGEST;

fn ff_residue(sel: u8) -> u128 {
    match sel % 8 {
        0 => 0,
        1 => 1,
        2 => 2,
        3 => P - 1,
        4 => P - 2,
        5 => P / 2,
        6 => (sel as u128) * 0x0123_4567_89AB_CDEF % P,
        _ => (sel as u128) + 3,
    }
}


#[allow(clippy::type_complexity)]
fn smooth_once<'a, T: IteTable<'a, BddPtr<'a>> + Default>(
    b: &'a RobddBuilder<'a, T>,
    pool: &[(BddPtr<'a>, crate::tt::Tt)],
    n: usize,
    target: u16,
    ns_sel: u8,
    case: &Case,
    call_no: usize,
) -> Result<(bool, bool, bool, bool, BddPtr<'a>, usize, BddPtr<'a>), Failure> {
    let (f, _) = pool[pick(target, pool.len())];
    // the input is taken as what it denotes (read by walking it); whether the history produced the function
    // the oracle expects is C01's concern
    let t = bdd_tt(f);
    let lv = order_levels(b.order());
    let order: Vec<usize> = b.order().in_order_iter().map(|v| v.value_usize()).collect();
    let lo = bdd_nodes(f).iter().map(|nd| lv[nd.var.value_usize()] + 1).max().unwrap_or(0);
    // one call in six smooths over a prefix that ends above the deepest variable of f: the function must stay, and every
    // path must test the prefix's variables once each, in order, before anything else (no count is claimed there)
    if lo >= 2 && ns_sel % 6 == 5 {
        let short = (ns_sel as usize / 6) % lo;
        let s = b.smooth(f, short);
        ensure!(bdd_tt(s) == t, "C08/function-changed", "smooth(f, {}) denotes {:?} but f denotes {:?} (f tests variables down to level {}); f = {}, order = {:?}", short, bdd_tt(s), t, lo - 1, f.to_string_debug(), order);
        if let Some(paths) = bdd_paths(s, 100_000) {
            for p in paths {
                ensure!(
                    p.len() >= short && p[..short] == order[..short] && p[short..].iter().all(|v| !order[..short].contains(v)),
                    "C08/path-does-not-test-each-variable-once-in-order",
                    "smooth(f, {}) has a path testing {:?}; every path must begin with {:?} and test none of them again; f = {}",
                    short,
                    p,
                    &order[..short],
                    f.to_string_debug()
                );
            }
        }
    }
    let ns = lo + (((ns_sel as usize) * (n - lo + 1)) >> 8);
    debug_assert!(ns >= lo && ns <= n);

    // classify level skipping of the input
    let paths_in = bdd_paths(f, 100_000).unwrap_or_default();
    let mut skip_top = false;
    let mut skip_mid = false;
    let mut skip_bot = false;
    for p in paths_in.iter() {
        let levels: Vec<usize> = p.iter().map(|v| lv[*v]).collect();
        if levels.first().map(|l| *l > 0).unwrap_or(ns > 0) {
            skip_top = true;
        }
        if levels.windows(2).any(|w| w[1] > w[0] + 1) {
            skip_mid = true;
        }
        if levels.last().map(|l| l + 1 < ns).unwrap_or(false) {
            skip_bot = true;
        }
    }
    let shorter = paths_in.iter().any(|p| p.len() < ns);

    let s = b.smooth(f, ns);
    let want_path: Vec<usize> = order[..ns].to_vec();
    let shape_ok = |d: BddPtr<'a>, what: &str| -> CaseResult {
        let got = bdd_tt(d);
        ensure!(
            got == t,
            "C08/function-changed",
            "{} denotes {:?} but f denotes {:?}; f = {}, order = {:?}",
            what,
            got,
            t,
            f.to_string_debug(),
            order
        );
        let paths = bdd_paths(d, 100_000);
        ensure!(paths.is_some(), "C08/too-many-paths", "{}: more than 100000 paths for ns = {}", what, ns);
        for p in paths.unwrap() {
            ensure!(
                p == want_path,
                "C08/path-does-not-test-each-variable-once-in-order",
                "{} has a path testing {:?}; every path must test {:?} (order prefix); f = {}",
                what,
                p,
                want_path,
                f.to_string_debug()
            );
        }
        Ok(())
    };
    shape_ok(s, &format!("smooth(f, {})", ns))?;
    // a smoothed diagram is itself a legal input (each variable once per path, in order; the command-line
    // tool smooths twice): smoothing it again over the same prefix must give the same shape
    let s2 = b.smooth(s, ns);
    shape_ok(s2, &format!("smooth(smooth(f, {}), {})", ns, ns))?;

    // counts under arbitrary non-normalised weights
    let mut real = WmcParams::<RealSemiring>::default();
    let mut ff = WmcParams::<FiniteField<P>>::default();
    let mut ones = WmcParams::<RealSemiring>::default();
    let mut wr = vec![(0f64, 0f64); n];
    let mut wf = vec![(0u128, 0u128); n];
    for v in 0..n {
        let (l, h) = case.weights.get(v).copied().unwrap_or((1, 1));
        let (l, h) = ((l % 7) as f64, (h % 7) as f64);
        wr[v] = (l, h);
        real.set_weight(VarLabel::new_usize(v), RealSemiring(l), RealSemiring(h));
        let (fl, fh) = case.ff.get(v).copied().unwrap_or((1, 1));
        wf[v] = (ff_residue(fl), ff_residue(fh));
        ff.set_weight(VarLabel::new_usize(v), FiniteField::new(wf[v].0), FiniteField::new(wf[v].1));
        ones.set_weight(VarLabel::new_usize(v), RealSemiring(1.0), RealSemiring(1.0));
    }
    let mut exp_real = 0f64;
    let mut exp_ff = 0u128;
    let mut exp_count = 0u64;
    for a in 0..(1usize << ns) {
        // a assigns bit i to the variable at level i
        let mut full = 0usize;
        for (i, v) in want_path.iter().enumerate() {
            if (a >> i) & 1 == 1 {
                full |= 1 << v;
            }
        }
        if !t.get(full) {
            continue;
        }
        exp_count += 1;
        let mut pr = 1f64;
        let mut pf = 1u128;
        for (i, v) in want_path.iter().enumerate() {
            let bit = (a >> i) & 1 == 1;
            pr *= if bit { wr[*v].1 } else { wr[*v].0 };
            pf = mulmod(pf, if bit { wf[*v].1 } else { wf[*v].0 }, P);
        }
        exp_real += pr;
        exp_ff = (exp_ff + pf) % P;
    }
    let got_real = s.unsmoothed_wmc(&real).0;
    ensure!(
        got_real == exp_real,
        "C08/weighted-count-real",
        "smooth(f, {}) counts {} under integer weights {:?}, brute force over models gives {}; f = {}, order {:?}",
        ns,
        got_real,
        &wr,
        exp_real,
        f.to_string_debug(),
        order
    );
    let got_real2 = s2.unsmoothed_wmc(&real).0;
    ensure!(
        got_real2 == exp_real,
        "C08/weighted-count-real",
        "smooth(smooth(f, {}), {}) counts {} under integer weights {:?}, brute force over models gives {}; f = {}, order {:?}",
        ns,
        ns,
        got_real2,
        &wr,
        exp_real,
        f.to_string_debug(),
        order
    );
    let got_ff = s.unsmoothed_wmc(&ff).value();
    ensure!(
        got_ff == exp_ff,
        "C08/weighted-count-finite-field",
        "smooth(f, {}) counts {} in GF(P64), brute force gives {}; f = {}",
        ns,
        got_ff,
        exp_ff,
        f.to_string_debug()
    );
    let got_ones = s.unsmoothed_wmc(&ones).0;
    ensure!(
        got_ones == exp_count as f64,
        "C08/unweighted-count",
        "smooth(f, {}) counts {} models under unit weights, the function has {}; f = {}",
        ns,
        got_ones,
        exp_count,
        f.to_string_debug()
    );
    let _ = call_no;
    Ok((skip_top, skip_mid, skip_bot, shorter, f, ns, s))
}

fn go<'a, T: IteTable<'a, BddPtr<'a>> + Default>(
    b: &'a RobddBuilder<'a, T>,
    case: &Case,
    st: &mut Stats,
) -> CaseResult {
    let mut run = BddRun::new(b, case.cfg.n0 as usize);
    run.max_new_vars = 1;
    for op in case.ops.iter() {
        run.step(op);
    }
    let mut n = run.n;
    let mut calls: Vec<(u16, u8)> = vec![(case.target, case.ns)];
    calls.extend(case.more.iter().copied().take(4));
    let mut first: Option<(bool, bool, bool, bool, BddPtr<'a>, usize)> = None;
    let mut distinct_ns = std::collections::BTreeSet::new();
    let base_len = run.pool.len();
    for (call_no, (target, ns_sel)) in calls.iter().enumerate() {
        let picked = pick(*target, run.pool.len());
        let (skip_top, skip_mid, skip_bot, shorter, f, ns, s) = smooth_once(b, &run.pool, n, *target, *ns_sel, case, call_no)?;
        // smoothed results join the pool: a later call may smooth one of them over a longer prefix
        if picked >= base_len {
            st.bump("smoothed_a_smoothed_diagram_over_a_longer_or_equal_prefix");
        }
        run.pool.push((s, bdd_tt(s)));
        distinct_ns.insert(ns);
        if call_no + 1 < calls.len() {
            run.max_new_vars = 8;
            for _ in 0..case.grow.get(call_no).copied().unwrap_or(0) % 3 {
                run.step(&BOp::NewVar(true));
            }
            if run.n > n {
                st.bump("order_extended_between_two_smoothings");
                n = run.n;
            }
        }
        if first.is_none() {
            first = Some((skip_top, skip_mid, skip_bot, shorter, f, ns));
        }
    }
    st.flag("several_smooth_calls_with_different_ns", distinct_ns.len() >= 2);
    let (skip_top, skip_mid, skip_bot, shorter, f, ns) = first.unwrap();
    let n = n.min(case.weights.len());
    let wr: Vec<(f64, f64)> = (0..n)
        .map(|v| {
            let (l, h) = case.weights.get(v).copied().unwrap_or((1, 1));
            ((l % 7) as f64, (h % 7) as f64)
        })
        .collect();
    st.flag("skip_top", skip_top);
    st.flag("skip_middle", skip_mid);
    st.flag("skip_bottom", skip_bot);
    st.flag("compl_root", bdd_is_compl(f));
    st.flag("constant_input", f.is_const());
    st.flag("nonlinear_order", !case.cfg.is_linear());
    st.flag("ns_lt_numvars", ns < n);
    let unit_weights = wr[..n].iter().all(|w| *w == (1.0, 1.0));
    if shorter && !unit_weights {
        st.mark_nontrivial();
    }
    Ok(())
}

impl SubCheckT for Smooth {
    type Case = Case;
    const NAME: &'static str = "smooth";
    const RULE: &'static str = "BDD picked from a random <=25-op history under a random order (complemented roots and constants included), n_s between (deepest tested level + 1) and num_vars, arbitrary integer weights 0..6 and boundary finite-field residues: smooth(f,n_s) has f's truth table, every path tests exactly the order prefix var_at_level(0..n_s), weighted counts (real, GF(2^64-25)) equal the brute-force sum over models on those n_s variables and the unit-weight count equals the number of models. The smoothed result is smoothed once more over the same prefix and must keep that shape, and joins the pool, so that up to 3 further smoothings (other pool entries incl. earlier smoothed results over longer prefixes, other n_s) are issued on the same builder and checked the same way, so a result may not depend on earlier calls. Non-trivial: some input path is shorter than n_s and the weights are not all (1,1)";
    fn cases(tier: Tier) -> u32 {
        tier.pick(40_000, 400_000)
    }
    fn strategy(_tier: Tier) -> BoxedStrategy<Case> {
        (
            cfg_strategy(7),
            ops_strategy(25),
            idx_strategy(),
            any::<u8>(),
            proptest::collection::vec((idx_strategy(), any::<u8>()), 0..=3),
            prop_oneof![2 => Just(vec![]), 1 => proptest::collection::vec(0u8..3, 3)],
            proptest::collection::vec((0u8..7, 0u8..7), 8),
            proptest::collection::vec((any::<u8>(), any::<u8>()), 8),
        )
            .prop_map(|(cfg, ops, target, ns, more, grow, weights, ff)| Case {
                cfg,
                ops,
                target,
                ns,
                more,
                grow,
                weights,
                ff,
            })
            .boxed()
    }
    fn run(case: &Case, st: &mut Stats) -> CaseResult {
        with_bdd_builder!(&case.cfg, go(case, st))
    }
}

// ---------------------------------------------------------------------------
// smoothing over 17..40 variables: a function of 2..6 variables scattered over the levels of a larger order
// ---------------------------------------------------------------------------

#[derive(Clone, Debug, Serialize, Deserialize)]
pub struct WideCase {
    pub total: u8,
    pub k: u8,
    pub bits: u64,
    pub seed: u64,
    pub ns_sel: u8,
}

pub struct SmoothWide;

/// labels tested along the path of an assignment, and the value reached
fn path_of(p: BddPtr, asg: &[bool]) -> (Vec<usize>, bool) {
    let mut cur = p;
    let mut flip = false;
    let mut seen = Vec::new();
    loop {
        match cur {
            BddPtr::PtrTrue => return (seen, !flip),
            BddPtr::PtrFalse => return (seen, flip),
            BddPtr::Reg(n) => {
                seen.push(n.var.value_usize());
                cur = if asg[n.var.value_usize()] { n.high } else { n.low };
            }
            BddPtr::Compl(n) => {
                flip = !flip;
                seen.push(n.var.value_usize());
                cur = if asg[n.var.value_usize()] { n.high } else { n.low };
            }
        }
    }
}

pub fn run_wide(case: &WideCase, st: &mut Stats) -> CaseResult {
    use rsdd::builder::cache::AllIteTable;
    use rsdd::repr::VarOrder;
    let total = (case.total as usize).clamp(9, 20);
    let k = (case.k as usize).clamp(2, 8);
    let order = crate::big::permutation(case.seed, total); // level -> label
    let mut level_of = vec![0usize; total];
    for (lv, l) in order.iter().enumerate() {
        level_of[*l] = lv;
    }
    let mut labels: Vec<usize> = crate::big::permutation(case.seed ^ 0xE55, total).into_iter().take(k).collect();
    labels.sort_unstable();
    // g over oracle variables 0..k
    let mut g = crate::tt::Tt([case.bits, splitmix(case.bits), splitmix(case.bits ^ 1), splitmix(case.bits ^ 2)]);
    for v in k..crate::tt::NV {
        g = g.cofactor(v, false);
    }
    let b = RobddBuilder::<AllIteTable<BddPtr>>::new(VarOrder::new(&order.iter().map(|l| VarLabel::new_usize(*l)).collect::<Vec<_>>()));
    let f = crate::semi::bdd_from_tt_labels(&b, g, &labels);
    // the input as it is: value on the k variables read back by walking (C01's concern otherwise)
    let gval = |asg: &[bool]| -> bool {
        let a = labels.iter().enumerate().fold(0usize, |m, (i, l)| if asg[*l] { m | 1 << i } else { m });
        g.get(a)
    };
    let lo = bdd_nodes(f).iter().map(|nd| level_of[nd.var.value_usize()] + 1).max().unwrap_or(0);
    let essential: Vec<usize> = bdd_nodes(f).iter().map(|nd| nd.var.value_usize()).collect::<std::collections::BTreeSet<_>>().into_iter().collect();
    // the library's smooth() rebuilds the diagram below a don't-care node once for each of its two edges: its running
    // time doubles with every variable the function does not depend on. Prefixes with more than 13 such variables
    // are out of a run's budget (time is never a verdict): the prefix is shortened, or the case is left out
    let mut ns = lo + (((case.ns_sel as usize) * (total - lo + 1)) >> 8);
    ns = ns.min(essential.len() + 13).max(lo);
    if ns - essential.len() > 13 {
        st.bump("wide.left_out(more than 13 don't-care levels: exponential running time of smooth)");
        return Ok(());
    }
    let want_path: Vec<usize> = order[..ns].to_vec();
    let s1 = b.smooth(f, ns);
    let s2 = b.smooth(s1, ns);
    for (what, s) in [("smooth(f, n)", s1), ("smooth(smooth(f, n), n)", s2)] {
        for j in 0..64u64 {
            let mut asg = crate::big::assignment(case.seed ^ 0x5A00, j, total);
            if j % 4 == 0 {
                // half of the probes follow one polarity on the non-essential variables, so that long runs of
                // don't-care nodes are crossed on the same side
                for (l, x) in asg.iter_mut().enumerate() {
                    if !essential.contains(&l) {
                        *x = j % 8 == 0;
                    }
                }
            }
            let (seen, val) = path_of(s, &asg);
            ensure!(val == gval(&asg), "C08/function-changed", "{} over {} of {} variables evaluates to {} on an assignment where f is {}", what, ns, total, val, gval(&asg));
            ensure!(
                seen == want_path,
                "C08/path-does-not-test-each-variable-once-in-order",
                "{} over the first {} of {} variables: a path tests {:?}; every path must test {:?} (f depends on {:?})",
                what,
                ns,
                total,
                seen,
                want_path,
                essential
            );
        }
        // counts: finite field with arbitrary residues, and unit weights
        let wf = |l: usize, bit: bool| -> u128 { splitmix(case.seed ^ 0xFF ^ ((l as u64) << 9) ^ bit as u64) as u128 % P };
        let mut ffp = WmcParams::<FiniteField<P>>::default();
        let mut ones = WmcParams::<RealSemiring>::default();
        for l in 0..total {
            ffp.set_weight(VarLabel::new_usize(l), FiniteField::new(wf(l, false)), FiniteField::new(wf(l, true)));
            ones.set_weight(VarLabel::new_usize(l), RealSemiring(1.0), RealSemiring(1.0));
        }
        let mut inner = 0u128;
        let mut models = 0u64;
        for a in 0..(1usize << k) {
            if g.get(a) {
                models += 1;
                let mut pr = 1u128;
                for (i, l) in labels.iter().enumerate() {
                    pr = mulmod(pr, wf(*l, (a >> i) & 1 == 1), P);
                }
                inner = (inner + pr) % P;
            }
        }
        // the k generating variables all lie in the first ns levels only if f depends on them; those it does not depend
        // on and that lie in the prefix are don't-care variables like any other: sum both polarities
        let mut want = 0u128;
        let in_prefix = |l: usize| level_of[l] < ns;
        // exact: enumerate the assignments of the k generating variables, multiply the weights of those in the prefix,
        // and the (low + high) of every other prefix variable
        let mut others = 1u128;
        for l in order[..ns].iter() {
            if !labels.contains(l) {
                others = mulmod(others, (wf(*l, false) + wf(*l, true)) % P, P);
            }
        }
        let outside: Vec<usize> = labels.iter().copied().filter(|l| !in_prefix(*l)).collect();
        let mut count_models_prefix = 0u64;
        for a in 0..(1usize << k) {
            if !g.get(a) {
                continue;
            }
            // generating variables outside the prefix are ones f does not depend on: count each prefix assignment once
            if labels.iter().enumerate().any(|(i, l)| outside.contains(l) && (a >> i) & 1 == 1) {
                continue;
            }
            count_models_prefix += 1;
            let mut pr = 1u128;
            for (i, l) in labels.iter().enumerate() {
                if in_prefix(*l) {
                    pr = mulmod(pr, wf(*l, (a >> i) & 1 == 1), P);
                }
            }
            want = (want + pr) % P;
        }
        let _ = (inner, models);
        want = mulmod(want, others, P);
        let got = s.unsmoothed_wmc(&ffp).value();
        ensure!(got == want, "C08/weighted-count-finite-field", "{} over the first {} of {} variables counts {} in GF(P64); the sum over models gives {}", what, ns, total, got, want);
        let unit = s.unsmoothed_wmc(&ones).0;
        let want_unit = count_models_prefix as f64 * (2f64).powi((ns - labels.iter().filter(|l| in_prefix(**l)).count()) as i32);
        ensure!(unit == want_unit, "C08/unweighted-count", "{} over the first {} of {} variables counts {} models under unit weights; the function has {}", what, ns, total, unit, want_unit);
    }
    st.flag(if total > 16 { "wide.total.17-20" } else { "wide.total.9-16" }, true);
    st.flag("wide.ns_above_16", ns > 16);
    if ns > 16 && essential.len() >= 2 {
        st.mark_nontrivial();
    }
    Ok(())
}

impl SubCheckT for SmoothWide {
    type Case = WideCase;
    const NAME: &'static str = "smooth_many_variables";
    const RULE: &'static str = "a function of 2..8 variables scattered over the levels of a pseudo-random order of 9..20 variables (prefixes with at most 13 variables the function does not depend on: the library's smooth() doubles its work with each of them), smoothed over a prefix that reaches at least its deepest variable (and smoothed once more): on 64 assignments the path tests exactly the order prefix, in order, and ends in f's value; the finite-field count under arbitrary residues equals the sum over f's models times (low + high) of every other prefix variable, the unit-weight count equals the number of models over the prefix. Non-trivial: a prefix of more than 16 variables";
    fn cases(tier: Tier) -> u32 {
        tier.pick(600, 12_000)
    }
    fn strategy(_tier: Tier) -> BoxedStrategy<WideCase> {
        (prop_oneof![1 => 9u8..=16, 3 => 17u8..=20], prop_oneof![1 => 2u8..=5, 3 => 6u8..=8], any::<u64>(), any::<u64>(), prop_oneof![1 => any::<u8>(), 1 => 200u8..=255])
            .prop_map(|(total, k, bits, seed, ns_sel)| WideCase { total, k, bits, seed, ns_sel })
            .boxed()
    }
    fn run(case: &WideCase, st: &mut Stats) -> CaseResult {
        run_wide(case, st)
    }
}

pub fn property() -> Property {
    Property {
        id: "C08",
        subs: vec![sub::<Smooth>(), sub::<SmoothWide>()],
        fuzz: vec![],
        assumptions: vec![
            "counts are claimed only when the BDD mentions no variable beyond the first n_s levels (shorter prefixes: function and path prefix only); exhaustive path and count oracles for n_s <= 8, sampled paths and closed-form counts up to 20 variables (at most 13 don't-care levels: smooth() is exponential in their number)",
            "integer weights so that f64 results are exact and compared with ==",
        ],
        nt_floor_percent: 20,
    }
}
