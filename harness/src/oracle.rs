//! Reference arithmetic written for the harness (no rsdd code).

/// (a + b) mod m for residues a, b < m, for every modulus up to 2^128 - 1 (no intermediate sum above u128)
fn add_res(a: u128, b: u128, m: u128) -> u128 {
    // a + b >= m  <=>  a >= m - b
    if a >= m - b {
        a - (m - b)
    } else {
        a + b
    }
}

/// (a * b) mod m without overflow, for every modulus up to 2^128 - 1
pub fn mulmod(a: u128, b: u128, m: u128) -> u128 {
    debug_assert!(m > 0);
    let mut a = a % m;
    let mut b = b % m;
    let mut r: u128 = 0;
    while b > 0 {
        if b & 1 == 1 {
            r = add_res(r, a, m);
        }
        a = add_res(a, a, m);
        b >>= 1;
    }
    r
}

pub fn addmod(a: u128, b: u128, m: u128) -> u128 {
    add_res(a % m, b % m, m)
}

pub fn submod(a: u128, b: u128, m: u128) -> u128 {
    let (a, b) = (a % m, b % m);
    if a >= b {
        a - b
    } else {
        a + (m - b)
    }
}

#[cfg(test)]
mod tests {
    use super::*;
    #[test]
    fn mulmod_small() {
        for m in [2u128, 3, 7, 1000001, 479001599] {
            for a in 0..40u128 {
                for b in 0..40u128 {
                    assert_eq!(mulmod(a * 7919, b * 104729, m), (a * 7919 % m) * (b * 104729 % m) % m);
                }
            }
        }
    }
    #[test]
    fn near_the_top_of_u128() {
        let m = u128::MAX - 158; // 2^128 - 159, prime
        assert_eq!(addmod(m - 1, m - 1, m), m - 2);
        assert_eq!(submod(1, m - 1, m), 2);
        assert_eq!(mulmod(m - 1, m - 1, m), 1);
        assert_eq!(mulmod(m - 1, 2, m), m - 2);
        assert_eq!(mulmod(1u128 << 127, 2, m), 159);
    }
    #[test]
    fn mulmod_big() {
        // (m-1)^2 = 1 mod m
        for m in [46084029846212370199652019757u128, 18_446_744_073_709_551_591] {
            assert_eq!(mulmod(m - 1, m - 1, m), 1);
            assert_eq!(mulmod(m - 1, 2, m), m - 2);
        }
    }
}
