//! Reference arithmetic written for the harness (no rsdd code).

/// (a * b) mod m without overflow, for m < 2^127
pub fn mulmod(a: u128, b: u128, m: u128) -> u128 {
    debug_assert!(m > 0 && m < (1u128 << 127));
    let mut a = a % m;
    let mut b = b % m;
    let mut r: u128 = 0;
    while b > 0 {
        if b & 1 == 1 {
            r = (r + a) % m;
        }
        a = (a + a) % m;
        b >>= 1;
    }
    r
}

pub fn addmod(a: u128, b: u128, m: u128) -> u128 {
    ((a % m) + (b % m)) % m
}

pub fn submod(a: u128, b: u128, m: u128) -> u128 {
    ((a % m) + m - (b % m)) % m
}

#[cfg(test)]
mod tests {
    use super::*;
    #[test]
    fn mulmod_small() {
        for m in [2u128, 3, 7, 1000001, 479001599] {
            for a in 0..40u128 {
                for b in 0..40u128 {
                    assert_eq!(mulmod(a * 7919, b * 104729, m), (a * 7919 % m) * (b * 104729 % m) % m);
                }
            }
        }
    }
    #[test]
    fn mulmod_big() {
        // (m-1)^2 = 1 mod m
        for m in [46084029846212370199652019757u128, 18_446_744_073_709_551_591] {
            assert_eq!(mulmod(m - 1, m - 1, m), 1);
            assert_eq!(mulmod(m - 1, 2, m), m - 2);
        }
    }
}
