//! Oracles for instances beyond the 8-variable truth table: evaluation of diagrams and formulas on explicit
//! assignments (own walkers over the public pointer types), the uniform measure of a decision diagram, and
//! assignment generators that are pure functions of a seed carried by the generated case.
use crate::engine::splitmix;
use crate::walk::{sdd_elements, sdd_is_compl};
use rsdd::repr::{BddNode, BddPtr, SddPtr};
use std::collections::HashMap;

pub type Clause = Vec<(usize, bool)>;

pub fn cnf_eval(clauses: &[Clause], asg: &[bool]) -> bool {
    clauses.iter().all(|c| c.iter().any(|(v, p)| asg[*v] == *p))
}

/// value of a BDD-shaped diagram (RobddBuilder or top-down) under a total assignment, by walking raw fields
pub fn bdd_eval(p: BddPtr, asg: &[bool]) -> bool {
    let mut cur = p;
    let mut flip = false;
    loop {
        match cur {
            BddPtr::PtrTrue => return !flip,
            BddPtr::PtrFalse => return flip,
            BddPtr::Reg(n) => cur = if asg[n.var.value_usize()] { n.high } else { n.low },
            BddPtr::Compl(n) => {
                flip = !flip;
                cur = if asg[n.var.value_usize()] { n.high } else { n.low };
            }
        }
    }
}

/// value of an SDD under a total assignment: at a decision node exactly one prime is true (memoised per node:
/// primes of deep vtrees share sub-diagrams, and without the memo the walk is exponential in the depth)
pub fn sdd_eval(p: SddPtr, asg: &[bool]) -> bool {
    fn go(p: SddPtr, asg: &[bool], memo: &mut HashMap<crate::walk::SddKey, bool>) -> bool {
        match p {
            SddPtr::PtrTrue => true,
            SddPtr::PtrFalse => false,
            SddPtr::Var(l, pol) => asg[l.value_usize()] == pol,
            _ => {
                let k = crate::walk::sdd_key(p).unwrap();
                let reg = if let Some(v) = memo.get(&k) {
                    *v
                } else {
                    let mut v = false;
                    for (pr, su) in sdd_elements(p) {
                        if go(pr, asg, memo) {
                            v = go(su, asg, memo);
                            break;
                        }
                    }
                    memo.insert(k, v);
                    v
                };
                reg != sdd_is_compl(p)
            }
        }
    }
    go(p, asg, &mut HashMap::new())
}

/// fraction of all assignments that satisfy the diagram, exact in f64 for <= 40 variables when no path tests a
/// variable twice (each node: half the low measure plus half the high measure; complement = 1 - x)
pub fn bdd_measure(p: BddPtr) -> f64 {
    fn reg(n: &BddNode, memo: &mut HashMap<*const BddNode<'static>, f64>) -> f64 {
        let k = n as *const BddNode as *const BddNode<'static>;
        if let Some(x) = memo.get(&k) {
            return *x;
        }
        let x = 0.5 * go(n.low, memo) + 0.5 * go(n.high, memo);
        memo.insert(k, x);
        x
    }
    fn go(p: BddPtr, memo: &mut HashMap<*const BddNode<'static>, f64>) -> f64 {
        match p {
            BddPtr::PtrTrue => 1.0,
            BddPtr::PtrFalse => 0.0,
            BddPtr::Reg(n) => reg(n, memo),
            BddPtr::Compl(n) => 1.0 - reg(n, memo),
        }
    }
    go(p, &mut HashMap::new())
}

/// pseudo-random total assignment number k for a case seed
pub fn assignment(seed: u64, k: u64, n: usize) -> Vec<bool> {
    let mut out = Vec::with_capacity(n);
    let mut w = 0u64;
    for i in 0..n {
        if i % 64 == 0 {
            w = splitmix(seed ^ k.wrapping_mul(0x9E37_79B9_7F4A_7C15) ^ ((i / 64) as u64).wrapping_mul(0xD1B5_4A32_D192_ED03));
        }
        out.push((w >> (i % 64)) & 1 == 1);
    }
    out
}

/// assignments aimed at one clause: every literal of the clause false, the rest pseudo-random; a formula that lost
/// the clause is (where the other clauses hold) wrongly true there
pub fn falsifying(seed: u64, k: u64, n: usize, clause: &Clause) -> Vec<bool> {
    let mut a = assignment(seed, k, n);
    for (v, p) in clause {
        a[*v] = !*p;
    }
    a
}

/// permutation of 0..n derived from a seed
pub fn permutation(seed: u64, n: usize) -> Vec<usize> {
    let mut idx: Vec<usize> = (0..n).collect();
    idx.sort_by_key(|i| splitmix(seed ^ (*i as u64).wrapping_mul(0xA24B_AED4_963E_E407)));
    idx
}

/// nesting depth of a diagram: 0 for constants and literals, else 1 + the deepest among its primes and subs
pub fn sdd_depth(p: SddPtr) -> usize {
    fn go(p: SddPtr, memo: &mut std::collections::HashMap<crate::walk::SddKey, usize>) -> usize {
        let Some(k) = crate::walk::sdd_key(p) else { return 0 };
        if let Some(d) = memo.get(&k) {
            return *d;
        }
        let mut d = 0;
        for (pr, su) in crate::walk::sdd_elements(p) {
            d = d.max(1 + go(pr, memo)).max(1 + go(su, memo));
        }
        memo.insert(k, d);
        d
    }
    go(p, &mut std::collections::HashMap::new())
}
