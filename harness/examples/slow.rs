use arbitrary::Unstructured;
use vp::engine::*;
use vp::props::{c03, c04};
fn main() {
    let path = std::env::args().nth(1).unwrap();
    let data = std::fs::read(path).unwrap();
    let mut u = Unstructured::new(&data);
    let case = vp::decode::c03_case(&mut u).unwrap();
    println!("{}", serde_json::to_string(&case).unwrap());
    let t = std::time::Instant::now();
    let mut st = Stats::default();
    let r = run_guarded::<c03::Hist>(&case, &mut st);
    println!("C03 {:?} in {:?}", r.map_err(|f| f.signature), t.elapsed());
    if case.compress {
        let t = std::time::Instant::now();
        let r = run_guarded::<c04::WellFormed>(&case, &mut st);
        println!("C04 {:?} in {:?}", r.map_err(|f| f.signature), t.elapsed());
    }
}
