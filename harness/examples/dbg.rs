use vp::props::c16::SddCacheCase;
use vp::sddi::*;
use vp::walk::*;
use rsdd::builder::sdd::SemanticSddBuilder;
use rsdd::constants::primes;
fn main() {
    let v: serde_json::Value = serde_json::from_str(&std::fs::read_to_string("/tmp/c16-sem.json").unwrap()).unwrap();
    let case: SddCacheCase = serde_json::from_value(v["case"].clone()).unwrap();
    let shape = case.vt.shape();
    println!("shape {:?}", shape);
    let b: SemanticSddBuilder<{ primes::U64_LARGEST }> = SemanticSddBuilder::new(case.vt.to_vtree());
    let mut run = SddRun::new(&b, shape.leaves());
    for (i, op) in case.ops.iter().enumerate() {
        if let Some(out) = run.step(op) {
            let (p, t) = run.pool[out.idx];
            println!("op#{} {:?} -> pool[{}] args {:?} oracle {:?} walked {:?} {}", i, op, out.idx, out.args, t, sdd_tt(p), if sdd_tt(p) == t { "" } else { "  <<<<<< WRONG" });
        }
    }
}
