use rsdd::builder::bdd::RobddBuilder;
use rsdd::builder::cache::AllIteTable;
use rsdd::builder::BottomUpBuilder;
use rsdd::repr::{BddPtr, DDNNFPtr, VarLabel, VarOrder, WmcParams};
use rsdd::util::semirings::FiniteField;
fn main() {
    for n in [16usize, 20, 22, 24] {
        let b = RobddBuilder::<AllIteTable<BddPtr>>::new(VarOrder::linear_order(n));
        let x = |i: usize| b.var(VarLabel::new_usize(i), true);
        let f = b.or(b.or(b.and(x(0), x(7)), b.negate(x(n - 1))), x(13));
        let t = std::time::Instant::now();
        let s = b.smooth(f, n);
        let mut ones = WmcParams::<FiniteField<{ rsdd::constants::primes::U64_LARGEST }>>::default();
        for v in 0..n {
            ones.set_weight(VarLabel::new_usize(v), FiniteField::new(1), FiniteField::new(1));
        }
        let c = s.unsmoothed_wmc(&ones).value();
        println!("n={} count={} nodes={} in {:?}", n, c, s.count_nodes(), t.elapsed());
    }
}
