use rsdd::builder::sdd::{SddBuilder, SemanticSddBuilder};
use rsdd::constants::primes;
use rsdd::repr::{create_semantic_hash_map, DDNNFPtr, SddPtr};
use vp::fnsrc::FnSrc;
use vp::semi::sdd_from_tt;
use vp::vtgen::VtreeCase;
use vp::walk::*;

fn main() {
    const P: u128 = primes::U32_TINY;
    let src = FnSrc::Bits { n: 6, bits: 5897317937455563363, keep: 255 };
    let vt = VtreeCase { k: 6, keys: vec![0, 54155, 54155, 0, 0, 0, 0, 0, 0, 0, 0, 0], kind: 1, splits: vec![0; 12], stride: 1, offset: 0 };
    let t = src.tt();
    let map = create_semantic_hash_map::<P>(6);
    let b = SemanticSddBuilder::<P>::new(vt.to_vtree());
    let f = sdd_from_tt(&b, t, 6);
    println!("tt ok: {}", sdd_tt(f) == t);
    println!("fold hash {:?} cached {:?}", f.semantic_hash(&map), b.cached_semantic_hash(f));
    for n in sdd_nodes(f) {
        let fh = n.semantic_hash(&map);
        let ch = n.cached_semantic_hash(b.vtree_manager(), &map);
        if fh != ch {
            println!("node at vtree {} differs: fold {:?} cached {:?}; elements:", n.vtree().value(), fh, ch);
            for (p, s) in sdd_elements(n) {
                println!("   prime fold {:?} cached {:?} | sub fold {:?} cached {:?}  prime tt {:?} sub tt {:?}", p.semantic_hash(&map), p.cached_semantic_hash(b.vtree_manager(), &map), s.semantic_hash(&map), s.cached_semantic_hash(b.vtree_manager(), &map), sdd_tt(p), sdd_tt(s));
            }
        }
    }
    let _ = SddPtr::PtrTrue;
}
