use rsdd::repr::{Cnf, Literal, VarLabel};
use vp::engine::splitmix;
fn main() {
    for n in [130usize, 260, 400, 600, 1030] {
        let mut cl = Vec::new();
        let mut s = 77u64;
        for _ in 0..n {
            let mut c = Vec::new();
            for _ in 0..3 {
                s = splitmix(s);
                c.push(Literal::new(VarLabel::new_usize((s as usize) % n), (s >> 40) & 1 == 1));
            }
            cl.push(c);
        }
        let cnf = Cnf::new(&cl);
        let t = std::time::Instant::now();
        let o = cnf.min_fill_order();
        let t1 = t.elapsed();
        let f = cnf.force_order();
        let t2 = t.elapsed() - t1;
        let h = cnf.hasher();
        println!("n {} min_fill {:?} force {:?} vars {} {} hasher? {}", n, t1, t2, o.num_vars(), f.num_vars(), std::mem::size_of_val(h));
    }
}
