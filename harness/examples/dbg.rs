use proptest::strategy::{Strategy, ValueTree};
use proptest::test_runner::{Config, RngAlgorithm, TestRng, TestRunner};
use vp::engine::{Stats, SubCheckT, Tier};
use vp::props::c05::*;
fn main() {
    let mut runner = TestRunner::new_with_rng(Config::default(), TestRng::from_seed(RngAlgorithm::ChaCha, &[7u8; 32]));
    let strat = <CnfLarge as SubCheckT>::strategy(Tier::Quick);
    let mut tot = std::time::Duration::ZERO;
    let mut worst = std::time::Duration::ZERO;
    for i in 0..20000 {
        let case = strat.new_tree(&mut runner).unwrap().current();
        let t = std::time::Instant::now();
        let r = std::thread::scope(|_| run_cnf_large(&case, &mut Stats::default()));
        let e = t.elapsed();
        tot += e;
        if e > worst { worst = e; println!("worst so far #{} {:?} vt {} clauses {}", i, e, case.vtree_kind, case.clauses.len()); }
        if e.as_millis() > 200 {
            println!("#{} {:?} vt {} clauses {} in {:?}: {:?}", i, r.map_err(|f| f.signature), case.vtree_kind, case.clauses.len(), e, case.clauses);
        }
    }
    println!("total {:?}", tot);
}
