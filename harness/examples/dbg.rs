use rsdd::serialize::LogicalSExpr;
fn try_parse(s: &str) {
    let r = std::panic::catch_unwind(|| serde_sexpr::from_str::<LogicalSExpr>(s).map(|_| ()));
    println!("{:50} {:?}", s.replace('\n', "\\n").replace('\t', "\\t"), r.map_err(|_| "PANIC"));
}
fn main() {
    std::panic::set_hook(Box::new(|_| {}));
    try_parse("(And (Var X) (Var Y))\n");
    try_parse("\n(And (Var X) (Var Y))");
    try_parse("\t(And (Var X) (Var Y))  ");
    try_parse("(And\n(Var X)\n(Var Y))");
    try_parse("(And \n (Var X) \t (Var Y))");
    try_parse("(Not (Not (Var X)))");
    try_parse("(And (Var B) (Var a))");
    try_parse("(And (Var 10) (Var 9))");
    try_parse("(Var x)");
    try_parse("(Var  x)");
    try_parse("(Var\nx)");
    try_parse("(Var x )");
}
