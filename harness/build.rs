//! Generates the list of prime moduli the library exports (src/constants.rs, `pub mod primes`) so that the
//! finite-field checks of C13 instantiate every one of them, including any added later.
use std::io::Write;

fn main() {
    let manifest_dir = std::env::var("CARGO_MANIFEST_DIR").unwrap();
    let manifest = std::fs::read_to_string(format!("{}/Cargo.toml", manifest_dir)).unwrap();
    // rsdd = { path = "...", ... }
    let repo = manifest
        .lines()
        .find(|l| l.trim_start().starts_with("rsdd"))
        .and_then(|l| l.split("path").nth(1))
        .and_then(|r| r.split('"').nth(1))
        .expect("path of the rsdd dependency")
        .to_string();
    let constants = format!("{}/src/constants.rs", repo);
    println!("cargo:rerun-if-changed={}", constants);
    println!("cargo:rerun-if-changed=Cargo.toml");
    let text = std::fs::read_to_string(&constants).expect("src/constants.rs of the library");
    let mut names: Vec<String> = Vec::new();
    let mut inside = false;
    for line in text.lines() {
        let t = line.trim();
        if t.starts_with("pub mod primes") {
            inside = true;
            continue;
        }
        if inside && t == "}" {
            break;
        }
        if inside && t.starts_with("pub const ") && t.contains(": u128") {
            names.push(t["pub const ".len()..].split(':').next().unwrap().trim().to_string());
        }
    }
    assert!(!names.is_empty(), "no exported primes found in {}", constants);
    let out = format!("{}/exported_primes.rs", std::env::var("OUT_DIR").unwrap());
    let mut f = std::fs::File::create(out).unwrap();
    let small = [2u128, 3, 5, 7, 11, 13];
    writeln!(f, "/// GF(2)..GF(13) for exhaustive enumeration, then every prime exported by rsdd::constants::primes").unwrap();
    write!(f, "pub const PRIME_LIST: &[u128] = &[").unwrap();
    for p in small {
        write!(f, "{}, ", p).unwrap();
    }
    for n in names.iter() {
        write!(f, "rsdd::constants::primes::{}, ", n).unwrap();
    }
    writeln!(f, "];").unwrap();
    writeln!(f, "pub const EXPORTED_PRIME_NAMES: &[&str] = &[{}];", names.iter().map(|n| format!("\"{}\"", n)).collect::<Vec<_>>().join(", ")).unwrap();
    writeln!(f, "macro_rules! with_prime {{").unwrap();
    writeln!(f, "    ($idx:expr, $f:ident ( $($arg:expr),* )) => {{").unwrap();
    writeln!(f, "        match $idx {{").unwrap();
    for (i, p) in small.iter().enumerate() {
        writeln!(f, "            {} => $f::<{}>($($arg),*),", i, p).unwrap();
    }
    for (i, n) in names.iter().enumerate() {
        writeln!(f, "            {} => $f::<{{ rsdd::constants::primes::{} }}>($($arg),*),", small.len() + i, n).unwrap();
    }
    writeln!(f, "            _ => unreachable!(\"prime index out of range\"),").unwrap();
    writeln!(f, "        }}\n    }};\n}}").unwrap();
}
