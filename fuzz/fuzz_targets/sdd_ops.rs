#![no_main]
//! C03 + C04: SDD operation histories (function correctness; well-formedness and canonicity when compressing).
use arbitrary::Unstructured;
use libfuzzer_sys::fuzz_target;
use vp::props::{c03, c04};

fuzz_target!(|data: &[u8]| {
    let mut u = Unstructured::new(data);
    if let Ok(case) = vp::decode::c03_case(&mut u) {
        let only = std::env::var("FUZZ_PROP").unwrap_or_default();
        if only != "C04" {
            vp::fuzzrt::fuzz_one::<c03::Hist>("C03", &case);
        }
        if case.compress && only != "C03" {
            vp::fuzzrt::fuzz_one::<c04::WellFormed>("C04", &case);
        }
    }
});
