#![no_main]
//! C02 (table level) + C16 (lossy cache): insert/lookup histories with colliding hashes against map models.
use arbitrary::Unstructured;
use libfuzzer_sys::fuzz_target;
use vp::props::{c02, c16};

fuzz_target!(|data: &[u8]| {
    let mut u = Unstructured::new(data);
    let Ok(sel) = u.arbitrary::<u8>() else { return };
    let only = std::env::var("FUZZ_PROP").unwrap_or_default();
    let first = match only.as_str() {
        "C02" => true,
        "C16" => false,
        _ => sel % 2 == 0,
    };
    if first {
        if let Ok(case) = vp::decode::c02_table_case(&mut u) {
            vp::fuzzrt::fuzz_one::<c02::Table>("C02", &case);
        }
    } else if let Ok(case) = vp::decode::c16_lru_case(&mut u) {
        vp::fuzzrt::fuzz_one::<c16::LruDirect>("C16", &case);
    }
});
