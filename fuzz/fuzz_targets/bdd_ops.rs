#![no_main]
//! C01 + C02 (builder level): BDD operation histories against the truth-table oracle and the canonicity map.
use arbitrary::Unstructured;
use libfuzzer_sys::fuzz_target;
use vp::props::{c01, c02};

fuzz_target!(|data: &[u8]| {
    let mut u = Unstructured::new(data);
    let Ok(sel) = u.arbitrary::<u8>() else { return };
    // FUZZ_PROP restricts the campaign to one property's branch (set by the thorough tier)
    let only = std::env::var("FUZZ_PROP").unwrap_or_default();
    let first = match only.as_str() {
        "C01" => true,
        "C02" => false,
        _ => sel % 2 == 0,
    };
    if first {
        if let Ok(case) = vp::decode::c01_case(&mut u) {
            vp::fuzzrt::fuzz_one::<c01::Hist>("C01", &case);
        }
    } else if let Ok(case) = vp::decode::c02_builder_case(&mut u) {
        vp::fuzzrt::fuzz_one::<c02::Builder>("C02", &case);
    }
});
