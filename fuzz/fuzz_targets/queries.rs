#![no_main]
//! C10: query histories over a shared pool against freshly built copies, scratch empty after every call.
use arbitrary::Unstructured;
use libfuzzer_sys::fuzz_target;
use vp::props::c10;

fuzz_target!(|data: &[u8]| {
    let mut u = Unstructured::new(data);
    if let Ok(case) = vp::decode::c10_case(&mut u) {
        vp::fuzzrt::fuzz_one::<c10::BddQueries>("C10", &case);
    }
});
