#![no_main]
//! C09: decide/pop histories of the SAT solver against brute-force entailment and the recorded-state model.
use arbitrary::Unstructured;
use libfuzzer_sys::fuzz_target;
use vp::props::c09;

fuzz_target!(|data: &[u8]| {
    let mut u = Unstructured::new(data);
    if let Ok(case) = vp::decode::c09_case(&mut u) {
        vp::fuzzrt::fuzz_one::<c09::History>("C09", &case);
    }
});
