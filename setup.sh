#!/bin/bash
# offline build of the verification harness (and the cli tools used by C19)
set -e
export CARGO_NET_OFFLINE=true
HERE="$(cd "$(dirname "${BASH_SOURCE[0]}")" && pwd)"
cd "$HERE/harness"
cargo build --offline 2>&1 | tail -n 3
cargo build --offline --manifest-path /repo/Cargo.toml --features cli --bins --target-dir "$HERE/harness/target/cli" 2>&1 | tail -n 3
cargo build --offline --release --manifest-path /repo/Cargo.toml --features cli --bins --target-dir "$HERE/harness/target/cli" 2>&1 | tail -n 3
mkdir -p "$HERE/work" "$HERE/evidence"
echo setup-ok
