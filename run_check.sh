#!/bin/bash
# usage: run_check.sh <ID> [quick|thorough]
# exit 0 = held on everything explored; 1 = VIOLATION line printed; 2 = inconclusive / infrastructure
ID="$1"
TIER="${2:-${VERIF_TIER:-quick}}"
export CARGO_NET_OFFLINE=true
export RUST_BACKTRACE=0
HERE="$(cd "$(dirname "${BASH_SOURCE[0]}")" && pwd)"
export VERIF_ROOT="$HERE"
mkdir -p "$HERE/work" "$HERE/evidence"
cd "$HERE/harness" || exit 2
LOG="$HERE/work/build-$ID-$$.log"
if ! cargo build --offline >"$LOG" 2>&1; then
  echo "BUILD-FAILED (harness against /repo working tree); inconclusive"
  tail -n 40 "$LOG"
  rm -f "$LOG"
  exit 2
fi
if [ "$ID" = "C19" ]; then
  # the tools are checked as built with the dev profile and as built with the crate's release profile
  for PROF in "" "--release"; do
    if ! cargo build --offline $PROF --manifest-path /repo/Cargo.toml --features cli --bins --target-dir "$HERE/harness/target/cli" >"$LOG" 2>&1; then
      echo "BUILD-FAILED (cli tools $PROF); inconclusive"
      tail -n 40 "$LOG"
      rm -f "$LOG"
      exit 2
    fi
  done
fi
rm -f "$LOG"
if [ "$TIER" = "thorough" ]; then
  # auxiliary pass of the thorough tier: the quick-size search once more with harness AND library compiled without
  # debug assertions and overflow checks (the way a release build of a user's program sees the library). A
  # violation found there is reported like any other; a build problem or an inconclusive pass is only noted.
  AUX="not run (release build of the harness failed)"
  if cargo build --offline --release >"$HERE/work/build-$ID-$$.rel.log" 2>&1; then
    OUT=$(VERIF_NO_EVIDENCE=1 VERIF_NO_FUZZ=1 "$HERE/harness/target/release/vp" check "$ID" --tier quick 2>&1); CODE=$?
    if [ $CODE -eq 1 ]; then
      echo "$OUT" | sed 's/^VIOLATION /VIOLATION /'
      echo "(found by the auxiliary pass without debug assertions and overflow checks)"
      rm -f "$HERE/work/build-$ID-$$.rel.log"
      exit 1
    fi
    AUX="exit $CODE: $(echo "$OUT" | tail -1)"
  fi
  rm -f "$HERE/work/build-$ID-$$.rel.log"
  export VERIF_EXTRA_NOTE="thorough tier: a quick-size pass with the harness and the library compiled without debug assertions and overflow checks ran first ($AUX)"
fi
exec "$HERE/harness/target/debug/vp" check "$ID" --tier "$TIER"
