#!/bin/bash
# usage: run_check.sh <ID> [quick|thorough]
# exit 0 = held on everything explored; 1 = VIOLATION line printed; 2 = inconclusive / infrastructure
ID="$1"
TIER="${2:-${VERIF_TIER:-quick}}"
export CARGO_NET_OFFLINE=true
export RUST_BACKTRACE=0
HERE="$(cd "$(dirname "${BASH_SOURCE[0]}")" && pwd)"
export VERIF_ROOT="$HERE"
mkdir -p "$HERE/work" "$HERE/evidence"
cd "$HERE/harness" || exit 2
LOG="$HERE/work/build-$ID-$$.log"
if ! cargo build --offline >"$LOG" 2>&1; then
  echo "BUILD-FAILED (harness against /repo working tree); inconclusive"
  tail -n 40 "$LOG"
  rm -f "$LOG"
  exit 2
fi
if [ "$ID" = "C19" ]; then
  # the tools are checked as built with the dev profile and as built with the crate's release profile
  for PROF in "" "--release"; do
    if ! cargo build --offline $PROF --manifest-path /repo/Cargo.toml --features cli --bins --target-dir "$HERE/harness/target/cli" >"$LOG" 2>&1; then
      echo "BUILD-FAILED (cli tools $PROF); inconclusive"
      tail -n 40 "$LOG"
      rm -f "$LOG"
      exit 2
    fi
  done
fi
rm -f "$LOG"
exec "$HERE/harness/target/debug/vp" check "$ID" --tier "$TIER"
